"""Checks C01, C02, C03 (and the shared machinery for C14, C16, C18):
combinator algebra, decided with specs Pipeline.tla / PipelineTrace.tla."""
import json
import random
from . import common, findings, pipeline, tlc
from .common import Result


def cfg(maxlen, depth, family='core', grid='GridS', rich=1, big=0):
    return f'''CONSTANTS
  MaxLen = {maxlen}
  Depth = {depth}
  Family = "{family}"
  RichBudget = {rich}
  BigLen = {big}
  SliceGrid <- {grid}
SPECIFICATION Spec
INVARIANT EmitProgram
CHECK_DEADLOCK FALSE
'''


# (name, cfg, replay budget: None = every program is executed on the real
#  library, n = the programs the MODEL flags + a seeded sample of n others)
TIERS = {
    'quick': {
        'bfs': [('d1-all-slice-forms', cfg(3, 1, grid='GridL3', big=6), None),
                ('d2', cfg(2, 2), 12000)],
        'random': {'count': 3000, 'depths': (3, 4, 5)},
    },
    'thorough': {
        'bfs': [('d1-all-slice-forms', cfg(4, 1, grid='GridL4', big=7), None),
                ('d2', cfg(2, 2), None),
                ('d2-len3', cfg(3, 2, grid='GridS'), 60000),
                ('d3-reduced', cfg(2, 3, rich=0), 60000)],
        'random': {'count': 60000, 'depths': (3, 4, 5, 6, 7)},
    },
}


# pipelines consumed through a worker pool, iterated under line-level schedules
SCHED = {'quick': 1500, 'thorough': 40000}

FAULT_TIERS = {
    'quick': {'bfs': [('fault-staged-len2', cfg(2, 4, family='fault'), 14000)],
              'random': {'count': 2500, 'depths': (3, 4, 5)}},
    'thorough': {'bfs': [('fault-staged-len2', cfg(2, 4, family='fault'), None),
                         ('fault-staged-len3', cfg(3, 4, family='fault'), 80000)],
                 'random': {'count': 40000, 'depths': (3, 4, 5, 6)}},
}
SORT_TIERS = {
    'quick': {'bfs': [('sortgroup-d2', cfg(3, 2, family='sortgroup'), None)],
              'random': {'count': 1500, 'depths': (2, 3, 4), 'payload': 'd', 'top': 'sortgroup'}},
    'thorough': {'bfs': [('sortgroup-d2', cfg(3, 2, family='sortgroup'), None),
                         ('sortgroup-d3-reduced', cfg(3, 3, family='sortgroup', rich=1), 60000)],
                 'random': {'count': 30000, 'depths': (2, 3, 4, 5), 'payload': 'd', 'top': 'sortgroup'}},
}
# C03 also looks at the fault family: stages that drop examples must not keep
# answering keys() / items() with the keys of the dropped ones
C03_TIERS = {t: {'bfs': TIERS[t]['bfs'] + [(n, c, 6000 if t == 'quick' else 60000)
                                            for n, c, _ in FAULT_TIERS[t]['bfs'][:1]],
                 'random': TIERS[t]['random']} for t in TIERS}
FAMILY = {'C14': ('fault', FAULT_TIERS), 'C18': ('sortgroup', SORT_TIERS), 'C03': ('core', C03_TIERS)}


def collect_programs(tier, family, res, rng, tiers=None):
    """TLC enumerates programs (BFS, exhaustive inside the constants); a seeded
    generator adds deep random ones; returns the list to execute."""
    chosen = {}
    plan = (tiers or TIERS)[tier]
    info = []
    for name, c, budget in plan['bfs']:
        c = c.replace('"core"', f'"{family}"')
        recs, st = pipeline.enumerate_programs(c)
        res.add_tlc(st)
        if family == 'sortgroup':      # only programs with sort / groupby on top matter
            recs = [r for r in recs if r['prog']['op'] in ('sort', 'group')]
        flagged = [r for r in recs if any(v[0] == 'viol' for v in r['mv'].values())]
        rest = [r for r in recs if not any(v[0] == 'viol' for v in r['mv'].values())]
        if budget is not None and len(rest) > budget:
            rest = rng.sample(rest, budget)
        for r in flagged + rest:
            chosen.setdefault(json.dumps(r['prog'], sort_keys=True), r)
        info.append({'config': name, 'enumerated': len(recs), 'model_flagged': len(flagged),
                     'executed': len(flagged) + len(rest), 'exhaustive_replay': budget is None
                     or len(recs) - len(flagged) <= budget, 'tlc': st})
    rp = plan['random']
    from . import randprog
    deep = randprog.programs(common.seed(), rp['count'], rp['depths'], family=family,
                             payload=rp.get('payload', 'i'), top=rp.get('top'))
    fresh = 0
    for p in deep:
        key = json.dumps(p, sort_keys=True)
        if key not in chosen:
            chosen[key] = {'prog': p, 'mv': None}
            fresh += 1
    info.append({'config': 'random-deep (python generator, code -> spec only)',
                 'generated': len(deep), 'distinct_new': fresh, 'depths': list(rp['depths'])})
    # the canonical input of every open finding of this property is always executed
    # (the KNOWN-FINDING line does not depend on what the samples happen to contain)
    for f in common.load_findings()['findings']:
        if f['status'] == 'open' and f['property'] == res.prop and 'canonical' in f \
                and f.get('match', {}).get('family') == 'pipeline':
            chosen.setdefault(json.dumps(f['canonical']['prog'], sort_keys=True),
                              {'prog': f['canonical']['prog'], 'mv': None})
    res.coverage['configs'] = info
    return list(chosen.values())


def run(prop, tier, family='core', judge=None):
    res = Result(prop, tier)
    rng = random.Random(common.seed())
    family, tiers = FAMILY.get(prop, (family, None))
    try:
        recs = collect_programs(tier, family, res, rng, tiers)
        # every third program is built in touch mode (see pipeline.observe_all)
        # ... and every third in index-first mode: ds[i] for every i, last to first,
        # BEFORE the first iteration (observe.observe_ds)
        touch = [(1 if i % 3 == 2 else 2 if i % 3 == 1 else 0) for i in range(len(recs))]
        obs = pipeline.observe_all([r['prog'] for r in recs], touch=touch)
        res.coverage['built_in_touch_mode'] = sum(1 for t in touch if t == 1)
        res.coverage['observed_index_first'] = sum(1 for t in touch if t == 2)
        for r_, t_ in zip(recs, touch):
            r_['touch'] = t_
        records = [{'id': i + 1, 'prog': r['prog'], 'obs': o}
                   for i, (r, o) in enumerate(zip(recs, obs))]
        if prop == 'C01':
            from . import randprog
            sp = randprog.shared_programs(common.seed(), SCHED[tier])
            so = pipeline.observe_sched_all(sp, common.seed())
            st_ = {'programs': len(sp), 'scheduled': 0, 'aborted': 0, 'skipped': 0, 'abort_reasons': {},
                   'context_switches': 0, 'scheduling_decisions': 0, 'thread_errors': 0,
                   'granularity': 'every source line of lazy_dataset/core.py executed by any '
                                  'thread while a pool is alive + every queue / future / '
                                  'thread operation of parallel_utils; 2 seeded random '
                                  'schedules per program (first and second iteration)'}
            for p, (o, inf) in zip(sp, so):
                k = {'ok': 'scheduled'}.get(inf['sched'], inf['sched'])
                st_[k] += 1
                if inf['sched'] == 'aborted':
                    st_['abort_reasons'][inf['why']] = st_['abort_reasons'].get(inf['why'], 0) + 1
                st_['context_switches'] += inf.get('switches', 0)
                st_['scheduling_decisions'] += inf.get('decisions', 0)
                st_['thread_errors'] += len(inf.get('thread_errors', ()))
                recs.append({'prog': p, 'mv': None, 'sched': inf['sched'], 'seed': inf.get('seed')})
                records.append({'id': len(records) + 1, 'prog': p, 'obs': o})
            res.coverage['worker_pool_under_line_level_schedules'] = st_
        verdicts, st = pipeline.validate(records)
        res.add_tlc(st)
    except tlc.TlcError as e:
        res.machinery_errors.append(str(e))
        return res.finish()
    res.coverage['traces_validated_against_impl'] = len(records)
    res.coverage['evaluations'] = len(records)
    nontrivial = 0
    known = {}
    by_clause = {}
    samples = []
    for rec, r in zip(records, recs):
        v = verdicts[rec['id']]
        status, clause = v[prop]
        by_clause[f'{status}:{clause}'] = by_clause.get(f'{status}:{clause}', 0) + 1
        if status == 'ok':
            nontrivial += 1
            if len(samples) < 4 and rec['id'] % 97 == 0:
                samples.append({'program': pipeline.short(rec['prog']), 'verdict': 'ok',
                                'iteration': rec['obs']['it1']})
        if v['conf'] != 'conforms':
            res.drift.append({'where': v['conf'], 'program': pipeline.short(rec['prog'])})
        mv = r['mv'][prop.lower()] if r['mv'] else None
        kf = findings.match_pipeline(prop, clause, rec['prog'], rec['obs']) \
            if status == 'viol' else None
        if kf is not None:
            known[kf['id']] = known.get(kf['id'], 0) + 1
            if known[kf['id']] == 1:
                res.known_finding(kf['id'], kf['what'] + ' e.g. ' + pipeline.short(rec['prog']))
        elif status == 'viol':
            res.violation(
                f'{clause}: {pipeline.short(rec["prog"])}',
                {'family': 'pipeline', 'prog': rec['prog'], 'obs': rec['obs'],
                 'verdict': [status, clause], 'model_verdict': mv,
                 'sched': r.get('sched'), 'sched_seed': r.get('seed'), 'touch': r.get('touch', 0),
                 'how': 'real observation judged by TLC (PipelineTrace.tla)'
                        + ('; it1 / it2 taken under seeded line-level schedules '
                           '(harness/schedobs.py)' if r.get('sched') == 'ok' else '')})
            if len(res.violations) >= 25:
                break
        elif mv and mv[0] == 'viol':
            # the design admits a violation the real code does not show: the
            # model misrepresents the code (never a property violation)
            res.drift.append({'where': 'model-verdict', 'program': pipeline.short(rec['prog']),
                              'model': mv})
    if not samples and records:
        samples.append({'program': pipeline.short(records[0]['prog']),
                        'verdict': list(verdicts[records[0]['id']][prop])})
    res.coverage['samples'] = samples
    res.coverage['distinct_nontrivial'] = nontrivial
    res.coverage['verdicts'] = by_clause
    res.coverage['known_finding_hits'] = known
    res.coverage['rule'] = (
        'programs = all method-call sequences TLC enumerates from Pipeline.tla (BFS, '
        'deduplicated by program text) plus TLC -simulate walks; a program is non-trivial '
        'for this property when its verdict on the REAL observation is "ok" (the property '
        'applies and holds) rather than "trivial" (refused construction, undefined '
        'reference, empty dataset, no keys)')
    res.assumptions += [
        'TLC evaluates the TLA+ operators correctly',
        'Python twins of the user functions (harness/userfns.py) equal their TLA+ definitions',
        'harness/build.py maps API terms to the API calls a user would write',
    ]
    return res.finish()


def replay(prop, path):
    with open(path) as f:
        rp = json.load(f)
    from .observe import observe
    if rp.get('sched_seed') is not None:      # iterations under the recorded schedules
        from .schedobs import observe_sched
        o, inf = observe_sched(rp['prog'], rp['sched_seed'])
        print('schedule:', inf)
    else:
        o = observe(rp['prog'], touch=rp.get('touch', False))
    v, _ = pipeline.validate([{'id': 1, 'prog': rp['prog'], 'obs': o}])
    print('program :', pipeline.short(rp['prog']))
    print('verdict :', v[1][prop], ' conformance:', v[1]['conf'])
    print('observed:', json.dumps(o)[:2000])
    return 1 if v[1][prop][0] == 'viol' else 0
