"""API term (specs/Pipeline.tla) -> real lazy_dataset object, by calling the
public API exactly as a user would."""
import numpy as np
import lazy_dataset
from . import userfns as U
from .values import payload

NONE = 99


class ScriptedRng:
    """Duck-typed rng whose shuffle() writes a TLC-chosen permutation."""

    def __init__(self, perm):
        self.perm = list(perm)

    def shuffle(self, arr):
        assert len(arr) == len(self.perm), (len(arr), self.perm)
        arr[:] = np.asarray(self.perm, dtype=arr.dtype) if len(self.perm) else arr[:0]


def _n(v):
    return None if v == NONE else v


def slice_arg(form):
    fk = form['fk']
    if fk == 'sl':
        return slice(_n(form['a']), _n(form['b']), _n(form['c']))
    if fk == 'il':
        idx, as_ = form['idx'], form['as']
        if as_ == 'list':
            return list(idx)
        if as_ == 'tuple':
            return tuple(idx)
        if as_ == 'np':
            return np.array(idx, dtype=np.int64)
        if as_ == '2d':
            return [list(idx)]
    if fk == 'bm':
        mask, as_ = form['mask'], form['as']
        if as_ == 'list':
            return [bool(m) for m in mask]
        return np.array(mask, dtype=bool)
    if fk == 'kl':
        return list(form['kl']) if form['as'] == 'list' else tuple(form['kl'])
    raise ValueError(form)


TOUCH = [False]     # touch mode: every intermediate dataset is observed before it is used


def _touch(ds):
    """Observations that must not change anything: keys(), len(), indexable."""
    for f in (lambda: ds.keys(), lambda: len(ds), lambda: ds.indexable):
        try:
            f()
        except Exception:
            pass
    return ds


def build(a):
    ds = _build(a)
    return _touch(ds) if TOUCH[0] else ds


def _build(a):
    op = a['op']
    if op == 'list':
        return lazy_dataset.new([payload(a['pl'], x) for x in a['src']],
                                immutable_warranty=a['iw'])
    if op == 'dict':
        return lazy_dataset.new(
            {k: payload(a['pl'], x) for k, x in zip(a['ks'], a['src'])},
            immutable_warranty=a['iw'])
    ds = build(a['in'])
    return build_on(a, ds)


def build_on(a, ds):
    """The operation of the API term `a` applied to the dataset `ds`."""
    op = a['op']
    if op == 'apply':
        ag = a['ag']
        return ds.apply(lambda d: build_on(ag, d), lazy=a['lazy'])
    if op in ('concat', 'intersperse', 'zip', 'keyzip'):
        other = build(a['in2'])
        if op == 'concat':
            return ds.concatenate(other)
        if op == 'intersperse':
            return ds.intersperse(other)
        if op == 'zip':
            return ds.zip(other)
        return ds.key_zip(other)
    if op == 'map':
        if a['f'] == 'bmap_inc':
            return ds.batch_map(U.inc)
        return ds.map(U.MAPFNS[a['f']])
    if op == 'pmap':
        return ds.map(U.MAPFNS[a['f']], num_workers=a['w'], buffer_size=a['bs'])
    if op == 'fmap':
        return ds.map(U.failing(a['p'], a['cls']))
    if op == 'filter':
        return ds.filter(U.pred(a['p']), lazy=a['lazy'])
    if op == 'slice':
        return ds[slice_arg(a['form'])]
    if op == 'batch':
        return ds.batch(a['b'], drop_last=a['drop'])
    if op == 'unbatch':
        return ds.unbatch()
    if op == 'items':
        return ds.items()
    if op == 'tile':
        return ds.tile(a['reps'])
    if op == 'cycle':
        return ds.cycle()
    if op == 'shuffle':
        return ds.shuffle(False, rng=ScriptedRng(a['perm']))
    if op == 'sort':
        kw = {} if a.get('sfn', 'std') == 'std' else {'sort_fn': U.sortfn(a['sfn'])}
        if a['key'] == 'none':
            return ds.sort(reverse=a['rev'], **kw)
        return ds.sort(U.keyfn(a['key']), reverse=a['rev'], **kw)
    if op == 'split':
        return ds.split(a['sk'])[a['si']]
    if op == 'shard':
        return ds.shard(a['sk'], a['si'])
    if op == 'cache':
        return ds.cache(lazy=a['lazy'])
    if op == 'catch':
        # (warn=True only logs; half of the catch forms use it)
        return ds.catch(U.CATCH[a['E']], warn=a['E'] in ('Exception', 'FilterOrValue', 'Lookup'))
    if op == 'copy':
        return ds.copy(freeze=a['freeze'])
    if op == 'prefetch':
        cfe = a['cfe']
        cfe = None if cfe == 'none' else (True if cfe == 'Filter' else U.CATCH[cfe])
        return ds.prefetch(a['w'], a['bs'], catch_filter_exception=cfe)
    if op == 'group':
        return ds.groupby(U.keyfn(a['g']))[U.group_key(a['g'], a['sel'])]
    raise ValueError(op)
