"""Matching of violations against /verif/known_findings.json.

Only findings with status 'open' suppress anything, and only the exact
failure their `match` describes; a fixed entry suppresses nothing."""
from . import common


def _ops(p, acc=None):
    acc = set() if acc is None else acc
    acc.add(p['op'])
    if 'ag' in p:                      # the function of apply() is an operation too
        _ops(p['ag'], acc)
    for k in ('in', 'in2'):
        if k in p:
            _ops(p[k], acc)
    return acc


def match_pipeline(prop, clause, prog, obs):
    """Return the open finding this pipeline violation is, or None."""
    for f in common.load_findings()['findings']:
        m = f.get('match')
        if f['status'] != 'open' or not m or m.get('family') != 'pipeline':
            continue
        if f['property'] != prop or m.get('clause') != clause:
            continue
        if 'has_op' in m and m['has_op'] not in _ops(prog):
            continue
        if 'keys_exc' in m and obs['keys']['exc'] != m['keys_exc']:
            continue
        if 'gi_exc' in m:
            # every in-range ds[i] that disagrees with iteration raises exactly
            # this exception (and at least one does)
            n = obs['len']['n']
            items = obs['it1']['items']
            by_i = {g['i']: g['r'] for g in obs['gi']}
            bad = [by_i[i] for i in range(min(n, len(items)))
                   if i in by_i and not (by_i[i]['ok'] and by_i[i]['v'] == items[i])]
            if not bad or any(r['ok'] or r['exc'] != m['gi_exc'] for r in bad):
                continue
        return f
    return None


def match_conc(prop, clause, rec):
    """Open finding matching a violation of the concurrency family, or None."""
    for f in common.load_findings()['findings']:
        m = f.get('match')
        if f['status'] != 'open' or not m or m.get('family') != 'conc':
            continue
        if f['property'] != prop or m.get('clause') != clause:
            continue
        if any(rec.get(k) != v for k, v in m.get('record', {}).items()):
            continue
        if 'has_op' in m and ('prog' not in rec or m['has_op'] not in _ops(rec['prog'])):
            continue
        return f
    return None


def match_demand(prop, clause, prog):
    """Open finding matching a violation of the demand family, or None."""
    def chain(p):
        out = []
        while p['op'] not in ('list', 'dict'):
            out.append(p)
            p = p['in']
        return out          # top first
    for f in common.load_findings()['findings']:
        m = f.get('match')
        if f['status'] != 'open' or not m or m.get('family') != 'demand':
            continue
        if f['property'] != prop or m.get('clause') != clause:
            continue
        if m.get('nested_batch_drop'):
            ops = chain(prog)
            batches = [i for i, o in enumerate(ops) if o['op'] == 'batch']
            # an outer batch above an inner batch with drop_last
            if not any(ops[j]['drop'] for i in batches for j in batches if j > i):
                continue
        return f
    return None


def match_cache(prop, clause, par, hist, obs, verdict):
    """Open finding matching a violation of the memory-cache family, or None.

    S21 (check-then-act race of CacheDataset.__getitem__) is matched only when
      * the failing clause is one the race can produce (two values handed out for
        one example / the example computed twice),
      * the history contains a pool step whose workers request every example
        twice (`has_step`, >= `min_workers` workers),
      * in such a step, while the cache was storing (lazy cache, no MemDrop yet),
        an example the step requests more than once was computed twice, and
      * the RELAXED TLA+ verdict (Cache.tla V_C10x(.., TRUE), field `s21` of the
        trace verdict) is "ok": judged up to the race on exactly those examples
        (both values of the racing step are ones computed in it, every later
        access returns one and the same of them, nothing is computed again) the
        property holds - every other example and every other clause as stated.
    Anything else stays a VIOLATION."""
    for f in common.load_findings()['findings']:
        m = f.get('match')
        if f['status'] != 'open' or not m or m.get('family') != 'cache':
            continue
        if f['property'] != prop or clause not in m.get('clauses', ()):
            continue
        if not par['lazy']:
            continue
        before, low, raced = obs['init'], False, False
        for s, o in zip(hist, obs['steps']):
            if s['op'] == 'drop' and par['keep'] == 'thr':
                low = True
            if s['op'] in m['has_step'] and s['w'] >= m['min_workers'] and not low \
                    and o['exc'] == 'none':
                # (every example is requested exactly twice by these steps)
                raced = raced or any(c - b >= 2 for c, b in zip(o['calls'], before))
            before = o['calls']
        if not raced:
            continue
        if list(verdict.get('s21', ())[:1]) != [m['relaxed_verdict']]:
            continue
        return f
    return None
