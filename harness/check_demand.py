"""Check C08: evaluation is demand-driven (specs Demand.tla / DemandTrace.tla)."""
import collections
import itertools
import json
import multiprocessing as mp
import random
import warnings

from . import common, findings, pipeline, tlc
from . import userfns as U
from .build import slice_arg
from .common import Result

CFG = '''CONSTANTS
  MaxLen = {n}
  Depth = {d}
  WithShuffle = {shuffle}
SPECIFICATION Spec
INVARIANT Emit
CHECK_DEADLOCK FALSE
'''
TIERS = {'quick': [(3, 2, None), (2, 3, 6000)], 'thorough': [(4, 2, None), (3, 3, None), (2, 4, 40000)]}


def atoms(x):
    if isinstance(x, bool):
        return []
    if isinstance(x, int):
        return [x]
    if isinstance(x, (list, tuple)):
        return [a for e in x for a in atoms(e)]
    return []


def build_logged(a, log):
    """API term of the Demand family -> real dataset; logging twins append
    {'s': stage, 'xs': atoms of the argument} to `log`."""
    import lazy_dataset
    op = a['op']
    if op == 'list':
        return lazy_dataset.new(list(a['src']))
    if op == 'dict':
        return lazy_dataset.new(dict(zip(a['ks'], a['src'])))
    ds = build_logged(a['in'], log)
    s = a['s']
    if op == 'lmap':
        def f(x, s=s):
            log.append({'s': s, 'xs': atoms(x)})
            return x
        return ds.map(f)
    if op in ('lfmap', 'lpmap'):
        from lazy_dataset.core import FilterException
        pr = U.pred(a['p'])

        def g(x, s=s):
            log.append({'s': s, 'xs': atoms(x)})
            if pr(x):
                raise FilterException(x)
            return x
        if op == 'lfmap':
            return ds.map(g)
        return ds.map(g, num_workers=a['w'], buffer_size=a['bs'])
    if op == 'rshuffle':
        import numpy as np
        return ds.shuffle(True, rng=np.random.RandomState(a['seed']))
    if op == 'lshuffle':
        import numpy as np
        return ds.shuffle(True, rng=np.random.RandomState(a['seed']), buffer_size=a['bs'])
    if op == 'lfilter':
        pr = U.pred(a['p'])

        def p(x, s=s):
            log.append({'s': s, 'xs': atoms(x)})
            return pr(x)
        return ds.filter(p, lazy=a['lazy'])
    if op == 'slice':
        return ds[slice_arg(a['form'])]
    if op == 'batch':
        return ds.batch(a['b'], drop_last=a['drop'])
    if op == 'unbatch':
        return ds.unbatch()
    if op == 'items':
        return ds.items()
    if op == 'copy':
        return ds.copy(freeze=a['freeze'])
    if op == 'cache':
        return ds.cache(lazy=a['lazy'])
    if op == 'catch':
        return ds.catch(U.CATCH[a['E']])
    if op == 'prefetch':
        return ds.prefetch(a['w'], a['bs'])
    if op == 'concat':
        return ds.concatenate(build_logged(a['in2'], log))
    raise ValueError(op)


def record_logs(rec):
    prog, n, idx = rec['prog'], rec['n'], rec['idx']
    with warnings.catch_warnings():
        warnings.simplefilter('ignore')
        log = []
        try:
            build_logged(prog, log)
        except BaseException as e:
            return {'build': list(log), 'iters': [], 'gets': [], 'getk': [], 'srck': [], 'exc': type(e).__name__}
        out = {'build': list(log), 'iters': [], 'gets': [], 'getk': [], 'srck': [], 'exc': 'none'}
        for k in range(0, n + 2):
            log = []
            ds = build_logged(prog, log)
            del log[:]
            exc = 'none'
            taken = []
            try:
                it = iter(ds)
                taken = list(itertools.islice(it, k))
                if hasattr(it, 'close'):
                    it.close()
            except BaseException as e:
                exc = type(e).__name__
            out['iters'].append({'k': k, 'got': len(taken), 'calls': list(log), 'exc': exc})
        if idx:
            for i in range(n):
                log = []
                ds = build_logged(prog, log)
                del log[:]
                try:
                    ds[i]
                    ok = True
                except BaseException:
                    ok = False
                out['gets'].append({'i': i, 'ok': ok, 'calls': list(log)})
            try:                       # ds[key] for every key keys() lists
                keys = list(build_logged(prog, []).keys())
            except BaseException:
                keys = []
            for i, key in enumerate(keys[:n]):
                if not isinstance(key, str):
                    continue
                log = []
                ds = build_logged(prog, log)
                del log[:]
                try:
                    ds[key]
                    ok = True
                except BaseException:
                    ok = False
                out['getk'].append({'i': i, 'key': key, 'ok': ok, 'calls': list(log)})
        # ds[key] for every key of a dict source (stages that are not indexable
        # by position may still hand a key down)
        src = prog
        while src['op'] not in ('list', 'dict'):
            src = src['in']
        if src['op'] == 'dict' and prog['op'] != 'dict':
            for i, key in enumerate(src['ks']):
                log = []
                ds = build_logged(prog, log)
                del log[:]
                try:
                    ds[key]
                    ok = True
                except BaseException:
                    ok = False
                out['srck'].append({'i': i, 'key': key, 'ok': ok, 'calls': list(log)})
    return out


def _job(chunk):
    return [record_logs(r) for r in chunk]


def short(p):
    if p['op'] in ('list', 'dict'):
        return pipeline.short(p)
    args = {k: v for k, v in p.items() if k not in ('op', 'in', 'in2', 's')}
    a = ', '.join(f'{k}={json.dumps(v, separators=(",", ":"))}' for k, v in sorted(args.items()))
    return f'{short(p["in"])}.{p["op"]}#{p["s"]}({a})'


def run(prop, tier):
    res = Result(prop, tier)
    rng = random.Random(common.seed())
    try:
        progs = {}
        info = []
        for n, d, budget in TIERS[tier]:
            wd = tlc.prepare()
            r = tlc.run('Demand.tla', 'MC.cfg', workdir=wd, cfg_text=CFG.format(n=n, d=d, shuffle='FALSE'), timeout=1800)
            if r['rc'] != 0 or r['errors']:
                raise tlc.TlcError('Demand.tla: ' + '\n'.join(r['errors'][:20]))
            res.add_tlc(r['stats'])
            found = sorted((tlc.json_payload(l, 'VEC') for l in r['tagged'].get('VEC', [])),
                           key=lambda v: json.dumps(v['prog'], sort_keys=True))
            if budget is not None and len(found) > budget:
                found = rng.sample(found, budget)
            for v in found:
                progs.setdefault(json.dumps(v['prog'], sort_keys=True), v)
            info.append({'MaxLen': n, 'Depth': d, 'programs': len(found), 'tlc': r['stats']})
        for f in common.load_findings()['findings']:     # canonical inputs of open findings
            if f['status'] == 'open' and f['property'] == prop and 'canonical' in f \
                    and f.get('match', {}).get('family') == 'demand':
                c = f['canonical']
                progs.setdefault(json.dumps(c['prog'], sort_keys=True),
                                 {'prog': c['prog'], 'n': c['n'], 'idx': c['idx']})
        recs = list(progs.values())
        chunks = [recs[i:i + 50] for i in range(0, len(recs), 50)]
        with mp.get_context('fork').Pool(common.NCPU) as pool:
            logs = [x for c in pool.map_async(_job, chunks).get(1800) for x in c]
        records = [{'id': i + 1, 'prog': r_['prog'], 'logs': lg} for i, (r_, lg) in enumerate(zip(recs, logs))]
        verdicts, st = pipeline.validate_records(records, module='DemandTrace.tla',
                                                 cfg='DemandTrace.cfg', chunk=1500)
        res.add_tlc(st)
    except tlc.TlcError as e:
        res.machinery_errors.append(str(e))
        return res.finish()
    by = collections.Counter()
    nontrivial = 0
    known = {}
    samples = []
    for rec in records:
        status, clause = verdicts[rec['id']]['C08']
        by[f'{status}:{clause}'] += 1
        if status == 'ok':
            nontrivial += 1
            if len(samples) < 3 and nontrivial % 700 == 1:
                samples.append({'program': short(rec['prog']),
                                'calls_for_first_2_results': rec['logs']['iters'][min(2, len(rec['logs']['iters']) - 1)]})
        kf = findings.match_demand(prop, clause, rec['prog']) if status == 'viol' else None
        if kf is not None:
            known[kf['id']] = known.get(kf['id'], 0) + 1
            if known[kf['id']] == 1:
                res.known_finding(kf['id'], kf['what'] + ' e.g. ' + short(rec['prog']))
        elif status == 'viol':
            res.violation(f'{clause}: {short(rec["prog"])}',
                          {'family': 'demand', 'prog': rec['prog'], 'logs': rec['logs'],
                           'verdict': [status, clause]})
            if len(res.violations) >= 25:
                break
    res.coverage.update({
        'traces_validated_against_impl': len(records), 'evaluations': len(records),
        'distinct_nontrivial': nontrivial, 'verdicts': dict(by), 'configs': info,
        'known_finding_hits': known, 'samples': samples or [{'note': 'none'}],
        'rule': 'one case = one chain program TLC enumerated, executed with logging user functions: '
                'construction, a fresh iterator for every prefix length k in 0..len+1, ds[i] for every i; '
                'non-trivial = non-empty dataset with verdict ok'})
    res.assumptions += ['TLC evaluates the TLA+ operators correctly',
                        'the logging twins log exactly their arguments']
    return res.finish()


def replay(prop, path):
    rp = json.load(open(path))
    rec = {'prog': rp['prog'], 'n': len(rp['logs']['iters']) - 2, 'idx': bool(rp['logs']['gets'])}
    lg = record_logs(rec)
    v, _ = pipeline.validate_records([{'id': 1, 'prog': rp['prog'], 'logs': lg}],
                                     module='DemandTrace.tla', cfg='DemandTrace.cfg')
    print(short(rp['prog']), v[1]['C08'])
    return 1 if v[1]['C08'][0] == 'viol' else 0
