"""Check C11 "Disk cache is reused exactly and cleared exactly when asked",
decided with specs DiskCache.tla / DiskCacheTrace.tla.

  spec -> code : TLC enumerates every lifecycle (Open / Access / Copy / Release /
                 KillWriter / Reopen) of DiskCache.tla inside small constants
                 (BFS); each one is replayed on the real library with a REAL,
                 private directory.  KillWriter is a forked child process that
                 owns the datasets, is stepped through a pipe handshake and is
                 SIGKILLed exactly between two stores.
  code -> spec : every real observation - TLC's lifecycles, a kill matrix
                 (writer killed right after its j-th store, every j), seeded
                 random longer lifecycles and (thorough) writers killed at
                 random instants - goes back to TLC (DiskCacheTrace.tla), which
                 evaluates V_C11 on the REAL observation and the conformance
                 with the model.

Only the TLC verdict on a real observation makes a VIOLATION.  Kills at random
instants are sampling BELOW the atomicity of the specification (one store =
one step): the observation must be explained by the writer having died just
before or just after its in-flight store; a corrupt / misplaced value or a lost
ACKNOWLEDGED entry is a violation, a merely missing in-flight entry is not.
"""
import gc
import json
import multiprocessing as mp
import os
import random
import select
import shutil
import signal
import tempfile
import time
import warnings
from concurrent.futures import ThreadPoolExecutor

from . import common, tlc
from .common import Result
from .pipeline import validate_records

MODULE = 'DiskCache.tla'
TRACE = 'DiskCacheTrace.tla'
TRACE_CFG = 'DiskCacheTrace.cfg'
KF_NEG = 'S6'              # ds[-1] / ds[len-1] cached under different keys
KF_NPKEY = 'C11-NPKEY'     # ds[np.int64(i)] / ds[i] cached under different keys
GIB = 1024 ** 3


# ---------------------------------------------------------------------------
# configurations

def cfg(n, depth, maxopen, forms, inits, maxopens=3, copies=1, kills=1,
        inv='EmitLifecycle'):
    init_set = '{' + ', '.join(f'"{i}"' for i in inits) + '}'
    return f'''CONSTANTS
  N = {n}
  Depth = {depth}
  MaxOpen = {maxopen}
  MaxOpens = {maxopens}
  MaxCopies = {copies}
  MaxKills = {kills}
  Forms <- {forms}
  Inits = {init_set}
SPECIFICATION Spec
INVARIANT TypeOK
INVARIANT {inv}
CHECK_DEADLOCK FALSE
'''


TIERS = {
    'quick': {
        'bfs': [
            ('core-n2-d5', dict(n=2, depth=5, maxopen=1, forms='FormsSmall', inits=('absent',))),
            ('inits-n2-d4', dict(n=2, depth=4, maxopen=1, forms='FormsSmall',
                                 inits=('empty', 'foreign'))),
            ('overlap-n2-d5', dict(n=2, depth=5, maxopen=2, forms='FormsPos',
                                   inits=('absent',), copies=0)),
        ],
        'design': ['core-n2-d5'],
        'replay_seconds': 35,
        'killmatrix': {'ns': (3,), 'reverse': False, 'double': False},
        'random': 400,
        'randkills': 0,
    },
    'thorough': {
        'bfs': [
            ('core-n3-d7', dict(n=3, depth=7, maxopen=1, forms='FormsPos', inits=('absent',))),
            ('forms-n3-d5', dict(n=3, depth=5, maxopen=1, forms='FormsSmall', inits=('absent',))),
            ('allforms-n2-d5', dict(n=2, depth=5, maxopen=1, forms='FormsEdge',
                                    inits=('absent',))),
            ('inits-n2-d5', dict(n=2, depth=5, maxopen=1, forms='FormsSmall',
                                 inits=('empty', 'foreign'))),
            ('overlap-n2-d6', dict(n=2, depth=6, maxopen=2, forms='FormsPos',
                                   inits=('absent',), copies=0)),
        ],
        'design': ['core-n3-d7', 'forms-n3-d5', 'overlap-n2-d6'],
        'replay_seconds': 420,
        'killmatrix': {'ns': (3, 5), 'reverse': True, 'double': True},
        'random': 6000,
        'randkills': 600,
    },
}


# ---------------------------------------------------------------------------
# scratch, disk space

def _scratch():
    """common.scratch(); when it does not exist yet it is created on tmpfs
    (/dev/shm): SQLite fsyncs make one lifecycle ~15x slower on the disk, and
    an fsync is irrelevant for what C11 talks about (death of a PROCESS, not of
    the machine).  VERIF_C11_TMPFS=0 keeps the default location."""
    if (getattr(common, '_scratch', None) is None
            and os.environ.get('VERIF_C11_TMPFS', '1') != '0'
            and os.path.isdir('/dev/shm') and os.access('/dev/shm', os.W_OK)):
        try:
            ok = shutil.disk_usage('/dev/shm').free > 6 * GIB
        except OSError:
            ok = False
        if ok:
            old = tempfile.tempdir
            tempfile.tempdir = '/dev/shm'
            try:
                return common.scratch()
            finally:
                tempfile.tempdir = old
    return common.scratch()


_real_disk_usage = shutil.disk_usage


def _patch_disk_usage(root, info):
    """DiskCacheDataset.check() warns below 5 GiB free and raises below 1 GiB.
    Only when the scratch file system is that full the free space is pinned
    (the real call is still made, so a removed directory still raises)."""
    free = _real_disk_usage(root).free
    info['scratch_free_gib'] = round(free / GIB, 1)
    info['disk_usage_patched'] = False
    if free < 6 * GIB:
        def fake(path):
            u = _real_disk_usage(path)
            return type(u)(u.total, u.used, max(u.free, 16 * GIB))
        shutil.disk_usage = fake
        info['disk_usage_patched'] = True


# ---------------------------------------------------------------------------
# executing one lifecycle on the real library

class _BadHandle(Exception):
    pass


class Runner:
    """The datasets of ONE process on the cache directory `path`."""

    def __init__(self, path, n, calls, base=0, iter_mode=False):
        import lazy_dataset
        self.path = path
        self.calls = calls
        self.base = base       # handle ids consumed by earlier (dead) processes
        self.h = []
        # iter_mode: an access to index i that continues a run 0, 1, 2, ... on
        # the same handle is performed with next() on ONE open iterator over the
        # dataset (CacheDataset.__iter__ is `for i in range(len): yield self[i]`,
        # so the meaning is the same); any other access closes the iterator
        # first (= the consumer breaks out of its loop).  This exercises
        # "populate by iterating", "break", and a kill while an iteration is open.
        self.iter_mode = iter_mode
        self.its = {}          # handle -> [iterator, next index]

        def fn(x):
            calls[x] += 1
            return (x, calls[x])
        # dict-backed (keys k0, k1, ...): an index form i >= 100 is ds['k<i-100>']
        self.up = lazy_dataset.new({f'k{j}': j for j in range(n)}).map(fn)

    def _get(self, h):
        k = h - self.base
        if not (1 <= k <= len(self.h)) or self.h[k - 1] is None:
            raise _BadHandle()
        return self.h[k - 1]

    def step(self, a):
        out = {'ok': True, 'e': -1, 'c': 0, 'exc': 'none'}
        kind = a['a']
        try:
            if kind == 'open':
                self.h.append(None)
                self.h[-1] = self.up.diskcache(self.path, reuse=a['reuse'], clear=a['clear'])
            elif kind == 'access':
                import numpy as np
                if a['i'] >= 100:
                    idx = f"k{a['i'] - 100}"
                else:
                    idx = np.int64(a['i']) if a['np'] else int(a['i'])
                ds = self._get(a['h'])
                v = None
                if self.iter_mode and not a['np'] and a['i'] < 100 and idx >= 0:
                    cur = self.its.get(a['h'])
                    if cur is None and idx == 0:
                        cur = self.its[a['h']] = [iter(ds), 0]
                    if cur is not None and cur[1] == idx:
                        try:
                            v = next(cur[0])
                            cur[1] += 1
                        except StopIteration:
                            self.its.pop(a['h'], None)
                            v = None
                    elif cur is not None:
                        self.its.pop(a['h'])
                        cur[0].close()          # the consumer breaks out of the loop
                if v is None:
                    v = ds[idx]
                if (isinstance(v, tuple) and len(v) == 2
                        and all(type(t) is int for t in v)):
                    out['e'], out['c'] = v
                else:                           # not a value the upstream makes
                    out['e'], out['c'] = -99, -99
            elif kind == 'copy':
                self.h.append(None)
                self.h[-1] = self._get(a['h']).copy(freeze=True)
            elif kind == 'release':
                self._get(a['h'])
                cur = self.its.pop(a['h'], None)
                if cur is not None:
                    cur[0].close()
                    del cur
                self.h[a['h'] - self.base - 1] = None       # the only reference
                gc.collect()
            else:
                raise ValueError(kind)
        except _BadHandle:
            out = {'ok': False, 'e': -1, 'c': 0, 'exc': 'BadHandle'}
        except Exception as e:                  # noqa: the class is the observation
            out = {'ok': False, 'e': -1, 'c': 0, 'exc': type(e).__name__}
        return out

    def close(self):
        for cur in self.its.values():
            cur[0].close()
        self.its = {}
        for i in range(len(self.h)):
            self.h[i] = None
        self.up = None
        gc.collect()


def _look(path, out, calls):
    ex = os.path.isdir(path)
    ne = False
    if ex:
        with os.scandir(path) as it:
            ne = any(True for _ in it)
    out['calls'] = list(calls)
    out['ex'] = ex
    out['ne'] = ne
    return out


def _read_line(fd, buf, timeout):
    while b'\n' not in buf[0]:
        r, _, _ = select.select([fd], [], [], timeout)
        if not r:
            raise RuntimeError('writer child does not answer')
        chunk = os.read(fd, 65536)
        if not chunk:
            raise RuntimeError('writer child died unexpectedly')
        buf[0] += chunk
    line, buf[0] = buf[0].split(b'\n', 1)
    return json.loads(line)


def _iter_mode(hist):
    """Deterministic choice (from the lifecycle itself) of how accesses are performed."""
    import zlib
    return zlib.crc32(json.dumps(hist, sort_keys=True).encode()) % 2 == 0


def _writer_child(path, n, calls, steps, handshake, r_go, w_res, base=0, iter_mode=False):
    """Body of the forked writer process (never returns)."""
    try:
        runner = Runner(path, n, calls, base, iter_mode)
        for a in steps:
            if handshake and os.read(r_go, 1) != b'g':
                os._exit(3)
            out = runner.step(a)
            out['calls'] = list(calls)
            os.write(w_res, (json.dumps(out) + '\n').encode())
        while os.read(r_go, 1):                 # wait to be killed
            pass
        os._exit(3)
    except BaseException:
        os._exit(4)


def _killed_segment(path, n, calls, steps, base, iter_mode=False):
    """Run `steps` in a child process that owns the datasets; the child writes
    its result after each step and blocks until the parent lets it go on; after
    the last step it is SIGKILLed (= right after its last store, no __del__).
    Returns the observations of the steps and of the kill."""
    r_go, w_go = os.pipe()
    r_res, w_res = os.pipe()
    pid = os.fork()
    if pid == 0:
        os.close(w_go)
        os.close(r_res)
        _writer_child(path, n, calls, steps, True, r_go, w_res, base, iter_mode)
    os.close(r_go)
    os.close(w_res)
    obs = []
    buf = [b'']
    try:
        for _ in steps:
            os.write(w_go, b'g')
            out = _read_line(r_res, buf, 60)
            calls[:] = out.pop('calls')
            obs.append(_look(path, out, calls))
        os.kill(pid, signal.SIGKILL)
    finally:
        try:
            os.kill(pid, signal.SIGKILL)
        except ProcessLookupError:
            pass
        os.waitpid(pid, 0)
        os.close(w_go)
        os.close(r_res)
    obs.append(_look(path, {'ok': True, 'e': -1, 'c': 0, 'exc': 'none'}, calls))
    return obs


def _prepare_dir(path, init):
    shutil.rmtree(path, ignore_errors=True)
    if init in ('empty', 'foreign'):
        os.mkdir(path)
    if init == 'foreign':
        with open(os.path.join(path, 'README.txt'), 'w') as f:
            f.write('not a cache\n')


def execute(n, init, hist, path, calls=None, prepare=True, base=0):
    """Replay one lifecycle on the real library; one observation per step."""
    if prepare:
        _prepare_dir(path, init)
    calls = [0] * n if calls is None else calls
    obs = []
    seg = []
    segments = []
    for a in hist:
        if a['a'] == 'kill':
            segments.append((seg, True))
            seg = []
        else:
            seg.append(a)
    if seg:
        segments.append((seg, False))
    im = _iter_mode(hist)
    for steps, killed in segments:
        if killed:
            obs += _killed_segment(path, n, calls, steps, base, im)
        else:
            runner = Runner(path, n, calls, base, im)
            try:
                for a in steps:
                    obs.append(_look(path, runner.step(a), calls))
            finally:
                runner.close()
        base += sum(1 for a in steps if a['a'] in ('open', 'copy'))
    return obs


# --- writer killed at a random instant --------------------------------------

def _act(a, h=0, i=0, np_=False, reuse=False, clear=False):
    return {'a': a, 'h': h, 'i': i, 'np': np_, 'reuse': reuse, 'clear': clear}


def random_kill(path, n, clear, delay, phase='store'):
    """A free-running writer (open, then store examples 0..n-1) is SIGKILLed
    `delay` seconds after its start (phase 'open') or after it acknowledged
    its Open (phase 'store'); then a new dataset is opened with reuse=True,
    reads every example and is released (clear=True).  Returns what was
    acknowledged by the writer, the state of the directory and the reader's
    observation.  delay=None: calibration - returns how long the writer needs
    for its Open and for all its stores."""
    _prepare_dir(path, 'absent')
    calls = [0] * n
    steps = [_act('open', reuse=False, clear=clear)] + [_act('access', h=1, i=i) for i in range(n)]
    r_go, w_go = os.pipe()
    r_res, w_res = os.pipe()
    pid = os.fork()
    if pid == 0:
        os.close(w_go)
        os.close(r_res)
        _writer_child(path, n, calls, steps, False, r_go, w_res)
    os.close(r_go)
    os.close(w_res)
    t0 = time.time()
    span = None
    buf = [b'']
    try:
        if delay is None:
            _read_line(r_res, buf, 60)
            t1 = time.time()
            for _ in steps[1:]:
                _read_line(r_res, buf, 60)
            span = (t1 - t0, time.time() - t1)
        else:
            if phase == 'store':
                buf[0] = os.read(r_res, 65536)          # blocks until Open is acknowledged
            time.sleep(delay)
        os.kill(pid, signal.SIGKILL)
    finally:
        try:
            os.kill(pid, signal.SIGKILL)
        except ProcessLookupError:
            pass
        os.waitpid(pid, 0)
        os.close(w_go)
    if delay is None:
        os.close(r_res)
        shutil.rmtree(path, ignore_errors=True)
        return {'span': span}
    data = buf[0]
    while True:
        chunk = os.read(r_res, 65536)
        if not chunk:
            break
        data += chunk
    os.close(r_res)
    acks = [json.loads(x) for x in data.split(b'\n') if x.strip()]
    if acks:
        calls[:] = acks[-1]['calls']
    after = _look(path, {'ok': True, 'e': -1, 'c': 0, 'exc': 'none'}, calls)
    hnew = 2 if acks else 1                     # handle id of the reader
    follow = ([_act('open', reuse=True, clear=True)]
              + [_act('access', h=hnew, i=i) for i in range(n)]
              + [_act('release', h=hnew)])
    fobs = execute(n, 'absent', follow, path, calls=calls, prepare=False, base=hnew - 1)
    return {'acks': acks, 'after': after, 'follow': follow, 'fobs': fobs, 'steps': steps}


def randkill_candidates(n, job, out):
    """The atomic histories that may explain a kill at a random instant:
    A = the writer died before its in-flight step took effect, B = just after
    the in-flight store (which was not acknowledged any more)."""
    acks, after, follow, fobs = out['acks'], out['after'], out['follow'], out['fobs']
    if not acks:
        # died inside Open: whatever it left is the initial state of the reader
        init = 'absent' if not after['ex'] else ('db' if after['ne'] else 'empty')
        return [{'n': n, 'init': init, 'hist': follow, 'obs': fobs}]
    b = len(acks)
    done = out['steps'][:b]
    dobs = [dict(o, ex=True, ne=True) for o in acks]      # not looked at while running
    cands = [{'n': n, 'init': 'absent', 'hist': done + [_act('kill')] + follow,
              'obs': dobs + [after] + fobs}]
    if b < len(out['steps']):
        j = out['steps'][b]['i']
        bump = lambda o: dict(o, calls=[c + (1 if k == j else 0)       # noqa: E731
                                        for k, c in enumerate(o['calls'])])
        inflight = bump(dict(acks[-1], ok=True, e=j, c=acks[-1]['calls'][j] + 1,
                             exc='none', ex=True, ne=True))
        cands.append({'n': n, 'init': 'absent',
                      'hist': done + [out['steps'][b], _act('kill')] + follow,
                      'obs': dobs + [inflight, bump(after)] + [bump(o) for o in fobs]})
    return cands


# --- pool -------------------------------------------------------------------

_W = {}


def _init_worker(root):
    warnings.simplefilter('ignore')
    d = os.path.join(root, 'w%d' % os.getpid())
    os.makedirs(d, exist_ok=True)
    _W['dir'] = d
    import diskcache  # noqa: F401
    import lazy_dataset  # noqa: F401
    import numpy  # noqa: F401
    gc.collect()
    gc.freeze()            # keeps the gc.collect() of every Release cheap


def _alarm(signum, frame):
    raise TimeoutError('lifecycle hangs')


def _exec_chunk(chunk):
    out = []
    path = os.path.join(_W['dir'], 'cache')      # private to this worker
    signal.signal(signal.SIGALRM, _alarm)
    for job in chunk:
        signal.alarm(120)
        try:
            if job['kind'] == 'life':
                out.append({'obs': execute(job['n'], job['init'], job['hist'], path)})
            else:
                out.append(random_kill(path, job['n'], job['clear'], job['delay'], job['phase']))
        except BaseException as e:
            out.append({'error': f'{type(e).__name__}: {e}'})
        finally:
            signal.alarm(0)
            shutil.rmtree(path, ignore_errors=True)
    return out


def make_pool(root, tmpfs):
    """The pool is forked while this process is still small and has no threads:
    every KillWriter forks once more from a pool worker, which is cheap only as
    long as the worker's heap is small."""
    nproc = common.NCPU if tmpfs else 3 * common.NCPU     # the disk is fsync-bound
    return mp.get_context('fork').Pool(nproc, _init_worker, (root,))


def run_jobs(pool, jobs, seconds, chunk=40):
    """Execute jobs in the process pool; stops taking new chunks when the time
    budget is used up (jobs are in seeded random order, so the executed prefix
    is a uniform sample).  Returns the list of results (prefix of jobs)."""
    if not jobs:
        return []
    strip = lambda j: {k: v for k, v in j.items() if k != 'mv'}       # noqa: E731
    chunks = ([strip(j) for j in jobs[i:i + chunk]] for i in range(0, len(jobs), chunk))
    t0 = time.time()
    out = []
    it = pool.imap(_exec_chunk, chunks)
    while len(out) < len(jobs):
        out += it.next(timeout=900)
        if time.time() - t0 > seconds:
            break
    return out


# ---------------------------------------------------------------------------
# behaviours

def enumerate_lifecycles(name, params, unfixed):
    d = tlc.prepare(unfixed, tag='-' + name)
    r = tlc.run(MODULE, 'MC.cfg', workdir=d, cfg_text=cfg(**params), timeout=3000,
                workers=max(2, common.NCPU // 3))
    if r['rc'] != 0 or r['errors']:
        raise tlc.TlcError('%s %s: rc=%s\n%s' % (MODULE, name, r['rc'], '\n'.join(r['errors'][:30])))
    recs = []
    for line in r['tagged'].get('VEC', []):
        x = tlc.json_payload(line, 'VEC')
        recs.append({'n': x['n'], 'init': x['init'], 'hist': x['hist'], 'mv': x['mv']})
    shutil.rmtree(d, ignore_errors=True)
    return recs, r['stats']


def design_check(name, params, unfixed):
    """(A) the property on the model itself, defects of this family repaired."""
    d = tlc.prepare(unfixed, tag='-design-' + name)
    r = tlc.run(MODULE, 'MC.cfg', workdir=d, cfg_text=cfg(inv='DesignHolds', **params),
                timeout=3000, workers=max(2, common.NCPU // 3))
    shutil.rmtree(d, ignore_errors=True)
    return r


def kill_matrix(ns, reverse, double):
    """Writer (clear in {F,T}) killed right after its j-th store for every j;
    then a refused fresh open, a reader with reuse=True reading everything,
    its release, and (if that did not clear) a second reader that clears."""
    out = []
    for n in ns:
        orders = [list(range(n))] + ([list(range(n - 1, -1, -1))] if reverse else [])
        for clear in (False, True):
            for order in orders:
                for j in range(n + 1):
                    for c2 in (False, True):
                        h = [_act('open', reuse=False, clear=clear)]
                        h += [_act('access', h=1, i=i) for i in order[:j]]
                        h += [_act('kill'), _act('open', reuse=False, clear=True),
                              _act('open', reuse=True, clear=c2)]
                        h += [_act('access', h=3, i=i) for i in range(n)]
                        h += [_act('release', h=3)]
                        if not c2:
                            h += [_act('open', reuse=True, clear=True)]
                            h += [_act('access', h=4, i=i) for i in range(n)]
                            h += [_act('release', h=4)]
                        out.append({'n': n, 'init': 'absent', 'hist': h})
                    if double:
                        for j2 in range(n - j + 1):
                            rest = [i for i in range(n) if i not in order[:j]]
                            h = [_act('open', reuse=False, clear=clear)]
                            h += [_act('access', h=1, i=i) for i in order[:j]]
                            h += [_act('kill'), _act('open', reuse=True, clear=not clear)]
                            h += [_act('access', h=2, i=i) for i in rest[:j2]]
                            h += [_act('copy', h=2), _act('kill'),
                                  _act('open', reuse=True, clear=True)]
                            h += [_act('access', h=4, i=i) for i in range(n)]
                            h += [_act('release', h=4)]
                            out.append({'n': n, 'init': 'absent', 'hist': h})
    return out


def random_lifecycle(rng):
    """A seeded random longer lifecycle (code -> spec only).  A rough twin of
    the handle bookkeeping keeps most actions meaningful; an action on a dead
    handle is a no-op ('BadHandle') for the executor and for the model."""
    n = rng.choice((2, 3, 4, 5))
    length = rng.randint(8, 18)
    plain = rng.random() < 0.6
    init = rng.choice(('absent', 'absent', 'absent', 'empty', 'foreign'))
    overlap = rng.random() < 0.25
    nonempty = init == 'foreign'
    handles = []            # [wrapper, live]
    wrc = {}
    wclear = {}
    kills = 0
    hist = []
    for _ in range(length):
        live = [k + 1 for k, (w, l) in enumerate(handles) if l]
        nopen = sum(1 for v in wrc.values() if v > 0)
        opts = []
        if (nopen == 0 or (overlap and nopen < 2)) and len(handles) < 9:
            opts += ['open'] * (6 if nopen == 0 else 1)
        if live:
            opts += ['access'] * 6 + ['release'] * 2
            if len(handles) < 9:
                opts += ['copy']
            if kills < 2 and rng.random() < 0.5:
                opts += ['kill']
        if handles and rng.random() < 0.05:
            opts += ['stale']
        if not opts:
            break
        kind = rng.choice(opts)
        if kind == 'open':
            reuse = rng.random() < 0.6
            clear = rng.random() < 0.5
            hist.append(_act('open', reuse=reuse, clear=clear))
            if nonempty and not reuse:
                handles.append([0, False])
            else:
                w = len(wrc) + 1
                wrc[w] = 1
                wclear[w] = clear
                handles.append([w, True])
                nonempty = True
        elif kind == 'access':
            if plain:
                i, p = rng.randrange(n), False
            else:
                i = rng.randint(-n - 1, n) if rng.random() < 0.1 else rng.randint(-n, n - 1)
                p = rng.random() < 0.25
                if rng.random() < 0.2:          # by key
                    i, p = 100 + rng.randrange(n), False
            hist.append(_act('access', h=rng.choice(live), i=i, np_=p))
        elif kind == 'copy':
            h = rng.choice(live)
            hist.append(_act('copy', h=h))
            handles.append([handles[h - 1][0], True])
            wrc[handles[h - 1][0]] += 1
        elif kind == 'release':
            h = rng.choice(live)
            hist.append(_act('release', h=h))
            handles[h - 1][1] = False
            w = handles[h - 1][0]
            wrc[w] -= 1
            if wrc[w] == 0 and wclear[w]:
                nonempty = False
        elif kind == 'kill':
            kills += 1
            hist.append(_act('kill'))
            for x in handles:
                x[1] = False
            for w in wrc:
                wrc[w] = 0
        else:
            h = rng.randint(1, len(handles))
            hist.append(_act(rng.choice(('access', 'release', 'copy')), h=h))
            if hist[-1]['a'] == 'copy':
                handles.append([0, False])
    return {'n': n, 'init': init, 'hist': hist}


def short(hist):
    out = []
    for a in hist:
        k = a['a']
        if k == 'open':
            out.append(f"open(reuse={'T' if a['reuse'] else 'F'},clear={'T' if a['clear'] else 'F'})")
        elif k == 'access':
            out.append(f"ds{a['h']}[{'np.int64(%d)' % a['i'] if a['np'] else (repr('k%d' % (a['i'] - 100)) if a['i'] >= 100 else a['i'])}]")
        elif k == 'kill':
            out.append('KILL')
        else:
            out.append(f"{k}({a['h']})")
    return '; '.join(out)


def short_obs(obs):
    out = []
    for o in obs:
        r = f"({o['e']},{o['c']})" if o['ok'] and o['e'] != -1 else ('ok' if o['ok'] else o['exc'])
        out.append(r + ('' if o['ex'] else ' [dir absent]'))
    return ' | '.join(out)


# ---------------------------------------------------------------------------
# findings

def _unfixed():
    """Defect ids modelled with their original behaviour: the open findings;
    an open finding whose match names the mechanism np-int-key switches the
    model of that defect on, whatever its id is."""
    ids = list(common.unfixed_ids())
    # VERIF_UNFIXED_EXTRA=C11-NPKEY: model a not yet recorded defect as original
    ids += [x for x in os.environ.get('VERIF_UNFIXED_EXTRA', '').split(',') if x and x not in ids]
    for f in common.load_findings()['findings']:
        m = f.get('match') or {}
        if (f['status'] == 'open' and m.get('family') == 'diskcache'
                and m.get('mechanism') == 'np-int-key' and KF_NPKEY not in ids):
            ids.append(KF_NPKEY)
    return ids


def match_finding(mech):
    """The open finding a violation with this mechanism is, or None."""
    if mech == 'none':
        return None
    for f in common.load_findings()['findings']:
        if f['status'] != 'open':
            continue
        m = f.get('match') or {}
        if mech == 'neg-index' and f['id'] == KF_NEG:
            return f
        if m.get('family') == 'diskcache' and m.get('mechanism') == mech:
            return f
    return None


# ---------------------------------------------------------------------------

def run(prop, tier):
    res = Result(prop, tier)
    plan = TIERS[tier]
    rng = random.Random(common.seed())
    sc = _scratch()
    os.makedirs(sc, exist_ok=True)
    before = set(os.listdir(sc))
    info = {'scratch_on_tmpfs': sc.startswith('/dev/shm')}
    root = tempfile.mkdtemp(prefix='c11-', dir=sc)
    jopts = os.environ.get('JAVA_TOOL_OPTIONS')
    pool = None
    try:
        # the folds over a long history (writer of 30 stores + reader) recurse deeply in TLC
        os.environ['JAVA_TOOL_OPTIONS'] = ((jopts or '') + ' -Xss64m').strip()
        _patch_disk_usage(root, info)
        warnings.simplefilter('ignore')
        pool = make_pool(root, info['scratch_on_tmpfs'])
        return _run(prop, tier, res, plan, rng, root, info, pool)
    except tlc.TlcError as e:
        res.machinery_errors.append(str(e))
        return res.finish()
    finally:
        if pool is not None:
            pool.terminate()
            pool.join()
        shutil.disk_usage = _real_disk_usage
        if jopts is None:
            os.environ.pop('JAVA_TOOL_OPTIONS', None)
        else:
            os.environ['JAVA_TOOL_OPTIONS'] = jopts
        for fn in set(os.listdir(sc)) - before:     # main.py leaves through os._exit
            shutil.rmtree(os.path.join(sc, fn), ignore_errors=True)
        if info['scratch_on_tmpfs']:
            try:
                os.rmdir(sc)        # only if empty; common.scratch() users re-create it
            except OSError:
                pass


def _run(prop, tier, res, plan, rng, root, info, pool):
    unfixed = _unfixed()
    repaired = [u for u in unfixed if u not in (KF_NEG, KF_NPKEY)]
    t0 = time.time()

    # ---- (A) + emission: TLC BFS over the lifecycles -----------------------
    configs = []
    chosen = {}
    with ThreadPoolExecutor(3) as ex:
        futs = [(name, p, ex.submit(enumerate_lifecycles, name, p, unfixed))
                for name, p in plan['bfs']]
        dfuts = [(name, ex.submit(design_check, name, dict(plan['bfs'])[name], repaired))
                 for name in plan['design']]
        for name, p, f in futs:
            recs, st = f.result()
            res.add_tlc(st)
            flagged = {}
            for r in recs:
                if r['mv']['st'] == 'viol':
                    k = '+'.join(r['mv']['also']) + ' [' + r['mv']['mech'] + ']'
                    flagged[k] = flagged.get(k, 0) + 1
                chosen.setdefault(json.dumps([r['n'], r['init'], r['hist']]), r)
            configs.append({'config': name, 'constants': {k: (list(v) if isinstance(v, tuple) else v)
                                                          for k, v in p.items()},
                            'lifecycles': len(recs), 'model_refutes': flagged, 'tlc': st})
        design = []
        for name, f in dfuts:
            r = f.result()
            res.add_tlc(r['stats'])
            holds = r['rc'] == 0 and not r['errors']
            design.append({'config': name, 'unfixed': repaired, 'DesignHolds': holds,
                           'states': r['stats']['distinct']})
            if not holds:
                res.machinery_errors.append(
                    f'design level: V_C11 is refuted on the REPAIRED model ({name}): '
                    + ' '.join(r['errors'][:6]))
    info['t_bfs'] = round(time.time() - t0, 1)

    jobs = [dict(r, kind='life', src='bfs') for r in chosen.values()]
    rng.shuffle(jobs)
    # the kill matrix and the random lifecycles are always executed: in front
    km = [dict(x, kind='life', src='killmatrix', mv=None) for x in kill_matrix(**plan['killmatrix'])]
    rl = [dict(random_lifecycle(rng), kind='life', src='random', mv=None)
          for _ in range(plan['random'])]
    rk = []
    if plan['randkills']:
        nrk = 30
        warnings.simplefilter('ignore')
        import diskcache  # noqa: F401  (so that the forked writer does not pay the imports)
        import lazy_dataset  # noqa: F401
        import numpy  # noqa: F401
        random_kill(os.path.join(root, 'calib'), nrk, False, None)          # warm up
        cal = [random_kill(os.path.join(root, 'calib'), nrk, False, None)['span'] for _ in range(3)]
        t_open = max(0.001, min(c[0] for c in cal))
        t_store = max(0.001, min(c[1] for c in cal))
        info['randkill_writer_open_ms'] = round(t_open * 1000, 2)
        info['randkill_writer_stores_ms'] = round(t_store * 1000, 2)
        for _ in range(plan['randkills']):
            ph = 'open' if rng.random() < 0.2 else 'store'
            rk.append({'kind': 'randkill', 'src': 'randkill', 'n': nrk, 'clear': rng.random() < 0.5,
                       'phase': ph, 'mv': None,
                       'delay': rng.random() * (t_open * 1.5 if ph == 'open' else t_store * 0.8)})
    jobs = km + rl + rk + jobs

    # ---- spec -> code: replay on real directories --------------------------
    t1 = time.time()
    outs = run_jobs(pool, jobs, plan['replay_seconds'])
    pool.terminate()           # whatever was not reached within the budget is dropped
    pool.join()
    info['t_replay'] = round(time.time() - t1, 1)
    executed = jobs[:len(outs)]
    info['lifecycles_enumerated'] = len(chosen)
    info['bfs_lifecycles_replayed'] = sum(1 for j in executed if j['src'] == 'bfs')
    info['exhaustive_replay'] = info['bfs_lifecycles_replayed'] == len(chosen)
    info['lifecycles_per_s'] = round(len(outs) / max(0.01, time.time() - t1))

    # ---- code -> spec: TLC judges the real observations ---------------------
    records = []
    owner = []                 # record index -> (job index, candidate index)
    for ji, (job, out) in enumerate(zip(executed, outs)):
        if 'error' in out:
            res.machinery_errors.append(f"lifecycle {short(job.get('hist', []))}: {out['error']}")
            continue
        if job['kind'] == 'life':
            cands = [{'n': job['n'], 'init': job['init'], 'hist': job['hist'], 'obs': out['obs']}]
        else:
            cands = randkill_candidates(job['n'], job, out)
        for ci, c in enumerate(cands):
            records.append(dict(c, id=len(records) + 1))
            owner.append((ji, ci))
    if len(res.machinery_errors) > 5:
        del res.machinery_errors[5:]
    t2 = time.time()
    verdicts, st = validate_records(records, module=TRACE, cfg=TRACE_CFG, unfixed=unfixed)
    res.add_tlc(st)
    info['t_validate'] = round(time.time() - t2, 1)

    # ---- verdicts -----------------------------------------------------------
    per_job = {}
    for rec, (ji, ci) in zip(records, owner):
        per_job.setdefault(ji, []).append((rec, verdicts[rec['id']]))
    by_clause = {}
    by_src = {}
    known = {}
    reported = {}
    samples = []
    kills = {'deterministic_kills': 0, 'random_instant_kills': 0,
             'random_explained_by_death_before_store': 0,
             'random_explained_by_death_after_store': 0, 'random_died_inside_open': 0,
             'lifecycles_with_kill': 0, 'random_acked_steps_histogram': {}}
    silent = 0
    nontrivial = 0
    pending = {}               # (finding id | None, clause, mech) -> [(len, what, replay)]
    for ji in sorted(per_job):
        job = executed[ji]
        cands = per_job[ji]
        good = [k for k, (rec, v) in enumerate(cands)
                if v['C11'][0] != 'viol' and v['conf'] == 'conforms']
        if job['kind'] == 'randkill':
            kills['random_instant_kills'] += 1
            na = str(len(outs[ji]['acks']))      # 0 = died inside Open, k = Open + k-1 stores
            kills['random_acked_steps_histogram'][na] = \
                kills['random_acked_steps_histogram'].get(na, 0) + 1
            if not outs[ji]['acks']:
                kills['random_died_inside_open'] += 1
            elif good:
                kills['random_explained_by_death_before_store' if good[0] == 0
                      else 'random_explained_by_death_after_store'] += 1
        rec, v = cands[good[0]] if good else cands[0]
        if not good and len(cands) > 1 and cands[0][1]['C11'][0] != 'viol':
            # neither atomic history explains it; prefer the one that is a violation
            for c in cands:
                if c[1]['C11'][0] == 'viol':
                    rec, v = c
        nk = sum(1 for a in rec['hist'] if a['a'] == 'kill')
        if job['kind'] == 'life' and nk:
            kills['deterministic_kills'] += nk
            kills['lifecycles_with_kill'] += 1
        status, clause = v['C11']
        key = f'{status}:{clause}' + (f"[{v['mech']}]" if v['mech'] != 'none' else '')
        by_clause[key] = by_clause.get(key, 0) + 1
        s = by_src.setdefault(job['src'], {'executed': 0, 'ok': 0, 'trivial': 0, 'viol': 0})
        s['executed'] += 1
        s[status] += 1
        silent += 1 if v['silent'] else 0
        if status == 'ok':
            nontrivial += 1
            if len(samples) < 5 and (job['src'] != 'bfs' or ji % 997 == 0):
                samples.append({'source': job['src'], 'n': rec['n'], 'init': rec['init'],
                                'lifecycle': short(rec['hist']),
                                'observed': short_obs(rec['obs']), 'verdict': 'ok',
                                'clause_instances_tested': v['nt']})
        if v['conf'] != 'conforms':
            res.drift.append({'where': f"step {v['dstep']}", 'lifecycle': short(rec['hist']),
                              'init': rec['init'], 'source': job['src'],
                              'observed': short_obs(rec['obs'])})
        mv = job.get('mv')
        if status == 'viol':
            kf = match_finding(v['mech'])
            what = (f"{'+'.join(v['also'])} at step {v['step']}"
                    + (f" [{v['mech']}]" if v['mech'] != 'none' else '')
                    + f": n={rec['n']} init={rec['init']}: {short(rec['hist'])}  ->  "
                    + short_obs(rec['obs']))
            if kf is not None:
                known[kf['id']] = known.get(kf['id'], 0) + 1
            else:
                reported[(clause, v['mech'])] = reported.get((clause, v['mech']), 0) + 1
            pending.setdefault((kf['id'] if kf else None, clause, v['mech']), []).append(
                (len(rec['hist']), what, {
                    'family': 'diskcache', 'kind': job['kind'], 'n': rec['n'],
                    'init': rec['init'], 'hist': rec['hist'], 'obs': rec['obs'],
                    'verdict': v, 'model_verdict': mv,
                    'randkill': ({'clear': job['clear'], 'delay': job['delay'],
                                  'phase': job['phase']}
                                 if job['kind'] == 'randkill' else None),
                    'how': 'real observation judged by TLC (DiskCacheTrace.tla)'}))
        elif mv and mv['st'] == 'viol':
            res.drift.append({'where': 'model-verdict', 'lifecycle': short(rec['hist']),
                              'model': [mv['st'], mv['clause'], mv['mech']]})
    # report the SHORTEST failing lifecycles of every category
    for (fid, clause, mech), items in sorted(pending.items(), key=lambda kv: str(kv[0])):
        items.sort(key=lambda x: (x[0], sum(1 for a in x[2]['hist'] if a['i'] < 0), x[1]))
        if fid is not None:
            kf = match_finding(mech)
            res.known_finding(fid, kf['what']
                              + ('' if kf['property'] == prop
                                 else ' (same mechanism through DiskCacheDataset)')
                              + ' e.g. ' + items[0][1])
        else:
            for _, what, rp in items[:3]:
                if len(res.violations) < 25:
                    res.violation(what, rp)
    if not samples and records:
        samples.append({'lifecycle': short(records[0]['hist']),
                        'verdict': list(verdicts[records[0]['id']]['C11'])})

    res.coverage['traces_validated_against_impl'] = len(per_job)
    res.coverage['evaluations'] = len(records)
    res.coverage['distinct_nontrivial'] = nontrivial
    res.coverage['samples'] = samples
    res.coverage['configs'] = configs
    res.coverage['design_level'] = design
    res.coverage['verdicts'] = by_clause
    res.coverage['by_source'] = by_src
    res.coverage['violations_by_category'] = {f'{c}[{m}]': k for (c, m), k in reported.items()}
    res.coverage['known_finding_hits'] = known
    res.coverage['kills'] = kills
    res.coverage['silent_zone_lifecycles'] = silent
    res.coverage['unfixed_modelled'] = unfixed
    res.coverage['run'] = info
    res.coverage['random_kill_note'] = (
        'kills at random instants are SAMPLING below the atomicity of DiskCache.tla (one store '
        '= one step), not model checking: each is judged against the two atomic histories '
        '"writer died before / after its in-flight store"; corrupt, misplaced or lost '
        'acknowledged entries are violations, a missing in-flight entry is not'
        if plan['randkills'] else 'no kills at random instants in this tier (thorough only)')
    res.coverage['rule'] = (
        'lifecycles = every history of Open/Access/Copy/Release/KillWriter/Reopen TLC reaches '
        'from DiskCache.tla inside the constants of the listed configs (BFS, deduplicated), '
        'each replayed on a real private directory, plus the kill matrix (writer SIGKILLed '
        'right after its j-th store, every j) and seeded random longer lifecycles; a lifecycle '
        'is non-trivial when TLC\'s verdict on the REAL observation is "ok", i.e. at least one '
        'clause instance (a read, a re-read of a stored example, a refusal, a last or non-last '
        'release) was put to the test and held; "trivial" = nothing the statement talks about '
        'happened (e.g. only an Open)')
    res.assumptions += [
        'TLC evaluates the TLA+ operators correctly',
        'dropping the only reference + gc.collect() is what "released" means; os.kill(SIGKILL) '
        'of the forked process that owns the datasets is what "the writing process was killed" means',
        'a store is atomic with respect to process death (sampled by random-instant kills in '
        'the thorough tier, not proved)',
        'two independent datasets open on one directory where one clears it under the other: '
        'the statement is silent, nothing is judged after that point (counted as silent_zone)',
    ]
    if not info['exhaustive_replay']:
        res.assumptions.append(
            f"replay time budget reached: {info['bfs_lifecycles_replayed']} of "
            f"{len(chosen)} enumerated lifecycles replayed (seeded uniform sample)")
    return res.finish()


def replay(prop, path):
    with open(path) as f:
        rp = json.load(f)
    warnings.simplefilter('ignore')
    sc = _scratch()
    before = set(os.listdir(sc))
    root = tempfile.mkdtemp(prefix='c11-replay-', dir=sc)
    try:
        d = os.path.join(root, 'cache')
        if rp.get('kind') == 'randkill':
            records = []
            for k in range(40):
                out = random_kill(d, rp['n'], rp['randkill']['clear'], rp['randkill']['delay'],
                                  rp['randkill'].get('phase', 'store'))
                for c in randkill_candidates(rp['n'], rp, out):
                    records.append(dict(c, id=len(records) + 1, run=k))
                shutil.rmtree(d, ignore_errors=True)
        else:
            obs = execute(rp['n'], rp['init'], rp['hist'], d)
            records = [{'id': 1, 'n': rp['n'], 'init': rp['init'], 'hist': rp['hist'], 'obs': obs}]
        v, _ = validate_records([{k: x for k, x in r.items() if k != 'run'} for r in records],
                                module=TRACE, cfg=TRACE_CFG, unfixed=_unfixed())
        rc = 0
        if rp.get('kind') == 'randkill':
            runs = {}
            for r in records:
                x = v[r['id']]
                runs.setdefault(r['run'], []).append(x['C11'][0] != 'viol' and x['conf'] == 'conforms')
            bad = [k for k, g in runs.items() if not any(g)]
            print(f'random-instant kill re-run {len(runs)} times: {len(bad)} unexplained')
            rc = 1 if bad else 0
        else:
            r = records[0]
            x = v[1]
            print('lifecycle:', f"n={r['n']} init={r['init']}:", short(r['hist']))
            print('observed :', short_obs(r['obs']))
            print('verdict  :', x['C11'], 'failing clauses:', x['also'], 'step:', x['step'],
                  'mechanism:', x['mech'], ' conformance:', x['conf'], x['dstep'])
            rc = 1 if x['C11'][0] == 'viol' else 0
        return rc
    finally:
        for fn in set(os.listdir(sc)) - before:
            shutil.rmtree(os.path.join(sc, fn), ignore_errors=True)
