"""Check C19 (the database layer builds correct, isolated datasets from its
source), decided with specs Database.tla / DatabaseTrace.tla.

  spec -> code : TLC enumerates small database descriptions x request
                 histories (BFS over Database.tla, three families); every
                 emitted behaviour is executed on the REAL DictDatabase and
                 JsonDatabase (JSON files in the scratch directory);
  code -> spec : what the real library did - on TLC's behaviours and on
                 seeded random larger descriptions / longer histories - goes
                 back to TLC (DatabaseTrace.tla), which evaluates the clauses
                 of C19 on the REAL observation and the conformance with the
                 prediction of the implementation-shaped model.

Python only executes and records; every verdict is TLC's.
"""
import collections
import copy
import gc
import json
import multiprocessing as mp
import os
import pickle
import random
import time
import weakref

from . import common, tlc
from .common import Result
from .pipeline import validate_records

MODULE = 'DatabaseTrace.tla'
CFG = 'DatabaseTrace.cfg'

INVARIANTS = ['Inv_MergeTotal', 'Inv_DuplicatesRejected', 'Inv_SourceUntouched',
              'Inv_ExamplesExact', 'Inv_AliasIsConcat', 'Inv_ListIsConcat',
              'Inv_SharedWhileAlive', 'Inv_PickledAgrees', 'Inv_MemoWeak']


def cfg(family, rich, maxhist, invariants=('EmitBehaviour',)):
    inv = '\n'.join(f'INVARIANT {i}' for i in invariants)
    return f'''CONSTANTS
  Family = "{family}"
  Rich = {rich}
  MaxHist = {maxhist}
SPECIFICATION Spec
{inv}
CHECK_DEADLOCK FALSE
'''


# family "content": 0..3 datasets of 0..2 examples x 0..2 aliases x 5 layouts,
#                   probed with every name, a list catalogue, None, (json) a
#                   pickle round trip;
# family "layout" : fixed content x every placement over 1..3 parts x alias
#                   sections present / missing x further top-level keys x one
#                   duplicated name, same probe;
# family "history": five descriptions x EVERY history of MaxHist steps over
#                   requests, Release of any held handle, pickle round trip.
TIERS = {
    'quick': {
        'bfs': [('content', cfg('content', 0, 0)),
                ('layout', cfg('layout', 0, 0)),
                ('history-3', cfg('history', 0, 3))],
        'design': [('history-3', 'history', 0, 3)],
        'random': 1500,
    },
    'thorough': {
        'bfs': [('content-rich', cfg('content', 1, 0)),
                ('layout-rich', cfg('layout', 1, 0)),
                ('history-4', cfg('history', 0, 4)),
                ('history-3-rich', cfg('history', 1, 3))],
        'design': [('history-4', 'history', 0, 4), ('content', 'content', 0, 0),
                   ('layout', 'layout', 0, 0)],
        'random': 20000,
    },
}


# ---------------------------------------------------------------------------
# spec -> code: enumeration

def enumerate_behaviours(cfg_text, unfixed=None, timeout=3000, workers=None):
    d = tlc.prepare(unfixed)
    r = tlc.run('Database.tla', 'MC_gen.cfg', workdir=d, cfg_text=cfg_text,
                timeout=timeout, workers=workers)
    if r['rc'] != 0 or r['errors']:
        raise tlc.TlcError('Database.tla: rc=%s\n%s' % (r['rc'], '\n'.join(r['errors'][:30])))
    return [tlc.json_payload(line, 'VEC') for line in r['tagged'].get('VEC', [])], r['stats']


def design_check(family, rich, maxhist, unfixed, timeout=3000, workers=None):
    """TLC checks every clause of C19 as an invariant of the model itself
    (no emission).  Returns (the invariant TLC refutes first or None, stats)."""
    d = tlc.prepare(unfixed)
    r = tlc.run('Database.tla', 'MC_gen_design.cfg', workdir=d,
                cfg_text=cfg(family, rich, maxhist, INVARIANTS), timeout=timeout,
                workers=workers)
    with open(r['out_path'], errors='replace') as f:
        out = f.read()
    refuted = [i for i in INVARIANTS if f'Invariant {i} is violated' in out]
    if r['rc'] == 0 and not r['errors']:
        return None, r['stats']
    if r['rc'] == 12 and refuted:
        return refuted[0], r['stats']
    raise tlc.TlcError('Database.tla (design): rc=%s\n%s'
                       % (r['rc'], '\n'.join(r['errors'][:30])))


# ---------------------------------------------------------------------------
# executing one behaviour on the real library

def to_py(part):
    """A part of a description (Database.tla) as the dict a user would write."""
    d = {'datasets': {e['name']: {x['id']: {'pay': x['pay']} for x in e['exs']}
                      for e in part['ds']}}
    if part['hasal']:
        d['alias'] = {e['name']: list(e['mem']) for e in part['al']}
    for e in part['extra']:
        d[e['key']] = {'k': 1} if e['isdict'] else 'v1'
    return d


def _canon(p):
    """Datasets, examples, aliases and further keys of one source dict; a
    missing alias section counts as an empty one (deliberate reading, DESIGN
    section 7)."""
    return {'datasets': p.get('datasets'), 'alias': p.get('alias', {}),
            'rest': {k: v for k, v in p.items() if k not in ('datasets', 'alias')}}


def _same_source(cur, pristine):
    """(equal up to missing = empty alias section, strictly equal); order of
    dict entries included (json.dumps keeps insertion order)."""
    try:
        strict = json.dumps(cur) == json.dumps(pristine)
        norm = json.dumps([_canon(p) for p in cur]) == json.dumps([_canon(p) for p in pristine])
    except Exception:
        return False, False
    return norm, strict


def _ok(xs):
    return {'ok': True, 'out': xs, 'exc': 'none'}


def _err(c):
    return {'ok': False, 'out': [], 'exc': c}


NO_ORIG = _err('-')


def _content(ds):
    """list(ds) as [(example_id, payload, dataset)], and whether every example
    is a dict with exactly these three entries."""
    out, clean = [], True
    for ex in list(ds):
        if not isinstance(ex, dict):
            clean = False
            ex = {}
        elif set(ex.keys()) != {'pay', 'example_id', 'dataset'}:
            clean = False
        i, p, n = ex.get('example_id'), ex.get('pay'), ex.get('dataset')
        if not isinstance(i, str):
            i, clean = '?', False
        if not isinstance(n, str):
            n, clean = '?', False
        if not isinstance(p, int) or isinstance(p, bool):
            p, clean = 0 - 1, False
        out.append({'id': i, 'pay': p, 'dsn': n})
    return out, clean


def _fresh(name):
    """An equal but distinct str object, as two calls in a user's program
    would pass (a memo keyed by object identity must not look shared)."""
    return (name + ' ')[:-1]


def _arg(step):
    if step['op'] == 'none':
        return None
    if step['op'] == 'get':
        return _fresh(step['names'][0])
    names = [_fresh(n) for n in step['names']]
    return tuple(names) if step['tup'] else names


def _ask(db, step):
    """get_dataset + full iteration -> (outcome, dataset or None, clean)."""
    try:
        ds = db.get_dataset(_arg(step))
        xs, clean = _content(ds)
        return _ok(xs), ds, clean
    except Exception as e:          # noqa: BLE001 - every refusal is an outcome
        return _err(type(e).__name__), None, True


def _members(ds, step):
    """The per-name dataset objects a result is served from."""
    if step['op'] == 'get' or len(step['names']) == 1:
        return [ds]
    ms = getattr(ds, 'input_datasets', None)
    if ms is not None and len(ms) == len(step['names']):
        return list(ms)
    return []


class _World:
    """One database object, the handles its user holds, the identities seen."""

    def __init__(self, parts, kind, paths):
        self.kind = kind
        self.pristine = [to_py(p) for p in parts]
        self.paths = paths
        self.srcs = copy.deepcopy(self.pristine) if kind == 'dict' else None
        self.db = self.db0 = None
        self.pickled = False
        self.handles = {}            # step -> (dataset, members)
        self.seen = []               # (weakref to member object, token)

    def source_flags(self):
        if self.kind == 'dict':
            return _same_source(self.srcs, self.pristine)
        try:
            cur = [json.loads(open(p).read()) for p in self.paths]
        except Exception:
            return False, False
        return _same_source(cur, self.pristine)

    def build(self):
        from lazy_dataset.database import DictDatabase, JsonDatabase
        try:
            if self.kind == 'dict':
                # both documented call forms
                self.db = DictDatabase(self.srcs) if len(self.srcs) == 3 \
                    else DictDatabase(*self.srcs)
            else:
                # the merge of a JsonDatabase happens on first use: a second,
                # throw-away instance over the same files tells whether it works
                JsonDatabase(*self.paths).data
                self.db = JsonDatabase(self.paths) if len(self.paths) == 3 \
                    else JsonDatabase(*self.paths)
            bexc = 'none'
        except Exception as e:      # noqa: BLE001
            bexc = type(e).__name__
            if self.kind == 'json':
                self.db = JsonDatabase(*self.paths)
        self.db0 = self.db
        return bexc

    def token(self, obj, fresh):
        for r, t in self.seen:
            if r() is obj:
                return t
        self.seen.append((weakref.ref(obj), fresh))
        return fresh

    def request(self, i, step):
        out, ds, clean = _ask(self.db, step)
        toks = []
        if ds is not None:
            ms = _members(ds, step)
            toks = [self.token(m, 100 * i + j + 1) for j, m in enumerate(ms)]
            self.handles[i] = (ds, ms)
        orig = NO_ORIG
        if self.pickled:
            orig = _ask(self.db0, step)[0]       # its dataset is dropped at once
        return out, toks, orig, clean

    def release(self, h):
        self.handles.pop(h, None)
        gc.collect()
        held = {id(m) for _, ms in self.handles.values() for m in ms}
        return all(r() is None or id(r()) in held for r, _ in self.seen)

    def pickle_round_trip(self):
        try:
            self.db = pickle.loads(pickle.dumps(self.db))
            self.pickled = True
            return _ok([])
        except Exception as e:      # noqa: BLE001
            return _err(type(e).__name__)


_GRAVEYARD = collections.deque(maxlen=8)


def execute(parts, kind, history, paths=None):
    """Run one history on the real library; returns the observation record
    (Database.tla PART 3)."""
    w = _World(parts, kind, paths)
    bexc = w.build()
    bsrcn, bsrcs = w.source_flags()
    steps = []
    if w.db is not None:
        for i, step in enumerate(history, 1):
            ob = {'out': _ok([]), 'toks': [], 'pk': False, 'orig': NO_ORIG,
                  'dead': True, 'clean': True}
            if step['op'] in ('get', 'getl', 'none'):
                ob['pk'] = w.pickled
                ob['out'], ob['toks'], ob['orig'], ob['clean'] = w.request(i, step)
            elif step['op'] == 'rel':
                ob['dead'] = w.release(step['h'])
            else:
                ob['out'] = w.pickle_round_trip()
            ob['srcn'], ob['srcs'] = w.source_flags()
            steps.append(ob)
    # the datasets handed out stay alive a little longer than their database
    # (a user keeping datasets while rebuilding databases in a loop): the next
    # histories of this process run while they exist, and must not see them
    for ds, _ms in w.handles.values():
        _GRAVEYARD.append(ds)
    w.handles.clear()
    return {'bexc': bexc, 'bsrcn': bsrcn, 'bsrcs': bsrcs, 'steps': steps}


# ---------------------------------------------------------------------------
# JSON files (written once per description, never by the code under test)

class JsonFiles:
    def __init__(self):
        self.root = os.path.join(common.scratch(), 'dbjson')
        os.makedirs(self.root, exist_ok=True)
        self.known = {}

    def paths(self, parts):
        key = json.dumps(parts, sort_keys=True)
        if key not in self.known:
            d = os.path.join(self.root, str(len(self.known)))
            os.makedirs(d)
            ps = []
            for k, part in enumerate(parts):
                p = os.path.join(d, f'part{k}.json')
                with open(p, 'w') as f:
                    json.dump(to_py(part), f)
                ps.append(p)
            self.known[key] = ps
        return self.known[key]


def _exec_chunk(chunk):
    out = []
    for job in chunk:
        # everything alive now is out of the collector's sight: the
        # gc.collect() of a Release only examines what this history created
        gc.freeze()
        out.append(execute(*job))
    return out


def execute_all(jobs, chunk=200, timeout=3000):
    chunks = [jobs[i:i + chunk] for i in range(0, len(jobs), chunk)]
    if not chunks:
        return []
    with mp.get_context('fork').Pool(common.NCPU) as pool:
        out = pool.map_async(_exec_chunk, chunks).get(timeout)
    return [o for c in out for o in c]


# ---------------------------------------------------------------------------
# seeded random larger descriptions / longer histories (code -> spec only)

def random_behaviour(rng):
    nd = rng.randint(0, 5)
    na = rng.randint(0, 3)
    np_ = rng.randint(1, 4)
    ids = [f'i{k}' for k in range(6)]
    dnames = [f'd{k}' for k in range(nd)]
    parts = [{'ds': [], 'hasal': rng.random() < 0.5, 'al': [], 'extra': []}
             for _ in range(np_)]
    pay = 100
    for n in dnames:
        exs = []
        for i in rng.sample(ids, rng.randint(0, 4)):
            pay += 1
            exs.append({'id': i, 'pay': pay})
        parts[rng.randrange(np_)]['ds'].append({'name': n, 'exs': exs})
    for k in range(na):
        pool = dnames + (['zz'] if rng.random() < 0.1 else [])
        mem = [rng.choice(pool) for _ in range(rng.randint(0, 3))] if pool else []
        p = parts[rng.randrange(np_)]
        p['al'].append({'name': f'al{k}', 'mem': mem})
        p['hasal'] = True
    anomaly = rng.random()
    if anomaly < 0.15 and np_ > 1 and dnames:            # a duplicated name
        q = parts[rng.randrange(np_)]
        n = rng.choice(dnames + [f'al{k}' for k in range(na)])
        if n not in [e['name'] for e in q['ds']] + [e['name'] for e in q['al']]:
            if rng.random() < 0.5:
                q['ds'].append({'name': n, 'exs': [{'id': 'i9', 'pay': 99}]})
            else:
                q['al'].append({'name': n, 'mem': dnames[:1]})
                q['hasal'] = True
    elif anomaly < 0.25 and np_ > 1:                      # a further key in a later part
        parts[rng.randrange(1, np_)]['extra'].append({'key': 'meta', 'isdict': True})
    r = rng.random()
    if r < 0.3:
        parts[0]['extra'].append({'key': 'meta', 'isdict': True})
    if 0.2 < r < 0.5:
        parts[0]['extra'].append({'key': 'version', 'isdict': False})
    names = dnames + [f'al{k}' for k in range(na)] + ['zz']
    hists = {}
    for kind in ('dict', 'json'):
        h, reqs = [], []
        for i in range(1, rng.randint(1, 8) + 1):
            c = rng.random()
            if c < 0.2 and reqs:
                k = rng.choice(reqs)
                reqs.remove(k)
                h.append({'op': 'rel', 'names': [], 'tup': False, 'h': k})
            elif c < 0.28 and kind == 'json':
                h.append({'op': 'pickle', 'names': [], 'tup': False, 'h': 0})
            elif c < 0.32:
                h.append({'op': 'none', 'names': [], 'tup': False, 'h': 0})
            elif c < 0.55:
                ns = [rng.choice(names) for _ in range(rng.randint(0, 3))]
                h.append({'op': 'getl', 'names': ns, 'tup': rng.random() < 0.5, 'h': 0})
                reqs.append(i)
            else:
                h.append({'op': 'get', 'names': [rng.choice(names)], 'tup': False, 'h': 0})
                reqs.append(i)
        hists[kind] = h
    return parts, hists


# ---------------------------------------------------------------------------
# known finding S11 (reported, never a reason to skip anything)

def match_s11(clause, parts, obs):
    """The open finding this violation is, or None: the merge of a valid
    description fails because only a later part has an alias section
    (KeyError) / the first part has a non-dict top-level value
    (AttributeError)."""
    if clause != 'MergeTotal' or len(parts) < 2:
        return None
    for f in common.load_findings()['findings']:
        if f['id'] != 'S11' or f['status'] != 'open' or f['property'] != 'C19':
            continue
        if obs['bexc'] == 'KeyError' and not parts[0]['hasal'] \
                and any(p['hasal'] for p in parts[1:]):
            return f
        if obs['bexc'] == 'AttributeError' \
                and any(not e['isdict'] for e in parts[0]['extra']):
            return f
    return None


def short(parts, kind=None, history=None):
    """Compact rendering of a behaviour as the Python a user would write."""
    cls = {'dict': 'DictDatabase', 'json': 'JsonDatabase', None: 'Database'}[kind]
    s = f"{cls}({', '.join(json.dumps(to_py(p), separators=(',', ':')) for p in parts)})"
    if history:
        def one(a):
            if a['op'] == 'rel':
                return f"del h{a['h']}"
            if a['op'] == 'pickle':
                return 'pickle-round-trip'
            return f'get_dataset({_arg(a)!r})'
        s += ': ' + '; '.join(one(a) for a in history)
    return s


# ---------------------------------------------------------------------------

def collect(tier, res, rng):
    plan = TIERS[tier]
    chosen = {}
    info = []
    model_refuted = {}
    # the configurations are independent TLC runs: side by side
    from concurrent.futures import ThreadPoolExecutor
    share = max(2, common.NCPU // len(plan['bfs']))
    common.scratch()
    with ThreadPoolExecutor(len(plan['bfs'])) as ex:
        runs = list(ex.map(lambda nc: enumerate_behaviours(nc[1], workers=share), plan['bfs']))
    for (name, c), (recs, st) in zip(plan['bfs'], runs):
        res.add_tlc(st)
        flagged = 0
        for r in recs:
            key = json.dumps([r['parts'], r['kind'], r['history']], sort_keys=True)
            chosen.setdefault(key, r)
            if r['mv'][0] == 'viol':
                flagged += 1
            for cl in r['mc']:
                model_refuted[cl] = model_refuted.get(cl, 0) + 1
        info.append({'config': name, 'behaviours': len(recs), 'model_flagged': flagged,
                     'executed': len(recs), 'exhaustive_replay': True, 'tlc': st})
    fresh = 0
    for _ in range(plan['random']):
        parts, hists = random_behaviour(rng)
        for kind, h in hists.items():
            key = json.dumps([parts, kind, h], sort_keys=True)
            if key not in chosen:
                chosen[key] = {'parts': parts, 'kind': kind, 'history': h, 'mv': None}
                fresh += 1
    info.append({'config': 'random larger descriptions / longer histories '
                           '(python generator, code -> spec only)', 'behaviours': fresh})
    res.coverage['configs'] = info
    res.coverage['model_refuted_clauses'] = model_refuted
    return list(chosen.values())


def run(prop, tier):
    res = Result(prop, tier)
    rng = random.Random(common.seed())
    timing = res.coverage['timing_s'] = {}
    t0 = time.time()

    def lap(what):
        nonlocal t0
        timing[what] = round(time.time() - t0, 1)
        t0 = time.time()
    try:
        behaviours = collect(tier, res, rng)
        lap('tlc_enumeration')
        files = JsonFiles()
        jobs = [(b['parts'], b['kind'], b['history'],
                 files.paths(b['parts']) if b['kind'] == 'json' else None)
                for b in behaviours]
        obs = execute_all(jobs)
        lap('real_execution')
        records = [{'id': i + 1, 'parts': b['parts'], 'kind': b['kind'],
                    'history': b['history'], 'obs': o}
                   for i, (b, o) in enumerate(zip(behaviours, obs))]
        verdicts, st = validate_records(records, module=MODULE, cfg=CFG)
        res.add_tlc(st)
        lap('tlc_trace_validation')
        # design level: the clauses of C19 as invariants of the model - as the
        # tree is now (Defects.tla) and with every defect of this family repaired
        design = []
        open_here = [u for u in common.unfixed_ids() if u == 'S11']
        repaired = [u for u in common.unfixed_ids() if u not in open_here]
        jobs_d = [(name, fam, rich, mh, uf)
                  for name, fam, rich, mh in TIERS[tier]['design']
                  for uf in ([None, repaired] if open_here else [None])]
        from concurrent.futures import ThreadPoolExecutor
        share = max(2, common.NCPU // max(1, len(jobs_d)))
        with ThreadPoolExecutor(max(1, len(jobs_d))) as ex:
            outs = list(ex.map(lambda j: design_check(j[1], j[2], j[3], j[4], workers=share),
                               jobs_d))
        got = {}
        for (name, _, _, _, uf), (refuted, st1) in zip(jobs_d, outs):
            res.add_tlc(st1)
            got.setdefault(name, {})['current' if uf is None else 'repaired'] = refuted
        for name, g in got.items():
            rep = g.get('repaired', g['current'])
            design.append({'config': name, 'refuted_on_current_model': g['current'],
                           'refuted_on_repaired_model': rep})
            if rep:
                res.machinery_errors.append(
                    f'design check {name}: the REPAIRED model violates {rep}')
        res.coverage['design_invariants'] = design
        lap('tlc_design_invariants')
    except tlc.TlcError as e:
        res.machinery_errors.append(str(e))
        return res.finish()
    res.coverage['traces_validated_against_impl'] = len(records)
    res.coverage['evaluations'] = len(records)
    nontrivial = 0
    known = {}
    by_clause = {}
    samples = []
    for rec, b in zip(records, behaviours):
        v = verdicts.get(rec['id'])
        if v is None:
            res.machinery_errors.append(f'no verdict for record {rec["id"]}')
            break
        status, clause = v[prop]
        by_clause[f'{status}:{clause}'] = by_clause.get(f'{status}:{clause}', 0) + 1
        what = short(rec['parts'], rec['kind'], rec['history'])
        if status == 'ok':
            nontrivial += 1
            if len(samples) < 4 and rec['id'] % 997 == 1:
                samples.append({'behaviour': what, 'verdict': 'ok',
                                'last_outcome': rec['obs']['steps'][-1]['out']
                                if rec['obs']['steps'] else rec['obs']['bexc']})
        if v['conf'] != 'conforms':
            res.drift.append({'where': v['conf'], 'behaviour': what})
        if status == 'viol':
            kf = match_s11(clause, rec['parts'], rec['obs'])
            if kf is not None:
                known[kf['id']] = known.get(kf['id'], 0) + 1
                if known[kf['id']] == 1:
                    res.known_finding(kf['id'], kf['what'] + ' e.g. ' + what
                                      + ' -> ' + rec['obs']['bexc'])
            else:
                res.violation(
                    f'{"+".join(v["clauses"])}: {what}',
                    {'family': 'database', 'parts': rec['parts'], 'kind': rec['kind'],
                     'history': rec['history'], 'obs': rec['obs'],
                     'verdict': [status, clause], 'clauses': v['clauses'],
                     'model_verdict': v['model'],
                     'how': 'real observation judged by TLC (DatabaseTrace.tla)'})
                if len(res.violations) >= 25:
                    break
        elif v['model'][0] == 'viol':
            # the design admits a violation the real code does not show: the
            # model misrepresents the code (never a property violation)
            res.drift.append({'where': 'model-verdict', 'behaviour': what,
                              'model': v['model']})
    if not samples and records:
        samples.append({'behaviour': short(records[0]['parts'], records[0]['kind'],
                                           records[0]['history']),
                        'verdict': list(verdicts[records[0]['id']][prop])})
    res.coverage['samples'] = samples
    res.coverage['distinct_nontrivial'] = nontrivial
    res.coverage['verdicts'] = by_clause
    res.coverage['known_finding_hits'] = known
    res.coverage['rule'] = (
        'behaviours = (database description, back end, request history): all that TLC '
        'enumerates from Database.tla (BFS; families content / layout with a fixed probe '
        'history, family history with every history of the given length) plus seeded '
        'random larger ones; every behaviour is executed on the real DictDatabase / '
        'JsonDatabase and judged by TLC.  Non-trivial = the verdict on the REAL '
        'observation is "ok": a clause of the statement really applied (a merge of several '
        'descriptions, a rejection of a duplicate, a request with defined content, a '
        'pickle round trip) and held; "trivial" = single description with nothing '
        'requested that the statement defines, or a later part with further top-level '
        'keys (refused by a documented assert, outside the statement)')
    res.assumptions += [
        'TLC evaluates the TLA+ operators correctly',
        'harness/check_database.py to_py() writes a description as the dict / JSON file a '
        'user would write; examples are dicts {"pay": int}',
        'object identity is observed with `is` through weak references; Release is '
        '`del` + gc.collect()',
        'source equality is a deep comparison (order of entries included) computed in Python',
    ]
    return res.finish()


def replay(prop, path):
    with open(path) as f:
        rp = json.load(f)
    files = JsonFiles()
    paths = files.paths(rp['parts']) if rp['kind'] == 'json' else None
    o = execute(rp['parts'], rp['kind'], rp['history'], paths)
    v, _ = validate_records([{'id': 1, 'parts': rp['parts'], 'kind': rp['kind'],
                              'history': rp['history'], 'obs': o}], module=MODULE, cfg=CFG)
    print('behaviour:', short(rp['parts'], rp['kind'], rp['history']))
    print('verdict  :', v[1][prop], ' clauses:', v[1]['clauses'],
          ' model:', v[1]['model'], ' conformance:', v[1]['conf'])
    print('observed :', json.dumps(o)[:3000])
    return 1 if v[1][prop][0] == 'viol' else 0
