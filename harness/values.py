"""Python value <-> tagged JSON value (specs/Values.tla: I, L, T, S, D, NoneV)."""
import numbers


def to_json(v):
    if v is None:
        return {'t': 'N'}
    if isinstance(v, bool):
        return {'t': 'b', 'b': v}
    if isinstance(v, numbers.Integral):
        return {'t': 'i', 'n': int(v)}
    if isinstance(v, str):
        return {'t': 's', 's': v}
    if isinstance(v, list):
        return {'t': 'L', 'xs': [to_json(e) for e in v]}
    if isinstance(v, tuple):
        return {'t': 'T', 'tp': [to_json(e) for e in v]}
    if isinstance(v, dict) and set(v) == {'x'}:
        return {'t': 'd', 'd': int(v['x'])}
    return {'t': 'o', 's': type(v).__name__ + ':' + repr(v)[:40]}


def from_json(j):
    t = j['t']
    if t == 'N':
        return None
    if t == 'i':
        return j['n']
    if t == 's':
        return j['s']
    if t == 'L':
        return [from_json(e) for e in j['xs']]
    if t == 'T':
        return tuple(from_json(e) for e in j['tp'])
    if t == 'd':
        return {'x': j['d']}
    raise ValueError(j)


def payload(pl, x):
    return {'x': x} if pl == 'd' else x
