"""Checks C04 - C07: prefetch / parallel map under ALL thread schedules.

specs: SingleThreadPrefetch.tla, PoolMap.tla (implementation-shaped, one
action per scheduling point), PrefetchAbs.tla (property verdicts over event
logs), STPTrace.tla / LPMTrace.tla (trace validation).

  (A) TLC explores every interleaving of the specs (all configurations up to
      the constants), state invariants + deadlock + termination, and the
      vacuity scenarios (sentinel guard removed -> deadlock must be found;
      tightened bounds -> must be refuted);
  (B) spec -> code: TLC emits its labelled state graph; a TRANSITION COVER is
      replayed on the real threads under the controlled scheduler
      (harness/detsched.py), every replayed log validated by TLC;
  (C) code -> spec: stateless DFS over the REAL code's own schedules
      (exhaustive for the small configurations), seeded random schedules for
      workloads above the buffer size; every log validated by TLC.
"""
import collections
import json
import multiprocessing as mp
import os
import random

from . import common, conc, findings, pipeline, tlc
from .common import Result

PROPS = ('C04', 'C05', 'C06', 'C07')

STP_MC = '''CONSTANTS
  MaxN = {maxn}
  Bufs = {bufs}
  GuardSentinel = {guard}
  KeepLog = FALSE
SPECIFICATION Spec
INVARIANT NoDeadlock
INVARIANT InvC04
INVARIANT InvC05
INVARIANT InvC06
INVARIANT {c07}
PROPERTY Termination
{refine}
CHECK_DEADLOCK FALSE
'''
LPM_MC = '''CONSTANTS
  MaxN = {maxn}
  Bufs = {bufs}
  Workers = {ws}
  KeepLog = FALSE
SPECIFICATION Spec
INVARIANT NoDeadlock
INVARIANT InvC04
INVARIANT InvC05
INVARIANT InvC06
INVARIANT {c07}
PROPERTY Termination
{refine}
CHECK_DEADLOCK FALSE
'''
EDGE_CFG_STP = '''CONSTANTS
  MaxN = {maxn}
  Bufs = {bufs}
  GuardSentinel = TRUE
  KeepLog = FALSE
INIT Init
NEXT Next
ACTION_CONSTRAINT EdgeOut
CHECK_DEADLOCK FALSE
'''
EDGE_CFG_LPM = '''CONSTANTS
  MaxN = {maxn}
  Bufs = {bufs}
  Workers = {ws}
  KeepLog = FALSE
INIT Init
NEXT Next
ACTION_CONSTRAINT EdgeOut
CHECK_DEADLOCK FALSE
'''

TIERS = {
    'quick': dict(stp_mc=(3, '{1, 2, 3}'), lpm_mc=(3, '{1, 2}', '{1, 2}'),
                  stp_cover=(2, '{1, 2}'), lpm_cover=(2, '{1, 2}', '{1, 2}'),
                  stp_dfs=(2, [1, 2], 400), lpm_dfs=(2, [1, 2], [1, 2], 60),
                  rand=dict(count=600, n=(4, 8), bufs=(1, 2, 3), ws=(1, 2, 3)),
                  ds=dict(maxn=3, ws=[1, 2], bufs=[1, 2], seeds=2, real_rounds=1, shared=800, big=400)),
    'thorough': dict(stp_mc=(4, '{1, 2, 3}'), lpm_mc=(4, '{1, 2, 3}', '{1, 2, 3}'),
                     stp_cover=(3, '{1, 2, 3}'), lpm_cover=(3, '{1, 2}', '{1, 2}'),
                     stp_dfs=(3, [1, 2, 3], 100000), lpm_dfs=(3, [1, 2], [1, 2], 1500),
                     rand=dict(count=20000, n=(4, 12), bufs=(1, 2, 3, 4), ws=(1, 2, 3)),
                     ds=dict(maxn=4, ws=[1, 2, 3], bufs=[1, 2, 3], seeds=6, real_rounds=12, shared=8000, big=6000)),
}


# ---------------------------------------------------------------------------
# (A) design level

REFINE = 'INVARIANT CountIndInv\nPROPERTY CountSpec'


def _mc(module, cfg_text, expect_error=None, timeout=1800):
    d = tlc.prepare()
    r = tlc.run(module, 'MC.cfg', workdir=d, cfg_text=cfg_text, timeout=timeout)
    text = '\n'.join(r['errors'])
    if expect_error is None:
        if r['rc'] != 0 or r['errors']:
            raise tlc.TlcError(f'{module}: the specification of the current tree violates '
                               f'its own invariants\n{text[:1500]}')
    else:
        if expect_error not in text:
            raise tlc.TlcError(f'{module}: vacuity scenario did not produce "{expect_error}" '
                               f'(rc={r["rc"]})\n{text[:800]}')
    return r['stats']


def design_level(tier, res):
    t = TIERS[tier]
    info = []
    n, bufs = t['stp_mc']
    st = _mc('SingleThreadPrefetch.tla', STP_MC.format(maxn=n, bufs=bufs, guard='TRUE', c07='InvC07', refine=REFINE))
    res.add_tlc(st)
    info.append({'spec': 'SingleThreadPrefetch', 'MaxN': n, 'Bufs': bufs, 'tlc': st,
                 'checked': 'NoDeadlock InvC04 InvC05 InvC06 InvC07 Termination; refinement: '
                            'implements STPCount.tla (PROPERTY CountSpec, INVARIANT CountIndInv)'})
    st = _mc('SingleThreadPrefetch.tla', STP_MC.format(maxn=2, bufs='{1, 2}', guard='FALSE', c07='InvC07', refine=''),
             expect_error='Invariant NoDeadlock is violated')
    info.append({'scenario': 'sentinel guard removed -> TLC finds the documented deadlock', 'tlc': st})
    st = _mc('SingleThreadPrefetch.tla', STP_MC.format(maxn=3, bufs='{1, 2}', guard='TRUE', c07='TightC07', refine=''),
             expect_error='Invariant TightC07 is violated')
    info.append({'scenario': 'pulled - delivered <= buffer + 1 is refuted (bound is tight)', 'tlc': st})
    n, bufs, ws = t['lpm_mc']
    st = _mc('PoolMap.tla', LPM_MC.format(maxn=n, bufs=bufs, ws=ws, c07='InvC07', refine=REFINE))
    res.add_tlc(st)
    info.append({'spec': 'PoolMap', 'MaxN': n, 'Bufs': bufs, 'Workers': ws, 'tlc': st,
                 'checked': 'NoDeadlock InvC04 InvC05 InvC06 InvC07 Termination; refinement: '
                            'implements PoolCount.tla (PROPERTY CountSpec, INVARIANT CountIndInv)'})
    st = _mc('PoolMap.tla', LPM_MC.format(maxn=3, bufs='{1, 2}', ws='{1, 2}', c07='TightStart', refine=''),
             expect_error='Invariant TightStart is violated')
    info.append({'scenario': 'started - delivered <= buffer - 1 is refuted (bound is tight)', 'tlc': st})
    if res.prop == 'C07':
        # the read-ahead bound for EVERY dataset length, buffer size and pool size
        from . import apalache
        apalache.prove_inductive('STPCount.tla', info)
        apalache.prove_inductive('PoolCount.tla', info)
    res.coverage['design_level'] = info


# ---------------------------------------------------------------------------
# (B) transition cover

def state_graph(module, cfg_text):
    d = tlc.prepare()
    r = tlc.run(module, 'EDGE.cfg', workdir=d, cfg_text=cfg_text, timeout=1800)
    if r['rc'] != 0 or r['errors']:
        raise tlc.TlcError(f'{module} (graph): rc={r["rc"]}\n' + '\n'.join(r['errors'][:20]))
    succ = collections.defaultdict(list)     # key -> [(thread, key)]
    cfg_of = {}
    for line in r['tagged'].get('EDGE', []):
        e = tlc.json_payload(line, 'EDGE')
        kf = json.dumps(e['f'], sort_keys=True)
        kt = json.dumps(e['t'], sort_keys=True)
        succ[kf].append((e['th'], kt))
        cfg_of[kf] = e['f']
        cfg_of[kt] = e['t']
    return succ, cfg_of, r['stats']


def _is_initial(st):
    return st['cpc'] in ('c_start', 'c_pull', 'c_closed0') and st.get('pos') == 0 and \
        not st.get('delivered') and st.get('mv', '-') == '-' and st.get('wpc', 'w_none') == 'w_none' \
        and not st.get('fut')


def cover_paths(succ, states):
    """Paths (lists of (thread, from-state)) from initial states that together
    traverse every edge of the graph."""
    roots = [k for k, s in states.items() if _is_initial(s)]
    # BFS tree for shortest access paths
    parent = {}
    order = collections.deque(roots)
    for r_ in roots:
        parent[r_] = None
    while order:
        u = order.popleft()
        for th, v in succ.get(u, []):
            if v not in parent:
                parent[v] = (u, th)
                order.append(v)
    uncovered = {(u, i) for u in succ for i in range(len(succ[u]))}
    paths = []

    def access(u):
        seq = []
        while parent[u] is not None:
            p, th = parent[u]
            seq.append((th, p))
            u = p
        return list(reversed(seq)), u

    while uncovered:
        u, i = next(iter(uncovered))
        seq, root = access(u)
        cur = u
        path = list(seq)
        while True:
            nxt = None
            for j, (th, v) in enumerate(succ.get(cur, [])):
                if (cur, j) in uncovered:
                    nxt = (j, th, v)
                    break
            if nxt is None:
                break
            j, th, v = nxt
            uncovered.discard((cur, j))
            path.append((th, cur))
            cur = v
        paths.append((root, path))
    return paths


def _spec_steps_to_schedule(kind, path):
    """Thread names of the real scheduling decisions along a spec path: the
    spec step `w_exit -> w_done` is not a scheduling point of the real thread."""
    out = []
    for th, frm in path:
        st = json.loads(frm)
        if kind == 'stp' and th == 'W' and st['wpc'] == 'w_exit':
            continue
        out.append(th)
    return out


def _replay_job(job):
    kind, cfg, schedule = job
    run = conc.run_stp if kind == 'stp' else conc.run_lpm
    rec, sched = run(cfg, conc.follow_chooser(schedule))
    rec['how'] = 'cover'
    rec['schedule'] = [c for _, c in sched.decisions]
    return rec


def _dfs_job(job):
    kind, cfg, budget = job
    run = conc.run_stp if kind == 'stp' else conc.run_lpm
    out = []
    for rec in conc.dfs_schedules(run, cfg, budget):
        rec['how'] = 'dfs'
        out.append(rec)
    return out, conc.dfs_schedules.exhausted


def _rand_job(job):
    kind, cfg, seed = job
    run = conc.run_stp if kind == 'stp' else conc.run_lpm
    # every second random execution is scheduled at EVERY source line of
    # parallel_utils.py (long runs of one thread, random preemptions), the others
    # at the operations of the specification only (uniform choice)
    if seed % 2:
        rec, sched = run(cfg, conc.sticky_chooser(seed, 0.7), pu_lines=True)
        rec['how'] = 'random-every-line'
    else:
        rec, sched = run(cfg, conc.random_chooser(seed))
        rec['how'] = 'random'
    rec['schedule'] = [c for _, c in sched.decisions]
    return rec


def _shared_job(job):
    cfg, seed = job
    rec, sched = conc.run_shared(cfg, conc.sticky_chooser(seed))
    if rec is not None:
        rec['how'] = 'random-line-level'
    return rec


def shared_jobs(rng, count):
    """Pool prefetch / parallel map over structured pipelines (random API terms
    of the pipeline family) that the workers share."""
    from . import randprog
    r2 = random.Random(rng.randrange(1 << 30))
    out = []
    while len(out) < count:
        p = randprog.program(r2, r2.choice([1, 2, 2, 3, 3, 4]), 3, 'core', 'i')
        # one pool per execution: the log verdicts (cancellation, read-ahead)
        # speak about ONE executor; nested pools are iterated under schedules
        # by the pipeline family (C01)
        if findings._ops(p) & {'prefetch', 'pmap'}:
            continue
        api = 'prefetch' if r2.random() < 0.7 else 'parmap'
        if api == 'prefetch' and not randprog._builds(
                {'op': 'prefetch', 'w': 2, 'bs': 2, 'cfe': 'none', 'in': p}):
            continue
        if not randprog._builds(p):
            continue
        w = r2.choice([2, 2, 3])
        stop = ('exhaust', 0) if r2.random() < 0.75 else ('close', r2.randint(0, 3))
        fails, kind, cfe = [], 'filter', 0
        if r2.random() < 0.3:       # the mapped function fails on some value(s)
            fails = r2.sample(range(1, 7), r2.choice([1, 1, 2]))
            kind = r2.choice(['filter', 'other'])
            cfe = 1 if (kind == 'filter' and api == 'prefetch' and r2.random() < 0.6) else 0
        out.append(({'api': api, 'w': w, 'buf': r2.randint(w, 4), 'prog': p, 'fn_fail': fails,
                     'fail_kind': kind, 'cfe': cfe,
                     'stop': stop[0], 'stop_k': stop[1]}, r2.randrange(1 << 30)))
    return out


def _ds_job(job):
    cfg, seed = job
    if seed % 2:
        rec, sched = conc.run_ds(cfg, conc.sticky_chooser(seed, 0.7), pu_lines=True)
        rec['how'] = 'random-every-line'
    else:
        rec, sched = conc.run_ds(cfg, conc.random_chooser(seed))
        rec['how'] = 'random'
    return rec


BACKENDS = ['t', 'mp', 'dill_mp', 'multiprocessing', 'concurrent_mp']


def real_configs(rounds, rng):
    """Sampled real runs of every back end (uncontrolled: the OS schedules)."""
    base = [
        dict(api='prefetch', n=6, buf=2, w=2, fn_fail=[], fail_kind='filter', cfe=0, stop='exhaust', stop_k=0),
        dict(api='parmap', n=6, buf=3, w=2, fn_fail=[3], fail_kind='other', cfe=0, stop='exhaust', stop_k=0),
        dict(api='prefetch', n=8, buf=2, w=2, fn_fail=[2, 5], fail_kind='filter', cfe=1, stop='close', stop_k=2),
        dict(api='parmap', n=7, buf=3, w=3, fn_fail=[], fail_kind='filter', cfe=0, stop='close', stop_k=2),
        dict(api='prefetch', n=6, buf=2, w=2, fn_fail=[2, 5], fail_kind='filter', cfe=1, stop='exhaust', stop_k=0),
    ]
    out = []
    for b in BACKENDS:          # an EMPTY dataset through every back end
        out.append(dict(api='prefetch', n=0, buf=2, w=2, fn_fail=[], fail_kind='filter', cfe=0,
                        stop='exhaust', stop_k=0, backend=b, delays=[0.0, 0.0, 0.0]))
        out.append(dict(api='parmap', n=0, buf=2, w=2, fn_fail=[], fail_kind='filter', cfe=0,
                        stop='exhaust', stop_k=0, backend=b, delays=[0.0, 0.0, 0.0]))
    for r in range(rounds):
        for b in BACKENDS:
            for c in base:
                c = dict(c, backend=b, delays=[0.02, 0.0, 0.01])
                if r > 0:
                    c['n'] = rng.randint(4, 10)
                    c['buf'] = rng.randint(c['w'], 4)
                    c['delays'] = [rng.choice([0, 0.005, 0.02]) for _ in range(3)]
                    if c['fn_fail']:
                        c['fn_fail'] = sorted(rng.sample(range(1, c['n'] + 1), min(len(c['fn_fail']), c['n'])))
                    if c['stop'] == 'close':
                        c['stop_k'] = rng.randint(1, c['n'])
                out.append(c)
    return out


def _real_job(cfg):
    import tempfile
    from . import realpool
    d = tempfile.mkdtemp(prefix='verif-real-')
    try:
        rec = realpool.run(cfg, d)
    finally:
        import shutil
        shutil.rmtree(d, ignore_errors=True)
    rec['how'] = 'real-' + cfg['backend']
    return rec


def random_configs(rng, spec):
    out = []
    for i in range(spec['count']):
        n = rng.randint(*spec['n'])
        buf = rng.choice(spec['bufs'])
        kind = 'stp' if i % 2 == 0 else 'lpm'
        stop = rng.choice(['exhaust', 'exhaust', 'close', 'throw'])
        k = rng.randint(1, n) if stop != 'exhaust' else 0
        cfg = {'n': n, 'buf': buf, 'stop': stop, 'stop_k': k, 'fail_at': -1, 'fail_cls': 'none'}
        if kind == 'stp':
            if rng.random() < 0.3:
                cfg['fail_at'] = rng.randint(0, n)
                cfg['fail_cls'] = rng.choice(['exc', 'base'])
        else:
            w = rng.choice([x for x in spec['ws'] if x <= buf] or [1])
            cfg['w'] = w
            cfg['fn_fail'] = []
            r = rng.random()
            if r < 0.2:
                cfg['fn_fail'] = [rng.randint(1, n)]
            elif r < 0.35:
                cfg['fail_at'] = rng.randint(0, n)
                cfg['fail_cls'] = 'exc'
        out.append((kind, cfg, rng.randrange(1 << 30)))
    return out


STP_FIELDS = ('id', 'n', 'buf', 'fail_at', 'fail_cls', 'stop', 'stop_k', 'events', 'delivered',
              'end', 'alive', 'deadlock')
LPM_FIELDS = STP_FIELDS + ('w', 'fn_fail')
DS_FIELDS = ('id', 'api', 'n', 'buf', 'w', 'fn_fail', 'fail_kind', 'cfe', 'stop', 'stop_k', 'events',
             'delivered', 'end', 'alive', 'deadlock', 'len_ok', 'shape', 'seq', 'seq_out')


def explore(tier, res):
    t = TIERS[tier]
    rng = random.Random(common.seed())
    jobs_replay, info = [], []
    # (B)
    n, bufs = t['stp_cover']
    succ, states, st = state_graph('SingleThreadPrefetch.tla', EDGE_CFG_STP.format(maxn=n, bufs=bufs))
    res.add_tlc(st)
    paths = cover_paths(succ, states)
    for root, path in paths:
        jobs_replay.append(('stp', states[root]['cfg'], _spec_steps_to_schedule('stp', path)))
    info.append({'graph': 'SingleThreadPrefetch', 'states': len(states),
                 'edges': sum(len(v) for v in succ.values()), 'cover_paths': len(paths)})
    n, bufs, ws = t['lpm_cover']
    succ, states, st = state_graph('PoolMap.tla', EDGE_CFG_LPM.format(maxn=n, bufs=bufs, ws=ws))
    res.add_tlc(st)
    paths = cover_paths(succ, states)
    for root, path in paths:
        jobs_replay.append(('lpm', states[root]['cfg'], _spec_steps_to_schedule('lpm', path)))
    info.append({'graph': 'PoolMap', 'states': len(states),
                 'edges': sum(len(v) for v in succ.values()), 'cover_paths': len(paths)})
    # (C)
    n, bufs, budget = t['stp_dfs']
    jobs_dfs = [('stp', c, budget) for c in conc.stp_configs(n, bufs)]
    n, ws, bufs, budget = t['lpm_dfs']
    jobs_dfs += [('lpm', c, budget) for c in conc.lpm_configs(n, ws, bufs)]
    jobs_rand = random_configs(rng, t['rand'])
    dsp = t['ds']
    jobs_ds = [(c, rng.randrange(1 << 30)) for c in conc.ds_configs(dsp['maxn'], dsp['ws'], dsp['bufs'])
               for _ in range(dsp['seeds'])]
    jobs_ds += [(c, rng.randrange(1 << 30)) for c in conc.ds_big_configs(rng, dsp['big'])]
    jobs_real = real_configs(dsp['real_rounds'], rng)
    jobs_shared = shared_jobs(rng, dsp['shared'])
    with mp.get_context('fork').Pool(common.NCPU) as pool:
        r1 = pool.map_async(_replay_job, jobs_replay, chunksize=20)
        r2 = pool.map_async(_dfs_job, jobs_dfs, chunksize=1)
        r3 = pool.map_async(_rand_job, jobs_rand, chunksize=20)
        r4 = pool.map_async(_ds_job, jobs_ds, chunksize=20)
        r5 = pool.map_async(_shared_job, jobs_shared, chunksize=20)
        replayed = r1.get(1800)
        dfs = r2.get(3600)
        rand = r3.get(1800)
        dsrecs = r4.get(1800)
        shared = [r for r in r5.get(1800) if r is not None]
    # the real back ends fork their own pools: run them from a small pool of
    # fresh processes, a few at a time
    with mp.get_context('spawn').Pool(4) as pool:
        real = pool.map_async(_real_job, jobs_real, chunksize=1).get(3600)
    exhausted = sum(1 for _, ex in dfs if ex)
    info.append({'real_schedule_dfs_configs': len(jobs_dfs), 'exhausted_configs': exhausted,
                 'dfs_executions': sum(len(x) for x, _ in dfs), 'random_executions': len(rand),
                 'cover_replays': len(replayed),
                 'dataset_level_controlled': len(dsrecs),
                 'dataset_level_shared_pipeline_line_level': len(shared),
                 'real_backend_runs (sampling, OS-scheduled)': len(real)})
    res.coverage['exploration'] = info
    records = list(replayed) + [r for x, _ in dfs for r in x] + list(rand) + list(dsrecs) + shared + list(real)
    for r in records:           # TLA+ cannot take strings apart
        if r['end'].startswith('raised_other'):
            r['end_detail'] = r['end']
            r['end'] = 'raised_other'
    for i, r in enumerate(records):
        r['id'] = i + 1
    return records


def validate(records, res):
    verdicts = {}
    for kind, module, fields in (('stp', 'STPTrace', STP_FIELDS), ('lpm', 'LPMTrace', LPM_FIELDS),
                                 ('ds', 'DSTrace', DS_FIELDS)):
        sub = [{k: r[k] for k in fields} for r in records if r['kind'] == kind]
        v, st = pipeline.validate_records(sub, module=module + '.tla', cfg=module + '.cfg', chunk=2500)
        res.add_tlc(st)
        verdicts.update(v)
    return verdicts


def run(prop, tier):
    res = Result(prop, tier)
    try:
        design_level(tier, res)
        records = explore(tier, res)
        verdicts = validate(records, res)
    except tlc.TlcError as e:
        res.machinery_errors.append(str(e))
        return res.finish()
    res.coverage['traces_validated_against_impl'] = len(records)
    res.coverage['evaluations'] = len(records)
    by = collections.Counter()
    known = {}
    distinct = set()
    samples = []
    for r in records:
        v = verdicts[r['id']]
        status, clause = v[prop]
        by[f'{r["kind"]}:{status}:{clause}'] += 1
        if status == 'ok':
            distinct.add(json.dumps(r['events']))
            if len(samples) < 3 and len(distinct) % 400 == 1:
                samples.append({'kind': r['kind'],
                                'config': {k: r.get(k) for k in ('api', 'n', 'buf', 'w', 'stop', 'stop_k', 'fail_at', 'fail_cls', 'fn_fail')},
                                'how': r['how'], 'end': r['end'], 'delivered': r['delivered'],
                                'log': [f"{e['th']}:{e['op']}({e['a']},{e['b']})" for e in r['events']]})
        if r.get('diverged'):
            res.drift.append({'where': 'schedule of the specification cannot be followed',
                              'kind': r['kind'], 'detail': r['diverged']})
        elif v['conf'] != 0:
            res.drift.append({'where': f'event {v["conf"]} not explained by the specification',
                              'kind': r['kind'],
                              'config': {k: r.get(k) for k in ('n', 'buf', 'w', 'stop', 'stop_k', 'fail_at', 'fail_cls', 'fn_fail')}})
        kf = findings.match_conc(prop, clause, r) if status == 'viol' else None
        if kf is not None:
            known[kf['id']] = known.get(kf['id'], 0) + 1
            if known[kf['id']] == 1:
                res.known_finding(kf['id'], kf['what'])
        elif status == 'viol' and len(res.violations) < 25:
            res.violation(
                f'{clause} ({r["kind"]}/{r.get("api", "")}/{r.get("backend", "t")}: n={r["n"]} buf={r["buf"]} '
                f'w={r.get("w", 1)} stop={r["stop"]}@{r["stop_k"]} '
                f'fail={r.get("fail_cls", r.get("fail_kind"))}@{r.get("fail_at", r.get("fn_fail"))}, {r["how"]})',
                {'family': 'conc', 'kind': r['kind'],
                 'cfg': {k: r[k] for k in r if k in ('api', 'backend', 'n', 'buf', 'w', 'fail_at', 'fail_cls',
                                                      'fn_fail', 'fail_kind', 'cfe', 'stop', 'stop_k',
                                                      'prog', 'shape', 'seq', 'via', 'buf_api')},
                 'events': r['events'], 'end': r['end'], 'delivered': r['delivered'],
                 'deadlock': r['deadlock'], 'alive': r['alive'], 'verdict': [status, clause],
                 'how': 'controlled execution of the real threads, log judged by TLC'})
    res.coverage['distinct_nontrivial'] = len(distinct)
    res.coverage['verdicts'] = dict(by)
    res.coverage['known_finding_hits'] = known
    res.coverage['samples'] = samples or [{'note': 'no non-trivial execution'}]
    res.coverage['rule'] = (
        'one case = one controlled execution of the real single_thread_prefetch / '
        'lazy_parallel_map (configuration x thread schedule); distinct = distinct event logs; '
        'non-trivial = the verdict of this property on the log is "ok" (the property applies)')
    res.assumptions += [
        'the shim executor of harness/detsched.py models concurrent.futures.ThreadPoolExecutor '
        '(FIFO work queue, cancel only pending futures, exit waits for queued work)',
        'scheduling points: shim operations, source next(), function call/return, and every line '
        'of parallel_utils.py touching the closure cells shutdown / exc_info',
        'process back ends are not schedule-controlled (sampled separately)',
    ]
    return res.finish()


def replay(prop, path):
    with open(path) as f:
        rp = json.load(f)
    print(json.dumps({k: rp[k] for k in ('kind', 'cfg', 'end', 'delivered', 'deadlock', 'verdict')}))
    for e in rp['events']:
        print('  ', e['th'], e['op'], e['a'], e['b'])
    return 1
