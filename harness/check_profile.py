"""Check C20: the profiling wrapper (specs Profile.tla / ProfileTrace.tla)."""
import collections
import itertools
import json
import multiprocessing as mp
import random
import warnings

from . import common, findings, pipeline, tlc
from .check_demand import CFG, build_logged, short
from .common import Result
from .values import to_json

TIERS = {'quick': [(3, 2, None), (2, 3, 5000)], 'thorough': [(4, 2, None), (3, 3, None), (2, 4, 30000)]}


def _it(ds):
    items = []
    try:
        for x in ds:
            items.append(to_json(x))
            if len(items) > 500:
                return {'items': items[:5], 'exc': 'RUNAWAY'}
    except BaseException as e:
        return {'items': items, 'exc': type(e).__name__}
    return {'items': items, 'exc': 'none'}


def _obs(make):
    try:
        ds = make()
    except BaseException as e:
        return {'build': type(e).__name__, 'it1': {'items': [], 'exc': '-'}, 'it2': {'items': [], 'exc': '-'},
                'len': -2, 'gi': []}, None
    try:
        n = len(ds)
    except BaseException:
        n = -1
    it1 = _it(ds)
    gi = []
    for i in (range(-(n + 1), n + 1) if n >= 0 else range(-1, 2)):
        try:
            gi.append({'i': i, 'ok': True, 'v': to_json(ds[i]), 'exc': 'none'})
        except BaseException as e:
            gi.append({'i': i, 'ok': False, 'v': {'t': 'N'}, 'exc': type(e).__name__})
    it2 = _it(ds)
    return {'build': 'ok', 'it1': it1, 'it2': it2, 'len': n, 'gi': gi}, ds


def hits(prof):
    """hit counters of every wrapper along the chain, top first."""
    from lazy_dataset.core import ProfilingDataset
    out = []
    node = prof
    while isinstance(node, ProfilingDataset):
        out.append({'total': int(node.hit_count[0]), 'failed': int(node.hit_count[1])})
        inner = node.input_dataset
        if hasattr(inner, 'input_datasets'):
            node = inner.input_datasets[0]
        elif hasattr(inner, 'input_dataset'):
            node = inner.input_dataset
        else:
            node = None
    return out


def rng_states(ds, acc=None):
    """repr of the state of every numpy RandomState found in the pipeline."""
    acc = [] if acc is None else acc
    rng = getattr(ds, 'rng', None)
    if rng is not None and hasattr(rng, 'get_state'):
        st = rng.get_state()
        acc.append((st[0], st[1].tolist(), st[2]))
    if hasattr(ds, 'input_dataset'):
        rng_states(ds.input_dataset, acc)
    for s_ in getattr(ds, 'input_datasets', ()):
        rng_states(s_, acc)
    return acc


def graph_ids(ds, acc=None):
    """(id, class, id of the inputs) of every node reachable from ds."""
    acc = [] if acc is None else acc
    subs = []
    if hasattr(ds, 'input_dataset'):
        subs.append(ds.input_dataset)
    if hasattr(ds, 'input_datasets'):
        subs.extend(ds.input_datasets)
    acc.append((id(ds), type(ds).__name__, tuple(id(s) for s in subs)))
    for s in subs:
        graph_ids(s, acc)
    return acc


def record(rec):
    from lazy_dataset.core import ProfilingDataset
    prog, n, idx = rec['prog'], rec['n'], rec['idx']
    with warnings.catch_warnings():
        warnings.simplefilter('ignore')
        plain, ds = _obs(lambda: build_logged(prog, []))
        out = {'plain': plain, 'untouched': True, 'full': [], 'takes': [], 'gets': []}
        if ds is None:
            out['prof'] = plain
            return out
        before = graph_ids(ds)
        rng_before = rng_states(ds)
        # the wrapped twin is built exactly like the plain one (equal seeds)
        twin = build_logged(prog, [])
        prof, pds = _obs(lambda: ProfilingDataset(twin))
        # wrapping must not draw from the pipeline's generators
        fresh = build_logged(prog, [])
        r0 = rng_states(fresh)
        try:
            ProfilingDataset(fresh)
        except BaseException:
            pass
        if rng_states(fresh) != r0:
            out['untouched'] = False
        out['prof'] = prof
        if pds is None:
            return out
        after = graph_ids(ds)
        has_rng = bool(rng_before)
        plain_again, _ = (_obs(lambda: ds) if not has_rng else (plain, None))
        out['untouched'] = out['untouched'] and before == after and plain_again == plain
        # hit counters: a fresh wrapper per measurement
        node, background = prog, False
        while node['op'] not in ('list', 'dict'):
            background = background or node['op'] in ('prefetch', 'lpmap')
            node = node['in']
        try:
            p = ProfilingDataset(build_logged(prog, []))
            try:
                list(p)
            except Exception:
                pass                    # an injected failure: the counters still tell
            out['full'] = hits(p)
            for k in range(0, n + 1):
                p = ProfilingDataset(build_logged(prog, []))
                it = None
                try:
                    it = iter(p)
                    list(itertools.islice(it, k))
                except Exception:
                    pass
                # the report is read WHILE the iterator is still open (a loop that
                # prints the profile every n steps) - unless a stage has a background
                # thread, which may be in the middle of a fetch (counted when it starts)
                open_read = not background
                if open_read:
                    out['takes'].append({'k': k, 'hits': hits(p)})
                try:
                    if hasattr(it, 'close'):
                        it.close()
                except Exception:
                    pass
                if not open_read:
                    out['takes'].append({'k': k, 'hits': hits(p)})
            if idx:
                for i in range(n):
                    p = ProfilingDataset(build_logged(prog, []))
                    try:
                        p[i]
                    except BaseException:
                        pass
                    out['gets'].append({'i': i, 'hits': hits(p)})
        except BaseException:
            pass        # the transparency clauses already tell
    return out


def _job(chunk):
    return [record(r) for r in chunk]


def run(prop, tier):
    res = Result(prop, tier)
    rng = random.Random(common.seed())
    try:
        progs = {}
        info = []
        for n, d, budget in TIERS[tier]:
            wd = tlc.prepare()
            r = tlc.run('Demand.tla', 'MC.cfg', workdir=wd, cfg_text=CFG.format(n=n, d=d, shuffle='TRUE'), timeout=1800)
            if r['rc'] != 0 or r['errors']:
                raise tlc.TlcError('Demand.tla: ' + '\n'.join(r['errors'][:20]))
            res.add_tlc(r['stats'])
            found = sorted((tlc.json_payload(l, 'VEC') for l in r['tagged'].get('VEC', [])),
                           key=lambda v: json.dumps(v['prog'], sort_keys=True))
            if budget is not None and len(found) > budget:
                found = rng.sample(found, budget)
            for v in found:
                progs.setdefault(json.dumps(v['prog'], sort_keys=True), v)
            info.append({'MaxLen': n, 'Depth': d, 'programs': len(found), 'tlc': r['stats']})
        recs = list(progs.values())
        chunks = [recs[i:i + 40] for i in range(0, len(recs), 40)]
        with mp.get_context('fork').Pool(common.NCPU) as pool:
            outs = [x for c in pool.map_async(_job, chunks).get(1800) for x in c]
        records = [dict(o, id=i + 1, prog=r_['prog']) for i, (r_, o) in enumerate(zip(recs, outs))]
        verdicts, st = pipeline.validate_records(records, module='ProfileTrace.tla',
                                                 cfg='ProfileTrace.cfg', chunk=1500)
        res.add_tlc(st)
    except tlc.TlcError as e:
        res.machinery_errors.append(str(e))
        return res.finish()
    by = collections.Counter()
    known = {}
    nontrivial = 0
    samples = []
    for rec in records:
        status, clause = verdicts[rec['id']]['C20']
        by[f'{status}:{clause}'] += 1
        if status == 'ok':
            nontrivial += 1
            if len(samples) < 3 and nontrivial % 600 == 1:
                samples.append({'program': short(rec['prog']), 'hit_counts_full_iteration_top_first': rec['full']})
        if status == 'viol':
            kf = findings.match_profile(prop, clause, rec) if hasattr(findings, 'match_profile') else None
            if kf is not None:
                known[kf['id']] = known.get(kf['id'], 0) + 1
                if known[kf['id']] == 1:
                    res.known_finding(kf['id'], kf['what'] + ' e.g. ' + short(rec['prog']))
            elif len(res.violations) < 25:
                res.violation(f'{clause}: {short(rec["prog"])}',
                              {'family': 'profile', 'prog': rec['prog'],
                               'record': {k: rec[k] for k in ('plain', 'prof', 'untouched', 'full', 'takes', 'gets')},
                               'verdict': [status, clause]})
    res.coverage.update({
        'traces_validated_against_impl': len(records), 'evaluations': len(records),
        'distinct_nontrivial': nontrivial, 'verdicts': dict(by), 'configs': info,
        'known_finding_hits': known, 'samples': samples or [{'note': 'none'}],
        'rule': 'one case = one chain program TLC enumerated (Demand.tla), observed plain and under '
                'ProfilingDataset (iteration twice, len, ds[i] for all i), the original object graph compared '
                'before/after, hit counters read after a full iteration, after taking k results for every k, '
                'after ds[i] for every i; non-trivial = non-empty, not raising, verdict ok'})
    res.assumptions += ['TLC evaluates the TLA+ operators correctly',
                        'the fetch counts come from the demand machine of Demand.tla, itself validated '
                        'against real call logs by C08']
    return res.finish()


def replay(prop, path):
    rp = json.load(open(path))
    print(short(rp['prog']), rp['verdict'])
    return 1
