"""Check C12 "Every shuffle is a permutation, for every iterator in flight",
decided with specs Random.tla / RandomTrace.tla.

  spec -> code : TLC enumerates (BFS, Random.tla) every dataset size, buffer
                 size, every answer of every rng call and every interleaving
                 of the next() calls of the iterators over ONE dataset object;
                 each behaviour is replayed on the real classes with a scripted
                 duck-typed generator and the same interleaving on real
                 iterators;
  code -> spec : every real execution (TLC's behaviours, real numpy generators
                 with random longer schedules, self-zip / self-intersperse
                 compositions) is written as one ndjson record with the rng
                 calls the REAL code made, and judged by TLC (RandomTrace.tla):
                 V_C12 on the real outputs + conformance with the model.
"""
import json
import multiprocessing as mp
import random
from concurrent.futures import ThreadPoolExecutor
from unittest import mock

import numpy as np

from . import common, tlc
from .common import Result
from .pipeline import validate_records

NOC = 99
SRC0 = 100          # example at source position p is the int SRC0 + p


# --------------------------------------------------------------------------
# generators handed to the real code

def _apply(arr, sg):
    idx = [i - 1 for i in sg]
    if isinstance(arr, np.ndarray):
        arr[:] = arr[idx] if idx else arr[:0]
    else:
        arr[:] = [arr[i] for i in idx]


def _derive(before, after):
    """position permutation sg (1-based) with after[i] = before[sg[i]]"""
    pos = {}
    for i, v in enumerate(before):
        pos.setdefault(v, []).append(i + 1)
    return [pos[v].pop(0) for v in after]


class Script:
    """Duck-typed rng: answers are the ones TLC chose.  `slot` is the answer
    for the rng call of the current next() call; `fifo` answers shuffle calls
    in order (build time, compositions).  Every call is logged."""

    def __init__(self, fifo=(), sel=None):
        self.fifo = [list(p) for p in fifo]
        self.sel = sel
        self.slot = None
        self.calls = []
        self.replace_asked = None

    def shuffle(self, arr):
        m = len(arr)
        sg = None
        if self.slot is not None and self.slot['rc'] == 'shuffle':
            sg, self.slot = self.slot['sg'], None
        elif self.fifo:
            sg = self.fifo.pop(0)
        if sg is None or len(sg) != m:
            # the code asks something TLC did not script: answer with the
            # identity (a legal answer) - the logged call shows the deviation
            sg = list(range(1, m + 1))
        _apply(arr, sg)
        self.calls.append({'rc': 'shuffle', 'm': m, 'sg': list(sg), 'c': NOC})

    def choice(self, a, size=None, replace=True, p=None):
        if size is None:
            c = None
            if self.slot is not None and self.slot['rc'] == 'choice':
                c, self.slot = self.slot['c'], None
            if c is None or not 0 <= c < a:
                c = 0
            self.calls.append({'rc': 'choice', 'm': int(a), 'sg': [], 'c': int(c)})
            return c
        self.replace_asked = bool(replace)
        self.calls.append({'rc': 'choiceN', 'm': int(a), 'size': int(size),
                           'replace': bool(replace), 'sel': list(self.sel)})
        return np.array(self.sel, dtype=np.int64)


class Extreme(Script):
    """Adversarial legal answers: always the largest (or smallest) value the
    code asked for, rotation as shuffle."""

    def __init__(self, high):
        super().__init__()
        self.high = high

    def shuffle(self, arr):
        m = len(arr)
        sg = list(range(m, 0, -1)) if self.high else list(range(1, m + 1))
        _apply(arr, sg)
        self.calls.append({'rc': 'shuffle', 'm': m, 'sg': sg, 'c': NOC})

    def choice(self, a, size=None, replace=True, p=None):
        c = a - 1 if self.high else 0
        self.calls.append({'rc': 'choice', 'm': int(a), 'sg': [], 'c': int(c)})
        return c


class Recorder:
    """A REAL numpy generator (RandomState / Generator / the np.random module)
    whose answers are recorded in the vocabulary of the spec."""

    def __init__(self, real):
        self.real = real
        self.calls = []
        self.replace_asked = None
        self.slot = None

    def shuffle(self, arr):
        before = [int(x) if isinstance(x, (int, np.integer)) else x for x in arr]
        self.real.shuffle(arr)
        after = [int(x) if isinstance(x, (int, np.integer)) else x for x in arr]
        self.calls.append({'rc': 'shuffle', 'm': len(before),
                           'sg': _derive(before, after), 'c': NOC})

    def choice(self, a, size=None, replace=True, p=None):
        r = self.real.choice(a, size=size, replace=replace)
        if size is None:
            self.calls.append({'rc': 'choice', 'm': int(a), 'sg': [], 'c': int(r)})
        else:
            self.replace_asked = bool(replace)
            self.calls.append({'rc': 'choiceN', 'm': int(a), 'size': int(size),
                               'replace': bool(replace), 'sel': [int(x) for x in r]})
        return r


# --------------------------------------------------------------------------
# building and driving the real objects

class Infeasible(Exception):
    """TLC's behaviour needs an rng answer the real call cannot receive
    (e.g. a selection with repeats although the code asked replace=False)."""


def source(n, keyed=False):
    import lazy_dataset
    if keyed:
        return lazy_dataset.new({'abcdefghij'[p]: SRC0 + p for p in range(n)})
    return lazy_dataset.new([SRC0 + p for p in range(n)])


def build(sc, rng, keyed=False):
    """The real dataset object of scenario `sc`; returns (dataset, sc') where
    sc' carries the build-time answers the generator REALLY gave."""
    ds = source(sc['n'], keyed)
    kind = sc['kind']
    sc = dict(sc)
    if kind == 'reshuffle':
        return ds.shuffle(True, rng=rng), sc
    if kind == 'frozen':
        # catch() freezes its input at the start of every iteration
        return ds.shuffle(True, rng=rng).catch(), sc
    if kind == 'local':
        return ds.shuffle(True, rng=rng, buffer_size=sc['bs']), sc
    if kind == 'once':
        out = ds.shuffle(False, rng=rng)
    elif kind == 'tile':
        # tile(shuffle=True) has no rng parameter: it draws from the global
        # numpy generator through the attribute np.random.shuffle
        with mock.patch.object(np.random, 'shuffle', rng.shuffle):
            out = ds.tile(sc['reps'], shuffle=True)
    elif kind == 'choice':
        out = ds.random_choice(sc['size'], replace=False, rng_state=rng)
        call = rng.calls[-1] if rng.calls else None
        if call is None or call['rc'] != 'choiceN':
            sc['sel'], sc['repl'] = [], False
        else:
            if isinstance(rng, Script) and call['replace'] != sc['repl']:
                raise Infeasible()
            sc['sel'], sc['repl'] = call['sel'], call['replace']
        rng.calls = []
        return out, sc
    else:
        raise ValueError(kind)
    sc['bp'] = [c['sg'] for c in rng.calls if c['rc'] == 'shuffle']
    rng.calls = []
    return out, sc


def pos_of(v):
    if isinstance(v, tuple) and len(v) == 2 and isinstance(v[0], str):
        v = v[1]                      # (key, example) of .items()
    if isinstance(v, (int, np.integer)) and 0 <= int(v) - SRC0 < 900:
        return int(v) - SRC0
    return 999                        # not an example of the source


def step_record(i, calls):
    if not calls:
        return {'it': i, 'rc': 'none', 'sg': [], 'c': NOC}
    if len(calls) > 1 or calls[0]['rc'] not in ('shuffle', 'choice'):
        return {'it': i, 'rc': 'multi', 'sg': [], 'c': NOC}
    c = calls[0]
    return {'it': i, 'rc': c['rc'], 'sg': c['sg'], 'c': c['c']}


def drive(sc, sched, rng, answers=None):
    """Build the dataset of `sc` with generator `rng`, open sc['k'] real
    iterators over the ONE object and make the next() calls of `sched`
    (1-based iterator numbers).  Returns the trace record body."""
    ds, sc = build(sc, rng)
    k = sc['k']
    iters = [iter(ds) for _ in range(k)]
    outs = [[] for _ in range(k)]
    fin = [False] * k
    exc = ['none'] * k
    hist = []
    for j, i in enumerate(sched):
        if fin[i - 1] or exc[i - 1] != 'none':
            continue
        rng.slot = answers[j] if answers is not None else None
        rng.calls = []
        try:
            outs[i - 1].append(pos_of(next(iters[i - 1])))
        except StopIteration:
            fin[i - 1] = True
        except Exception as e:     # the iteration itself failed
            exc[i - 1] = type(e).__name__
        hist.append(step_record(i, rng.calls))
    return {'sc': sc, 'hist': hist, 'obs': {'outs': outs, 'fin': fin, 'exc': exc}}


def replay_vec(vec):
    """spec -> code: one TLC behaviour on the real classes."""
    sc = vec['sc']
    rng = Script(fifo=sc['bp'], sel=sc['sel'])
    try:
        body = drive(sc, [h['it'] for h in vec['hist']], rng, answers=vec['hist'])
    except Infeasible:
        return None
    body['how'] = 'tlc-behaviour'
    return body


def compose(form, n, rng, keyed=False):
    """self-zip / self-intersperse of ONE reshuffled dataset object: the
    library itself interleaves the next() calls."""
    sc = {'kind': 'reshuffle', 'n': n, 'bs': 0, 'k': 3 if form == 'zip3' else 2,
          'reps': 0, 'size': 0, 'bp': [], 'sel': [], 'repl': False}
    k = sc['k']
    ds = source(n, keyed).shuffle(True, rng=rng)
    outs = [[] for _ in range(k)]
    exc = 'none'
    if form in ('zip', 'zip3'):
        comp = ds.zip(*([ds] * (k - 1)))
        sched = list(range(1, k + 1)) * n + [1]      # zip(): the first iterator ends it
        fin = [True] + [False] * (k - 1)
    else:
        comp = ds.intersperse(ds)
        if form == 'intersperse-items':
            comp = comp.items()
        sched = [1, 2] * n                           # order (j+1)/n, part, j
        fin = [False, False]
    try:
        got = list(comp)
    except Exception as e:
        got, exc = [], type(e).__name__
    if form in ('zip', 'zip3'):
        for t in got:
            for i in range(k):
                outs[i].append(pos_of(t[i]))
    else:
        for j, v in enumerate(got):
            outs[j % 2].append(pos_of(v))
    if exc != 'none':
        fin = [False] * k
    shuffles = [c for c in rng.calls]
    hist, seen = [], set()
    for i in sched:
        if i not in seen:
            seen.add(i)
            hist.append(step_record(i, [shuffles.pop(0)] if shuffles else []))
        else:
            hist.append(step_record(i, []))
    if shuffles and hist:
        hist[-1] = step_record(hist[-1]['it'], [hist[-1]] + shuffles)
    return {'sc': sc, 'hist': hist,
            'obs': {'outs': outs, 'fin': fin, 'exc': [exc] + ['none'] * (k - 1)},
            'how': f'composition:{form}' + (':dict' if keyed else '')}


# --------------------------------------------------------------------------
# TLC enumeration

def cfg(maxn, niter, kinds, maxreps=2, invs=('EmitBehaviour', 'EmitCex', 'DesignC12ModuloS7')):
    ks = ', '.join(f'"{k}"' for k in kinds)
    inv = '\n'.join(f'INVARIANT {i}' for i in invs)
    return (f'CONSTANTS\n  MaxN = {maxn}\n  NIter = {niter}\n  Kinds = {{{ks}}}\n'
            f'  MaxReps = {maxreps}\nSPECIFICATION Spec\n{inv}\nCHECK_DEADLOCK FALSE\n')


# (name, MaxN, iterators, kinds, tile reps)
TIERS = {
    'quick': {
        'bfs': [('reshuffle-n3-2it', 3, 2, ['reshuffle'], 1),
                ('frozen-n3-2it', 3, 2, ['frozen'], 1),
                ('local-n3-2it', 3, 2, ['local'], 1),
                ('once-n3-2it', 3, 2, ['once'], 1),
                ('tile-choice-n3', 3, 1, ['tile', 'choice'], 2)],
        'seeds': 250, 'seed_maxn': 8, 'validate_budget': None,
    },
    'thorough': {
        'bfs': [('reshuffle-n4-2it', 4, 2, ['reshuffle'], 1),
                ('reshuffle-n2-3it', 2, 3, ['reshuffle'], 1),
                ('frozen-n4-2it', 4, 2, ['frozen'], 1),
                ('frozen-n2-3it', 2, 3, ['frozen'], 1),
                ('local-n2-3it', 2, 3, ['local'], 1),
                ('local-n4-1it', 4, 1, ['local'], 1),
                ('local-n3-2it', 3, 2, ['local'], 1),
                ('once-n4-2it', 4, 2, ['once'], 1),
                ('choice-n4', 4, 1, ['choice'], 1),
                ('tile-n3-r3', 3, 1, ['tile'], 3)],
        'seeds': 4000, 'seed_maxn': 12, 'validate_budget': 200000,
    },
}


def _enumerate(job):
    name, maxn, niter, kinds, reps, workers = job
    d = tlc.prepare(tag='-' + name)
    r = tlc.run('Random.tla', 'MC_gen.cfg', workdir=d, cfg_text=cfg(maxn, niter, kinds, reps),
                timeout=3000, workers=workers)
    if r['rc'] != 0 or r['errors']:
        raise tlc.TlcError(f'Random.tla [{name}]: rc={r["rc"]}\n' + '\n'.join(r['errors'][:30]))
    vecs = [tlc.json_payload(x, 'VEC') for x in r['tagged'].get('VEC', [])]
    cex = [tlc.json_payload(x, 'CEX') for x in r['tagged'].get('CEX', [])]
    return name, vecs, cex, r['stats']


def _design_repaired(workers):
    """Design level, repaired tree: with S7 out of Unfixed the model must
    satisfy C12 in every reachable state."""
    others = [u for u in common.unfixed_ids() if u != 'S7']
    d = tlc.prepare(others, tag='-repaired')
    r = tlc.run('Random.tla', 'MC_rep.cfg', workdir=d, workers=workers, timeout=3000,
                cfg_text=cfg(3, 2, ['reshuffle'], invs=('DesignC12',)))
    return {'config': 'reshuffle n<=3, 2 iterators, "S7" not in Unfixed (own copy per iterator)',
            'holds': r['rc'] == 0 and not r['errors'], 'rc': r['rc'], 'tlc': r['stats'],
            'errors': r['errors'][:3]}


def _replay_chunk(vecs):
    return [replay_vec(v) for v in vecs]


def replay_all(vecs, chunk=2000):
    if len(vecs) <= 3 * chunk:
        return _replay_chunk(vecs)
    chunks = [vecs[i:i + chunk] for i in range(0, len(vecs), chunk)]
    with mp.get_context('fork').Pool(common.NCPU) as pool:
        out = pool.map_async(_replay_chunk, chunks).get(3000)
    return [b for c in out for b in c]


# --------------------------------------------------------------------------
# real generators on top

def seeded_runs(count, maxn, rnd):
    """Real numpy generators, larger datasets, random interleavings, iterators
    abandoned at random points."""
    out = []
    kinds = ['reshuffle', 'frozen', 'local', 'once', 'tile', 'choice']
    for t in range(count):
        kind = kinds[t % len(kinds)]
        n = rnd.randint(0, maxn)
        seed = rnd.randrange(2 ** 31)
        gen = rnd.choice(['RandomState', 'default_rng', 'global'])
        k = rnd.choice([1, 2, 2, 3]) if kind in ('reshuffle', 'frozen', 'local', 'once') else 1
        sc = {'kind': kind, 'n': n, 'bs': 0, 'k': k, 'reps': 0, 'size': 0,
              'bp': [], 'sel': [], 'repl': False}
        if kind == 'local':
            sc['bs'] = rnd.randint(1, n + 1)
        if kind == 'tile':
            sc['reps'] = rnd.randint(1, 3)
            gen = 'global'
        if kind == 'choice':
            sc['size'] = rnd.randint(0, n)
        if gen == 'RandomState':
            real = np.random.RandomState(seed)
        elif gen == 'default_rng':
            real = np.random.default_rng(seed)
        else:
            np.random.seed(seed)
            real = np.random.mtrand._rand          # the generator behind np.random.*
        rng = Recorder(real)
        total = (sc['reps'] * n if kind == 'tile' else sc['size'] if kind == 'choice' else n) + 1
        sched = [i for i in range(1, k + 1) for _ in range(total)]
        rnd.shuffle(sched)
        if rnd.random() < 0.3:
            sched = sched[:rnd.randint(0, len(sched))]      # abandon the iterators
        body = drive(sc, sched, rng)
        body['how'] = f'numpy:{gen}:{seed}'
        out.append(body)
    for high in (False, True):                  # extreme legal answers
        for n in range(0, maxn + 1):
            for bs in range(1, n + 2):
                sc = {'kind': 'local', 'n': n, 'bs': bs, 'k': 1, 'reps': 0, 'size': 0,
                      'bp': [], 'sel': [], 'repl': False}
                body = drive(sc, [1] * (n + 1), Extreme(high))
                body['how'] = f'extreme:{"high" if high else "low"}'
                out.append(body)
    return out


def compositions(vecs, count, maxn, rnd, three):
    """self-zip / self-intersperse: every pair (triple) of permutations TLC
    chose for the iterators of one reshuffled object + real generators."""
    out = []
    answers = {}
    for v in vecs:
        if v['sc']['kind'] != 'reshuffle':
            continue
        first = {}
        for h in v['hist']:
            if h['rc'] == 'shuffle' and h['it'] not in first:
                first[h['it']] = h['sg']
        key = (v['sc']['n'], tuple(tuple(first[i]) for i in sorted(first)))
        answers[key] = True
    forms = ['zip', 'intersperse', 'intersperse-items']
    for (n, perms) in sorted(answers):
        for form in forms + (['zip3'] if three and len(perms) == 3 else []):
            if form.startswith('intersperse') and n == 0:
                continue                   # intersperse refuses empty datasets
            if form != 'zip3' and len(perms) != 2:
                continue
            keyed = form == 'intersperse-items'
            out.append(compose(form, n, Script(fifo=perms), keyed))
    for t in range(count):
        form = (forms + ['zip3'])[t % 4]
        n = rnd.randint(1, maxn)
        seed = rnd.randrange(2 ** 31)
        real = np.random.RandomState(seed) if t % 2 else np.random.default_rng(seed)
        body = compose(form, min(n, 10) if form == 'intersperse-items' else n,
                       Recorder(real), form == 'intersperse-items')
        body['how'] += f':numpy:{seed}'
        out.append(body)
    return out


# --------------------------------------------------------------------------

def short(rec):
    sc = rec['sc']
    desc = {'reshuffle': f'new(range({sc["n"]})).shuffle(True, rng)',
            'frozen': f'new(range({sc["n"]})).shuffle(True, rng).catch()',
            'local': f'new(range({sc["n"]})).shuffle(True, rng, buffer_size={sc["bs"]})',
            'once': f'new(range({sc["n"]})).shuffle(False, rng) perm={sc["bp"]}',
            'tile': f'new(range({sc["n"]})).tile({sc["reps"]}, shuffle=True) perms={sc["bp"]}',
            'choice': f'new(range({sc["n"]})).random_choice({sc["size"]}, replace=False) '
                      f'rng answered {sc["sel"]}'}[sc['kind']]
    steps = ' '.join(
        'it%d.next()%s' % (h['it'], '[shuffle->%s]' % h['sg'] if h['rc'] == 'shuffle'
                           else '[choice->%d]' % h['c'] if h['rc'] == 'choice' else '')
        for h in rec['hist'])
    return f'{desc}; {sc["k"]} iterator(s): {steps} => yielded positions {rec["obs"]["outs"]}'


def s7_open():
    return any(f['id'] == 'S7' and f['status'] == 'open'
               for f in common.load_findings()['findings'])


BIG = {'quick': [257, 300, 1000], 'thorough': [257, 300, 1000, 5000, 65537, 70000]}


def _flat(x, acc):
    if isinstance(x, (list, tuple)):
        for y in x:
            _flat(y, acc)
    else:
        acc.append(int(x))


class _BigTimeout(BaseException):
    pass


def _big_job(job):
    """_big_job_inner under an alarm: an execution that does not come back
    within 60 s is the observation exc = 'HANG'."""
    import signal

    def alarm(*_):
        raise _BigTimeout()
    old = signal.signal(signal.SIGALRM, alarm)
    signal.setitimer(signal.ITIMER_REAL, 60.0)
    try:
        return _big_job_inner(job)
    except _BigTimeout:
        form, n, b, seed = job
        return {'form': form, 'n': n, 'b': b, 'size': n, 'drop': [], 'epochs': [], 'exc': 'HANG',
                'seed': seed}
    finally:
        signal.setitimer(signal.ITIMER_REAL, 0)
        signal.signal(signal.SIGALRM, old)


def _big_job_inner(job):
    """One real execution at a large size, a real numpy generator, 2 epochs."""
    import warnings
    import numpy as np
    import lazy_dataset
    form, n, b, seed = job
    rec = {'form': form, 'n': n, 'b': b, 'size': n, 'drop': [], 'epochs': [], 'exc': 'none',
           'seed': seed}
    rng = np.random.RandomState(seed)
    try:
        with warnings.catch_warnings():
            warnings.simplefilter('ignore')
            src = lazy_dataset.new(list(range(n)))
            if form == 'reshuffle':
                ds = src.shuffle(True, rng=rng)
            elif form == 'batch-reshuffle':
                ds = src.batch(b).shuffle(True, rng=rng)
            elif form == 'reshuffle-batch':
                ds = src.shuffle(True, rng=rng).batch(b)
            elif form == 'batch-once':
                ds = src.batch(b).shuffle(False, rng=rng)
            elif form == 'once':
                ds = src.shuffle(False, rng=rng)
            elif form == 'frozen':
                ds = src.batch(b).shuffle(True, rng=rng).copy(freeze=True)
            elif form == 'local':
                ds = src.shuffle(True, rng=rng, buffer_size=max(2, n // 3))
            elif form == 'tile':
                np.random.seed(seed)
                ds = src.tile(2, shuffle=True)
                rec['size'] = 2 * n
            elif form == 'choice':
                rec['size'] = n // 2
                ds = src.random_choice(n // 2, replace=False, rng_state=rng)
            elif form == 'interleaved-prefetch':
                pass
            elif form == 'stop-then-epoch':
                # an iteration through the prefetch thread that is stopped early
                # (close / dropped / exception in the consumer), some other thread
                # alive, then complete epochs over the same dataset object
                import threading
                import time
                keyed = lazy_dataset.new({f'k{i:03d}': i for i in range(n)})
                ds = keyed.shuffle(True, rng=rng).prefetch(1, 2)
                view = ds.items() if b else ds
                it = iter(view)
                next(it)
                if seed % 3 == 0:
                    it.close()
                elif seed % 3 == 1:
                    del it
                else:
                    try:
                        it.throw(KeyError('consumer failed'))
                    except KeyError:
                        pass
                helper = threading.Thread(target=time.sleep, args=(3.0,), daemon=True)
                helper.start()
                ds = view.map(lambda kv: kv[1]) if b else view
            elif form in ('catch-reshuffle', 'prefetch-catch-reshuffle'):
                # a failing map below catch(), a per-epoch reshuffle below that:
                # every epoch drops exactly the failing examples, wherever they
                # are in this epoch's order
                rec['drop'] = sorted({1 % n, n // 2, n - 1})
                rec['size'] = n - len(rec['drop'])

                def fails(x, bad=frozenset(rec['drop'])):
                    if x in bad:
                        raise lazy_dataset.FilterException(x)
                    return x
                ds = src.shuffle(True, rng=rng).map(fails)
                ds = ds.catch() if form == 'catch-reshuffle' else \
                    ds.prefetch(2, 4, catch_filter_exception=True)
            else:
                raise ValueError(form)
            if form == 'interleaved-prefetch':
                # two iterators in flight over ONE reshuffle().prefetch(2, 2, backend)
                # object (b = 0: threads, b = 1: 'dill_mp' - the frozen copy of each
                # iteration is pickled for every task)
                ds = src.shuffle(True, rng=rng).prefetch(2, 2, backend='dill_mp' if b else 't')
                it1 = iter(ds)
                a1 = [next(it1), next(it1)]
                it2 = iter(ds)
                a2 = []
                for x, y in zip(it1, it2):
                    a1.append(x)
                    a2.append(y)
                a2 += list(it2)
                a1 += list(it1)
                rec['epochs'] = [[int(v) for v in a1], [int(v) for v in a2]]
                return rec
            for _ in range(3 if rec['drop'] else 2):
                acc = []
                for x in ds:
                    _flat(x, acc)
                rec['epochs'].append(acc)
    except BaseException as e:      # noqa: the class is the observation
        rec['exc'] = type(e).__name__
    return rec


def big_sizes(tier, res):
    """C12 above 2^8 / 2^16 examples (real generators, code -> spec only)."""
    jobs = []
    for n in (2, 3, 5, 8, 13):
        for form in ('catch-reshuffle', 'prefetch-catch-reshuffle'):
            for s_ in range(3 if tier == 'quick' else 12):
                jobs.append((form, n, 0, common.seed() + 100 * n + s_))
    for s_ in range(2 if tier == 'quick' else 8):
        for b in (0, 1):
            jobs.append(('interleaved-prefetch', 24, b, common.seed() + 7000 + s_))
    for s_ in range(3 if tier == 'quick' else 12):
        for b in (0, 1):
            jobs.append(('stop-then-epoch', 7, b, common.seed() + 7100 + s_))
    for n in BIG[tier]:
        for form in ('reshuffle', 'batch-reshuffle', 'reshuffle-batch', 'batch-once', 'once',
                     'frozen', 'local', 'tile', 'choice'):
            for b in ((4, 5) if 'batch' in form or form == 'frozen' else (0,)):
                jobs.append((form, n, b, common.seed() + n + b))
    # (jobs that start process pools cannot run inside a daemonic pool worker)
    own = [j for j in jobs if j[0] == 'interleaved-prefetch' and j[2] == 1]
    jobs = [j for j in jobs if j not in own]
    # one task per execution; an execution that hangs where not even the alarm
    # gets through (inside a finalizer, exceptions are swallowed there) is found
    # by lack of progress: 90 s without any task finishing
    import time
    with mp.get_context('fork').Pool(min(common.NCPU, 8)) as pool:
        pending = {i: pool.apply_async(_big_job, (j,)) for i, j in enumerate(jobs)}
        done, last = {}, time.time()
        while pending and time.time() - last < 90:
            for i in [i for i, r in pending.items() if r.ready()]:
                done[i] = pending.pop(i).get()
                last = time.time()
            time.sleep(0.2)
        for i in pending:
            form, n, b, seed = jobs[i]
            done[i] = {'form': form, 'n': n, 'b': b, 'size': n, 'drop': [], 'epochs': [],
                       'exc': 'HANG', 'seed': seed}
        pool.terminate()
    recs = [done[i] for i in range(len(jobs))]
    recs += [_big_job(j) for j in own]
    for i, r in enumerate(recs):
        r['id'] = i + 1
    try:
        verdicts, st = validate_records(
            [{k: r[k] for k in ('id', 'form', 'n', 'b', 'size', 'drop', 'epochs', 'exc')} for r in recs],
            module='RandomBigTrace.tla', cfg='RandomBigTrace.cfg', chunk=16)
    except tlc.TlcError as e:
        res.machinery_errors.append(str(e))
        return
    res.add_tlc(st)
    bad = 0
    for r in recs:
        status, clause = verdicts[r['id']]['C12']
        if status == 'viol':
            bad += 1
            res.violation(f'{clause}: {r["form"]} over {r["n"]} examples'
                          + (f', batch size {r["b"]}' if r['b'] else '') + f', seed {r["seed"]}',
                          {'family': 'random-big', 'job': [r['form'], r['n'], r['b'], r['seed']],
                           'exc': r['exc'], 'epoch_sizes': [len(e) for e in r['epochs']],
                           'verdict': [status, clause]})
    res.coverage['large_sizes'] = {'executions': len(recs), 'sizes': BIG[tier], 'violating': bad,
                                   'forms': sorted({r['form'] for r in recs}),
                                   'rule': 'real numpy generator, 2 epochs, TLC (RandomBigTrace.tla) '
                                           'checks that every epoch holds every example exactly once'}


def run(prop, tier):
    assert prop == 'C12'
    res = Result(prop, tier)
    plan = TIERS[tier]
    rnd = random.Random(common.seed())
    par = min(4, len(plan['bfs']))
    workers = max(2, common.NCPU // (par + 1))
    jobs = [(n, a, b, c, d, workers) for (n, a, b, c, d) in plan['bfs']]
    vecs, cexs, info = [], [], []
    try:
        with ThreadPoolExecutor(par + 1) as ex:
            rep = ex.submit(_design_repaired, workers)
            for name, v, cx, st in ex.map(_enumerate, jobs):
                res.add_tlc(st)
                info.append({'config': name, 'behaviours': len(v), 'tlc': st,
                             'model_flagged': sum(1 for x in v if x['mv'][0] == 'viol')})
                vecs += v
                cexs += cx
            repaired = rep.result()
    except tlc.TlcError as e:
        res.machinery_errors.append(str(e))
        return res.finish()
    res.add_tlc(repaired['tlc'])
    # design level: what TLC decides on the model
    design = {'repaired': repaired, 'original_refuted': bool(cexs)}
    if cexs:
        m = min(cexs, key=lambda c: (len(c['hist']), c['sc']['n']))
        design['minimal_counterexample'] = short({'sc': m['sc'], 'hist': m['hist'], 'obs': m['mo']})
        design['clause'] = m['mv'][1]
        design['violating_states_up_to_depth_4'] = len(cexs)
    res.coverage['design'] = design
    if not repaired['holds']:
        res.machinery_errors.append('design: the repaired model violates C12: %r' % repaired)
    # spec -> code
    bodies = replay_all(vecs)
    records, models = [], {}
    infeasible = 0
    for v, b in zip(vecs, bodies):
        if b is None:
            infeasible += 1
            continue
        b['id'] = len(records) + 1
        models[b['id']] = v
        records.append(b)
    n_tlc = len(records)
    for b in seeded_runs(plan['seeds'], plan['seed_maxn'], rnd) + \
            compositions(vecs + cexs, plan['seeds'] // 2, plan['seed_maxn'], rnd,
                         three=(tier == 'thorough')):
        b['id'] = len(records) + 1
        records.append(b)
    # code -> spec.  Budget (thorough only): the behaviours the model flags, the
    # ones whose real outputs differ from the model's, and a seeded sample of
    # the rest go to TLC; real generators / compositions always do.
    budget = plan['validate_budget']
    chosen = records
    if budget is not None and n_tlc > budget:
        must, rest = [], []
        for r in records[:n_tlc]:
            v = models[r['id']]
            (must if v['mv'][0] == 'viol' or v['mo'] != r['obs'] else rest).append(r)
        chosen = must + rnd.sample(rest, max(0, budget - len(must))) + records[n_tlc:]
        chosen.sort(key=lambda r: r['id'])
    payload = [{'id': r['id'], 'sc': r['sc'], 'hist': r['hist'], 'obs': r['obs']} for r in chosen]
    try:
        verdicts, st = validate_records(payload, module='RandomTrace.tla', cfg='RandomTrace.cfg')
    except tlc.TlcError as e:
        res.machinery_errors.append(str(e))
        return res.finish()
    res.add_tlc(st)
    res.coverage['configs'] = info
    res.coverage['traces_validated_against_impl'] = len(chosen)
    res.coverage['evaluations'] = len(chosen)
    res.coverage['replayed_on_real_code'] = len(records)
    res.coverage['infeasible_for_the_code'] = infeasible
    by_clause, by_how, samples = {}, {}, []
    nontrivial = 0
    known = suppressed = 0
    per_clause = {}
    for r in chosen:
        v = verdicts[r['id']]
        status, clause = v['C12']
        by_clause[f'{status}:{clause}'] = by_clause.get(f'{status}:{clause}', 0) + 1
        how = r['how'].split(':')[0] + (':' + r['how'].split(':')[1] if r['how'].startswith('comp') else '')
        by_how[how] = by_how.get(how, 0) + 1
        if status == 'ok':
            nontrivial += 1
            if len(samples) < 4 and r['id'] % 701 == 0:
                samples.append({'execution': short(r), 'verdict': 'ok', 'how': r['how']})
        if v['conf'] != 'conforms':
            res.drift.append({'where': v['conf'], 'at_step': v['at'], 'execution': short(r),
                              'how': r['how']})
        mv = models[r['id']]['mv'] if r['id'] in models else None
        if status == 'viol':
            # the verdict clause carries the classification: a violation is S7
            # exactly when another iterator over the same ReShuffleDataset was
            # opened while the violating one was in flight
            if clause.startswith('S7:') and s7_open():
                known += 1
                if known == 1:
                    res.known_finding('S7', 'two iterators in flight over one ReShuffleDataset '
                                      'corrupt each other, e.g. ' + short(r))
                if len(samples) < 6 and known <= 2:
                    samples.append({'execution': short(r), 'verdict': clause, 'how': r['how']})
            elif per_clause.get(clause, 0) < 5 and len(res.violations) < 40:
                per_clause[clause] = per_clause.get(clause, 0) + 1
                res.violation(f'{clause}: {short(r)}',
                              {'family': 'random', 'record': r, 'verdict': [status, clause],
                               'model_verdict': mv,
                               'how': 'real execution judged by TLC (RandomTrace.tla)'})
            else:
                suppressed += 1
        elif mv and mv[0] == 'viol':
            res.drift.append({'where': 'model-verdict', 'execution': short(r), 'model': mv})
    res.coverage['samples'] = samples
    res.coverage['distinct_nontrivial'] = nontrivial
    res.coverage['verdicts'] = by_clause
    res.coverage['executions_by_origin'] = by_how
    res.coverage['known_finding_hits'] = {'S7': known} if known else {}
    res.coverage['violations_without_replay_file'] = suppressed
    big_sizes(tier, res)
    res.coverage['rule'] = (
        'one evaluation = one real execution: a dataset object built once (kind, n, buffer '
        'size, build-time rng answers), 1-3 real iterators over that ONE object, a sequence of '
        'next() calls in a given interleaving, every rng answer fixed; TLC enumerates all of '
        'them inside the constants (BFS, complete behaviours; the clauses are monotone so every '
        'prefix is covered), real numpy generators / random schedules / self-zip and '
        'self-intersperse are added; non-trivial = verdict "ok" on the REAL outputs (n > 0)')
    res.assumptions += [
        'TLC evaluates the TLA+ operators correctly',
        'a generator function body runs atomically between two yields (single-threaded CPython)',
        'numpy generators answer shuffle with a permutation, choice(k) with a value in 0..k-1 and '
        'choice(n, size, replace=False) with distinct values (sampled with real generators, '
        'exhaustive only for the scripted answers)',
        'the next() schedule of ds.zip(ds) / ds.intersperse(ds) is the one derived from '
        'ZipDataset / IntersperseDataset.__iter__ (a wrong guess shows up as drift)',
    ]
    return res.finish()


def replay(prop, path):
    with open(path) as f:
        rp = json.load(f)
    if rp.get('family') == 'random-big':
        rec = _big_job(tuple(rp['job']))
        rec['id'] = 1
        v, _ = validate_records([{k: rec[k] for k in ('id', 'form', 'n', 'b', 'size', 'drop', 'epochs', 'exc')}],
                                module='RandomBigTrace.tla', cfg='RandomBigTrace.cfg')
        print(rp['job'], 'epoch sizes', [len(e) for e in rec['epochs']], rec['exc'], v[1]['C12'])
        return 1 if v[1]['C12'][0] == 'viol' else 0
    r = rp['record']
    how = r.get('how', '')
    try:
        return _replay(prop, r, how)
    except Infeasible:
        print('the recorded rng answer can no longer be given to the call the code makes '
              '(the code asks the generator something else now)')
        return 0


def _replay(prop, r, how):
    if how == 'tlc-behaviour' or how.startswith('extreme'):
        body = drive(r['sc'], [h['it'] for h in r['hist']],
                     Script(fifo=r['sc']['bp'], sel=r['sc']['sel']), answers=r['hist'])
    elif how.startswith('composition'):
        parts = how.split(':')
        perms = [h['sg'] for h in r['hist'] if h['rc'] == 'shuffle']
        body = compose(parts[1], r['sc']['n'], Script(fifo=perms), 'dict' in parts)
    else:
        # a recorded real-generator run: re-impose the recorded answers
        body = drive(r['sc'], [h['it'] for h in r['hist']],
                     Script(fifo=r['sc']['bp'], sel=r['sc']['sel']), answers=r['hist'])
    body['id'] = 1
    v, _ = validate_records([{k: body[k] for k in ('id', 'sc', 'hist', 'obs')}],
                            module='RandomTrace.tla', cfg='RandomTrace.cfg')
    print('execution:', short(body))
    print('verdict  :', v[1]['C12'], ' conformance:', v[1]['conf'])
    return 1 if v[1]['C12'][0] == 'viol' else 0
