"""Check C10 (memory cache: transparent, computes once, freezes), decided with
specs Cache.tla / CacheTrace.tla.

  design       : TLC checks the invariants of Cache.tla on the REPAIRED model and
                 re-discovers every open defect on the ORIGINAL-behaviour model;
  spec -> code : TLC enumerates access histories (BFS over Cache.tla), every one
                 is executed on the real library with `psutil.virtual_memory`
                 patched so that MemDrop happens exactly where the history says;
  code -> spec : the recorded observations (TLC's histories and seeded random
                 long ones) go back to TLC (CacheTrace.tla), which evaluates
                 V_C10 on the REAL observation and the conformance with the model.

Pool steps whose workers request every example twice ("pft" = tile(2).prefetch,
"pfd" = [[0,0,1,1,..]].prefetch) are executed under the line-level controlled
scheduler (harness/detsched.py, every source line of core.py is a scheduling
point, seeded per history): the check-then-act race of CacheDataset.__getitem__
(open defect S21) is found deterministically; its design-level demonstration is
specs/CacheRace.tla (TLC refutes OnceInv / FirstValueInv for Atomic = FALSE).
"""
import json
import multiprocessing as mp
import random
import re
import signal
import warnings
from . import common, findings, tlc
from .common import Result
from .pipeline import validate_records

KEYS = 'abcde'
HIGH = 64 << 30          # bytes "available" while memory permits
LOW = 1 << 20            # after MemDrop (threshold is '1 GB')


def cfg(pars, depth, idx, keys, starts, sub, up, freeze, maxinst, pf, maxup, maxpf,
        pft='PftNone', emit=True, design=False):
    inv = ''
    if emit:
        inv += 'INVARIANT EmitHistory\n'
    if design:
        inv += ('INVARIANT DesignHolds\nINVARIANT SlotCanonical\nINVARIANT OncePerExample\n'
                'PROPERTY MemFrozen\nPROPERTY NoStoreWhenLow\nPROPERTY LatchMonotone\n')
    return f'''CONSTANTS
  Pars <- {pars}
  Depth = {depth}
  IdxGrid <- {idx}
  KeyProbe = {keys}
  SliceStarts = {starts}
  SubIdx <- {sub}
  UpIdx = {up}
  FreezeVals = {freeze}
  MaxInst = {maxinst}
  PfForms <- {pf}
  PftForms <- {pft}
  MaxUp = {maxup}
  MaxPf = {maxpf}
SPECIFICATION Spec
{inv}CHECK_DEADLOCK FALSE
'''


K2 = '{"c", "zz"}'
K4 = '{"a", "b", "c", "zz"}'

# (name, cfg keyword arguments, replay budget: None = every history is executed)
FULL = dict(idx='IdxF3', keys=K4, starts='{0, 1, 2}', sub='SubF', up='{0, 2}',
            freeze='{0, 1}', maxinst=2, pf='Pf12', maxup=1, maxpf=1)
MID = dict(idx='IdxQ3', keys=K2, starts='{1}', sub='SubQ', up='{2}', freeze='{0}',
           maxinst=2, pf='Pf12', maxup=1, maxpf=1)
CORE = dict(idx='IdxC3', keys='{"c"}', starts='{1}', sub='SubZ', up='{2}', freeze='{0}',
            maxinst=2, pf='Pf12', maxup=1, maxpf=1)
# the alphabet around example len-1: c[-1], c[len-1], c[len], c['c'], list(c),
# prefetch(2,2), copy, MemDrop, ups[len-1]
SMALL = dict(idx='IdxS3', keys='{"c"}', starts='{}', sub='SubZ', up='{2}', freeze='{0}',
             maxinst=2, pf='Pf2', maxup=1, maxpf=1)
# pool workers that request every example twice (S21), around them: c[len-1], c[-1],
# c['c'], list(c), copy, MemDrop, ups[len-1]
RACE = dict(idx='IdxS3', keys='{"c"}', starts='{}', sub='SubZ', up='{2}', freeze='{0}',
            maxinst=2, pf='Pf2', maxup=1)

TIERS = {
    'quick': {
        'bfs': [
            ('lazy-n3-d2-full', dict(pars='ParsLazy3m', depth=2, **FULL), None),
            ('lazy-n3-d3', dict(pars='ParsLazy3', depth=3, **MID), None),
            ('lazy-n3-d4-small', dict(pars='ParsLazy3r', depth=4, **SMALL), None),
            ('eager-n3-d3-small', dict(pars='ParsEager3r', depth=3, **SMALL), None),
            ('lazy-n3-d3-race', dict(pars='ParsLazy3', depth=3, pft='PftF3', maxpf=2, **RACE),
             None),
        ],
        'design': [dict(pars='ParsLazy3', depth=4, pft='PftQ3', **SMALL)],
        'race': [dict(n=3, w=2, b=4, shape='tile'), dict(n=3, w=2, b=2, shape='dup')],
        'random': {'count': 1500, 'steps': (10, 30)},
    },
    'thorough': {
        'bfs': [
            ('lazy-n3-d3-full', dict(pars='ParsLazy3x', depth=3, **FULL), 150000),
            ('lazy-n3-d4', dict(pars='ParsLazy3', depth=4, **MID), 150000),
            ('lazy-n3-d5-core', dict(pars='ParsLazy3r', depth=5, **CORE), 150000),
            ('lazy-n2-d4-full', dict(pars='ParsLazy2', depth=4, idx='IdxF2',
                                     keys='{"b", "zz"}', starts='{0, 1}', sub='SubQ',
                                     up='{1}', freeze='{0, 1}', maxinst=3, pf='Pf123',
                                     maxup=1, maxpf=1), 100000),
            ('eager-n3-d3', dict(pars='ParsEager3', depth=3, **MID), None),
            ('lazy-n3-d4-race', dict(pars='ParsLazy3', depth=4, pft='PftF3', maxpf=1, **RACE),
             150000),
            ('lazy-n3-d4-race2', dict(pars='ParsLazy3', depth=4, pft='PftQ3', maxpf=2, **RACE),
             150000),
            ('lazy-n2-d4-race', dict(pars='ParsLazy2', depth=4, idx='IdxS2', keys='{"b"}',
                                     starts='{}', sub='SubZ', up='{1}', freeze='{0}',
                                     maxinst=2, pf='Pf2', maxup=1, pft='PftF2', maxpf=2),
             150000),
            ('eager-n3-d3-race', dict(pars='ParsEager3r', depth=3, pft='PftQ3', maxpf=2,
                                      **RACE), None),
        ],
        'design': [dict(pars='ParsLazy3', depth=5, **CORE),
                   dict(pars='ParsLazy3', depth=4, pft='PftQ3', **SMALL)],
        'race': [dict(n=3, w=2, b=4, shape='tile'), dict(n=3, w=2, b=2, shape='dup'),
                 dict(n=3, w=3, b=6, shape='tile'), dict(n=3, w=3, b=3, shape='dup'),
                 dict(n=2, w=2, b=3, shape='tile')],
        'random': {'count': 100000, 'steps': (10, 30)},
    },
}
FLAGGED_CAP = 4        # flagged histories executed: at most budget // FLAGGED_CAP


# ---------------------------------------------------------------------------
# executing one history on the real library

class _Timeout(BaseException):
    pass


def _alarm(*_):
    raise _Timeout()


class _Mem:
    """What the patched psutil.virtual_memory() returns."""

    def __init__(self, available):
        self.available = available
        self.total = HIGH


class Slow(tuple):
    """An upstream value (example, computation number) that is slow to pickle
    and yields the GIL while it is being pickled: genuinely concurrent
    prefetch workers then overlap inside the cache they share."""

    def __reduce__(self):
        import time
        time.sleep(0.0004)
        return (Slow, (tuple(self),))


NONE_MODE = [False]


def _enc(v):
    if v is None and NONE_MODE[0]:          # example 0 of a deterministic upstream
        return {'i': 0, 'k': 0}
    if isinstance(v, tuple) and len(v) == 2 and all(isinstance(x, int) for x in v):
        return {'i': int(v[0]), 'k': int(v[1])}
    return {'i': -9, 'k': -9}


RACE_OPS = ('pft', 'pfd')
STAYS = (0.5, 0.7, 0.8, 0.9)


class _SchedulerGaveUp(Exception):
    """The controlled scheduler aborted (deadlock / runaway): machinery."""


def _scheduled(ds, seed):
    """list(ds) with the pool workers of `ds` (thread back end) scheduled at
    SOURCE-LINE granularity inside lazy_dataset/core.py under a seeded sticky
    random schedule.  Returns (values, info)."""
    import lazy_dataset.core as core
    from . import conc, detsched
    rng = random.Random(seed)
    stay = rng.choice(STAYS)
    ctl = detsched.Controlled(conc.sticky_chooser(rng.randrange(1 << 30), stay),
                              line_files=(core.__file__,))
    out, err, aborted = [], None, None
    with ctl as sched:
        sched.item_code = lambda item: -1       # values are not part of the event log
        sched.max_events = 20000
        try:
            out = list(ds)
        except detsched.Abort:
            aborted = str(sched.abort_reason)
        except _Timeout:
            raise
        except BaseException as e:              # noqa: re-raised below
            err = e
        if aborted is None:
            try:
                sched.idle_until_quiescent()
            except detsched.Abort:
                aborted = str(sched.abort_reason)
    dec = sched.decisions
    info = {'seed': seed, 'stay': stay, 'decisions': len(dec), 'threads': len(sched.vts),
            'switches': sum(1 for j in range(1, len(dec)) if dec[j][1] != dec[j - 1][1]),
            'thread_errors': list(sched.thread_errors), 'aborted': aborted}
    if aborted is not None:
        raise _SchedulerGaveUp(aborted)
    if err is not None:
        raise err
    return out, info


def step_seed(seed, par, hist, t):
    import zlib
    return (zlib.crc32(json.dumps([par, hist, t], sort_keys=True).encode()) + 1000003 * seed) \
        % (1 << 31)


def execute(par, hist, timeout=20.0, seed=None):
    """Run `hist` on ds.cache(); returns the observation record (shape of
    Cache.tla ModelRun) plus, under 'pool', what the controlled scheduler did
    in every "pft" / "pfd" step (not part of the observation TLC judges)."""
    import psutil
    import lazy_dataset
    from lazy_dataset.core import CacheDataset
    n = len(par['pre'])
    rand = par['ups'] == 'rand'
    calls = [0] * n

    # histories with a pool prefetch run with slow-to-pickle values (real
    # threads, OS-scheduled: sampling on top of the sequentialised model)
    slow = any(s['op'] == 'pf' and s['w'] >= 2 for s in hist)

    # a third of the histories over a deterministic upstream: the value of
    # example 0 is None (a legitimate example value, falsy, often used as a
    # "missing" marker by careless code)
    import zlib
    NONE_MODE[0] = (not rand) and zlib.crc32(json.dumps(hist, sort_keys=True).encode()) % 3 == 0

    def fn(x):
        calls[x] += 1
        if x == 0 and NONE_MODE[0]:
            return None
        v = (x, calls[x] if rand else 0)
        return Slow(v) if slow else v

    mem = {'available': HIGH}
    orig_vm = psutil.virtual_memory
    psutil.virtual_memory = lambda: _Mem(mem['available'])
    old = signal.signal(signal.SIGALRM, _alarm)
    signal.setitimer(signal.ITIMER_REAL, timeout)
    steps = []
    init = None
    pool = []
    if seed is None:
        seed = common.seed()
    try:
        with warnings.catch_warnings():
            warnings.simplefilter('ignore')
            ups = lazy_dataset.new({KEYS[e]: e for e in range(n)}).map(fn)
            for e, p in enumerate(par['pre']):
                for _ in range(p):
                    ups[e]
            if not par['lazy']:
                c = ups.cache(lazy=False)
            elif par['keep'] == 'thr':
                c = ups.cache(keep_mem_free='1 GB')
            else:
                c = CacheDataset(ups, keep_mem_free=None)
            init = list(calls)
            insts = [c]
            # iteration mode (for half of the histories, chosen from the history
            # itself): an access ds[i] that continues the run 0, 1, 2, ... of one
            # instance is performed with next() on ONE iterator over that
            # instance which stays OPEN while other accesses happen in between
            # (CacheDataset.__iter__ is `for i in range(len): yield self[i]`, so
            # the meaning is the same): suspended iterations meet examples that
            # were cached through another route in the meantime.
            import zlib
            iter_mode = zlib.crc32(json.dumps(hist, sort_keys=True).encode()) % 2 == 0
            open_its = {}       # instance number -> [iterator, next index]
            for t, s in enumerate(hist):
                exc, vs, ks = 'none', [], []
                try:
                    op = s['op']
                    ds = insts[s['inst'] - 1] if s['inst'] >= 1 else None
                    if op == 'gi':
                        v = None
                        if iter_mode and s['i'] >= 0:
                            cur = open_its.get(s['inst'])
                            if cur is None and s['i'] == 0:
                                cur = open_its[s['inst']] = [iter(ds), 0]
                            if cur is not None and cur[1] == s['i']:
                                try:
                                    v = [_enc(next(cur[0]))]
                                    cur[1] += 1
                                except StopIteration:
                                    open_its.pop(s['inst'], None)
                        vs = v if v is not None else [_enc(ds[s['i']])]
                    elif op == 'gs':
                        vs = [_enc(ds[s['key']])]
                    elif op == 'sg':
                        vs = [_enc(ds[s['s']:][s['i']])]
                    elif op == 'si':
                        vs = [_enc(v) for v in ds[s['s']:]]
                    elif op == 'it':
                        vs = [_enc(v) for v in ds]
                    elif op == 'items':
                        kv = list(ds.items())
                        ks = [str(k) for k, _ in kv]
                        vs = [_enc(v) for _, v in kv]
                    elif op == 'pf':
                        vs = [_enc(v) for v in ds.prefetch(s['w'], s['b'])]
                    elif op in RACE_OPS:
                        # every example is requested twice; the pool workers are
                        # scheduled line by line inside core.py (seeded)
                        if op == 'pft':
                            twice = ds.tile(2)
                        else:
                            twice = ds[[i // 2 for i in range(2 * n)]]
                        got, info = _scheduled(twice.prefetch(s['w'], s['b']),
                                               step_seed(seed, par, hist, t))
                        info['t'] = t
                        pool.append(info)
                        vs = [_enc(v) for v in got]
                    elif op == 'copy':
                        insts.append(ds.copy(freeze=bool(s['i'])))
                    elif op == 'drop':
                        mem['available'] = LOW
                    elif op == 'up':
                        vs = [_enc(ups[s['i']])]
                    else:
                        raise ValueError(op)
                except _Timeout:
                    raise
                except _SchedulerGaveUp as e:
                    pool.append({'t': t, 'aborted': str(e), 'thread_errors': []})
                    exc, vs, ks = 'SCHEDULER-ABORT', [], []
                except BaseException as e:      # noqa: the class is the observation
                    exc, vs, ks = type(e).__name__, [], []
                steps.append({'exc': exc, 'vs': vs, 'ks': ks, 'calls': list(calls)})
    except _Timeout:
        if init is None:
            init = list(calls)
        while len(steps) < len(hist):
            steps.append({'exc': 'HANG', 'vs': [], 'ks': [], 'calls': list(calls)})
    finally:
        signal.setitimer(signal.ITIMER_REAL, 0)
        signal.signal(signal.SIGALRM, old)
        psutil.virtual_memory = orig_vm
    return {'init': init, 'steps': steps, 'pool': pool}


def _execute_chunk(chunk):
    return [execute(p, h) for p, h in chunk]


def execute_all(jobs, chunk=200, timeout=3000):
    chunks = [jobs[i:i + chunk] for i in range(0, len(jobs), chunk)]
    if not chunks:
        return []
    with mp.get_context('fork').Pool(common.NCPU) as pool:
        out = pool.map_async(_execute_chunk, chunks).get(timeout)
    return [o for c in out for o in c]


# ---------------------------------------------------------------------------
# histories

def enumerate_histories(cfg_text, unfixed=None, timeout=3600, workers=None):
    d = tlc.prepare(unfixed)
    r = tlc.run('Cache.tla', 'MC_gen.cfg', workdir=d, cfg_text=cfg_text, timeout=timeout,
                workers=workers)
    if r['rc'] != 0 or r['errors']:
        raise tlc.TlcError('Cache.tla: rc=%s\n%s' % (r['rc'], '\n'.join(r['errors'][:30])))
    recs = [tlc.json_payload(line, 'VEC') for line in r['tagged'].get('VEC', [])]
    return recs, r['stats']


def step(op, inst=0, i=0, key='', s=0, w=0, b=0):
    return {'op': op, 'inst': inst, 'i': i, 'key': key, 's': s, 'w': w, 'b': b}


def random_histories(seed, count, steps):
    """Seeded long histories (code -> spec only); same step vocabulary as Cache.tla."""
    rng = random.Random(seed * 7919 + 10)
    out = []
    for _ in range(count):
        n = rng.choice((2, 3, 3, 4))
        lazy = rng.random() < 0.85
        par = {'lazy': lazy, 'ups': rng.choice(('rand', 'rand', 'det')),
               'keep': 'thr' if (not lazy or rng.random() < 0.8) else 'none',
               'pre': [rng.choice((0, 0, 1, 2)) for _ in range(n)]}
        length = rng.randint(*steps)
        drop_at = rng.randrange(length + 8) if lazy and par['keep'] == 'thr' else -1
        ninst, low, hist = 1, False, []
        for t in range(length):
            if t == drop_at and not low:
                hist.append(step('drop'))
                low = True
                continue
            j = rng.randint(1, ninst)
            x = rng.random()
            if x < 0.40:
                hist.append(step('gi', j, i=rng.randint(-n - 1, n)))
            elif x < 0.50:
                hist.append(step('gs', j, key=rng.choice(KEYS[:n] + 'z')))
            elif x < 0.60:
                s = rng.randrange(n)
                hist.append(step('sg', j, i=rng.randint(-(n - s) - 1, n - s), s=s))
            elif x < 0.65:
                hist.append(step('si', j, s=rng.randrange(n)))
            elif x < 0.71:
                hist.append(step('it', j))
            elif x < 0.75:
                hist.append(step('items', j))
            elif x < 0.78:
                w = rng.choice((1, 2, 3))
                hist.append(step('pf', j, w=w, b=w + rng.choice((0, 1))))
            elif x < 0.80:
                # pool workers that request every example twice (tile: the two
                # requests meet only when more than n tasks are in flight)
                w = rng.choice((2, 2, 3))
                if rng.random() < 0.5:
                    hist.append(step('pft', j, w=w, b=rng.choice((w, n + 1, n + 2, 2 * n))))
                else:
                    hist.append(step('pfd', j, w=w, b=w + rng.choice((0, 1))))
            elif x < 0.87 and ninst < 4:
                hist.append(step('copy', j, i=rng.choice((0, 1))))
                ninst += 1
            elif x < 0.93:
                hist.append(step('up', i=rng.randrange(n)))
            else:
                hist.append(step('gi', j, i=rng.choice((-1, n - 1, -n, 0))))
        out.append({'par': par, 'hist': hist})
    return out


def short(par, hist):
    """Human-readable rendering of a history."""
    if not par['lazy']:
        head = 'c=ups.cache(lazy=False)'
    elif par['keep'] == 'thr':
        head = "c=ups.cache(keep_mem_free='1 GB')"
    else:
        head = 'c=CacheDataset(ups, keep_mem_free=None)'
    head = f"[n={len(par['pre'])} ups={par['ups']} pre={par['pre']}] {head}"
    out = []
    for s in hist:
        c = 'c' if s['inst'] <= 1 else f"c{s['inst']}"
        op = s['op']
        out.append({
            'gi': f"{c}[{s['i']}]", 'gs': f"{c}[{s['key']!r}]",
            'sg': f"{c}[{s['s']}:][{s['i']}]", 'si': f"list({c}[{s['s']}:])",
            'it': f'list({c})', 'items': f'list({c}.items())',
            'pf': f"list({c}.prefetch({s['w']},{s['b']}))",
            'pft': f"list({c}.tile(2).prefetch({s['w']},{s['b']}))",
            'pfd': f"list({c}[[0,0,1,1,..]].prefetch({s['w']},{s['b']}))",
            'copy': f"{c}.copy(freeze={bool(s['i'])})", 'drop': 'MemDrop',
            'up': f"ups[{s['i']}]"}.get(op, op))
    return head + '; ' + '; '.join(out)


# ---------------------------------------------------------------------------
# known findings (reporting only; nothing is loosened)

def match_finding(par, hist, verdict, obs):
    """S21 (open): harness/findings.py match_cache.
    S6 (while open): the violation is exactly what the original-behaviour model
    predicts (conformance with the model that has S6 in Unfixed, model verdict
    equal to the real one) and the history reads an in-range NEGATIVE int index
    on the lazy cache."""
    for f in common.load_findings()['findings']:
        if f['id'] != 'S6' or f['status'] != 'open' or f['property'] != 'C10':
            continue
        n = len(par['pre'])
        neg = any(s['op'] == 'gi' and -n <= s['i'] < 0 for s in hist)
        if par['lazy'] and neg and verdict['conf'] == 'conforms' \
                and list(verdict['mv']) == list(verdict['C10']):
            return f
    return findings.match_cache('C10', verdict['C10'][1], par, hist, obs, verdict)


def raced_examples(par, hist, obs):
    """[(step number, example)] : a pool step that requests every example twice
    computed the example twice although the cache was storing (no MemDrop so far)."""
    out, low = [], False
    before = obs['init']
    for t, (s, o) in enumerate(zip(hist, obs['steps'])):
        if s['op'] == 'drop' and par['keep'] == 'thr':
            low = True
        if s['op'] in RACE_OPS and par['lazy'] and not low:
            out += [(t, e) for e in range(len(before)) if o['calls'][e] - before[e] >= 2]
        before = o['calls']
    return out


# ---------------------------------------------------------------------------

RACE_CFG = '''CONSTANTS
  N = {n}
  W = {w}
  B = {b}
  Shape = "{shape}"
  Atomic = {atomic}
SPECIFICATION Spec
INVARIANT TypeOK
{invs}CHECK_DEADLOCK FALSE
'''
_STATE = re.compile(r'^State \d+: <(\w+)')


def race_design(plans, workers=None):
    """TLC on specs/CacheRace.tla (the worker pool over the shared cache, one get =
    lookup / compute / store).  Atomic = TRUE (the repaired design, = the
    sequentialisation Cache.tla uses for "pft" / "pfd") must satisfy OnceInv,
    FirstValueInv and Answered; while S21 is open, Atomic = FALSE (the code) must
    be refuted on OnceInv and on FirstValueInv: the design-level demonstration
    of S21.  Returns (tlc stats summed, info, machinery errors)."""
    is_open = 'S21' in common.unfixed_ids()
    stats = {'generated': 0, 'distinct': 0}
    info, errors = [], []

    def one(plan, atomic, invs):
        d = tlc.prepare()
        text = RACE_CFG.format(atomic='TRUE' if atomic else 'FALSE',
                               invs=''.join(f'INVARIANT {i}\n' for i in invs), **plan)
        r = tlc.run('CacheRace.tla', 'MC_race.cfg', workdir=d, cfg_text=text, timeout=900,
                    workers=workers)
        for k in stats:
            stats[k] += r['stats'][k]
        return r
    for plan in plans:
        name = '{shape} N={n} W={w} B={b}'.format(**plan)
        r = one(plan, True, ['OnceInv', 'FirstValueInv', 'Answered'])
        holds = r['rc'] == 0 and not r['errors']
        rec = {'config': name, 'atomic_holds': holds, 'atomic_tlc': r['stats']}
        if not holds:
            errors.append(f'CacheRace.tla {name} Atomic=TRUE: the repaired design is not proved: '
                          f"rc={r['rc']} {' | '.join(r['errors'][:4])}")
        if is_open:
            for inv in ('OnceInv', 'FirstValueInv'):
                r = one(plan, False, [inv])
                refuted = any(f'Invariant {inv} is violated' in e for e in r['errors'])
                trace = []
                with open(r['out_path'], errors='replace') as f:
                    for line in f:
                        m = _STATE.match(line)
                        if m and m.group(1) != 'Initial':
                            trace.append(m.group(1))
                rec[f'code_refutes_{inv}'] = refuted
                rec[f'counterexample_{inv}'] = ' '.join(trace)
                if not refuted:
                    errors.append(f'CacheRace.tla {name} Atomic=FALSE: TLC does not refute {inv} '
                                  f"(S21 is open): rc={r['rc']} {' | '.join(r['errors'][:4])}")
        else:
            rec['code_model'] = 'not run: S21 is not open'
        info.append(rec)
    return stats, info, errors


def design_check(kws, workers=None):
    """TLC on the design itself: the repaired model satisfies every invariant (every
    config of `kws`; the pool steps "pft" / "pfd" are the sequentialised pool);
    every open defect of this family that changes the prediction is re-discovered
    on the original model (first config).  Returns (tlc stats, info, machinery errors)."""
    open_ids = common.unfixed_ids()
    info, errors = {}, []
    stats = {'generated': 0, 'distinct': 0}
    for k, kw in enumerate(kws):
        d = tlc.prepare([u for u in open_ids if u != 'S6'])
        r = tlc.run('Cache.tla', 'MC_design.cfg', workdir=d, timeout=3000, workers=workers,
                    cfg_text=cfg(emit=False, design=True, **kw))
        for x in stats:
            stats[x] += r['stats'][x]
        info['design_repaired' + (f'_{k + 1}' if k else '')] = {
            'rc': r['rc'], 'tlc': r['stats'], 'depth': kw['depth'], 'pool_steps': kw.get('pft', 'none')}
        if r['rc'] != 0 or r['errors']:
            errors.append('Cache.tla design check (repaired model) failed: rc=%s %s'
                          % (r['rc'], ' | '.join(r['errors'][:6])))
    text = cfg(emit=False, design=True, **kws[0])
    # sensitivity (vacuity guard), whatever the state of the tree: with the
    # ORIGINAL behaviour of S6 switched on TLC must refute the design
    d = tlc.prepare(sorted(set(open_ids) | {'S6'}))
    r = tlc.run('Cache.tla', 'MC_design.cfg', workdir=d, cfg_text=text, timeout=3000,
                workers=workers)
    refuted = [e for e in r['errors'] if 'is violated' in e]
    info['design_original_S6'] = {'rc': r['rc'], 'refuted': refuted[:3]}
    if not refuted:
        errors.append('Cache.tla: the original-behaviour model (S6) is not refuted by TLC')
    return stats, info, errors


def run(prop, tier):
    assert prop == 'C10'
    res = Result(prop, tier)
    rng = random.Random(common.seed())
    plan = TIERS[tier]
    info = {}
    configs = []
    try:
        # the TLC runs are independent: a few at a time, sharing the cores
        from concurrent.futures import ThreadPoolExecutor
        common.scratch()
        par_runs = min(4, len(plan['bfs']) + 1)
        w = max(2, common.NCPU // par_runs)
        with ThreadPoolExecutor(par_runs) as ex:
            fd = ex.submit(design_check, plan['design'], w)
            fr = ex.submit(race_design, plan['race'], 2)
            fe = [ex.submit(enumerate_histories, cfg(**kw), None, 3600, w)
                  for _, kw, _ in plan['bfs']]
            st, info, errs = fd.result()
            rst, race_info, rerrs = fr.result()
            enumerated = [f.result() for f in fe]
        res.add_tlc(st)
        res.add_tlc(rst)
        res.machinery_errors += errs + rerrs
        jobs = {}
        for (name, kw, budget), (recs, st) in zip(plan['bfs'], enumerated):
            res.add_tlc(st)
            flagged = [r for r in recs if r['mv'][0] == 'viol']
            rest = [r for r in recs if r['mv'][0] != 'viol']
            if budget is not None and len(rest) > budget:
                rest = rng.sample(rest, budget)
            # an open defect makes the model flag histories en masse: all of
            # them when replay is exhaustive, a seeded sample otherwise
            if budget is not None and len(flagged) > budget // FLAGGED_CAP:
                flagged = rng.sample(flagged, budget // FLAGGED_CAP)
            for r in flagged + rest:
                key = json.dumps([r['par'], r['hist']], sort_keys=True)
                jobs.setdefault(key, {'par': r['par'], 'hist': r['hist'], 'mv': r['mv'],
                                      'src': name})
            configs.append({'config': name, 'enumerated': len(recs),
                            'model_flagged': len(flagged),
                            'executed': len(flagged) + len(rest),
                            'exhaustive_replay': budget is None or len(recs) - len(flagged) <= budget,
                            'tlc': st})
        rp = plan['random']
        fresh = 0
        for r in random_histories(common.seed(), rp['count'], rp['steps']):
            key = json.dumps([r['par'], r['hist']], sort_keys=True)
            if key not in jobs:
                jobs[key] = {'par': r['par'], 'hist': r['hist'], 'mv': None, 'src': 'random'}
                fresh += 1
        configs.append({'config': 'random-long (python generator, code -> spec only)',
                        'generated': rp['count'], 'distinct_new': fresh,
                        'steps': list(rp['steps'])})
        jobs = list(jobs.values())
        obs = execute_all([(j['par'], j['hist']) for j in jobs])
        pools = [o.pop('pool') for o in obs]
        records = [{'id': i + 1, 'par': j['par'], 'hist': j['hist'], 'obs': o}
                   for i, (j, o) in enumerate(zip(jobs, obs))]
        verdicts, st = validate_records(records, module='CacheTrace.tla', cfg='CacheTrace.cfg',
                                        timeout=900 if tier == 'quick' else 3600)
        res.add_tlc(st)
    except tlc.TlcError as e:
        res.machinery_errors.append(str(e))
        return res.finish()
    res.coverage['configs'] = configs
    res.coverage['design'] = info
    res.coverage['design_CacheRace'] = race_info
    # pool steps under the controlled scheduler
    ps = {'rule': 'steps "pft" = list(c.tile(2).prefetch(w, b)) and "pfd" = '
                  'list(c[[0,0,1,1,..]].prefetch(w, b)), w >= 2, thread back end, executed with '
                  'every source line of lazy_dataset/core.py as a scheduling point under a sticky '
                  'random schedule seeded from (VERIF_SEED, history, step); raced = some example '
                  'was computed twice inside the step while the cache was storing',
          'executed': {}, 'raced': {}, 'histories_with_pool_step': 0, 'histories_raced': 0,
          'decisions': 0, 'switches': 0, 'max_threads': 0}
    gave_up = set()     # the scheduler aborted: not an observation of the library
    for rec, pl in zip(records, pools):
        if not pl:
            continue
        ps['histories_with_pool_step'] += 1
        raced_at = {t for t, _ in raced_examples(rec['par'], rec['hist'], rec['obs'])}
        ps['histories_raced'] += bool(raced_at)
        for i in pl:
            s = rec['hist'][i['t']]
            text = short(rec['par'], rec['hist'])
            if i.get('aborted') is not None:
                gave_up.add(rec['id'])
                res.machinery_errors.append(f"controlled scheduler gave up ({i['aborted']}) in "
                                            f"step {i['t'] + 1} of {text}")
                continue
            if i['thread_errors']:
                res.machinery_errors.append(f"exception escaped a pool thread {i['thread_errors']} "
                                            f"in step {i['t'] + 1} of {text}")
            form = f"{s['op']}({s['w']},{s['b']})"
            ps['executed'][form] = ps['executed'].get(form, 0) + 1
            if i['t'] in raced_at:
                ps['raced'][form] = ps['raced'].get(form, 0) + 1
            ps['decisions'] += i['decisions']
            ps['switches'] += i['switches']
            ps['max_threads'] = max(ps['max_threads'], i['threads'])
    ps['executed_total'] = sum(ps['executed'].values())
    ps['raced_total'] = sum(ps['raced'].values())
    res.coverage['pool_steps_scheduled'] = ps
    res.coverage['traces_validated_against_impl'] = len(records)
    res.coverage['evaluations'] = len(records)
    by_clause, known, samples, nontrivial = {}, {}, [], 0
    viol_counts, known_clauses, known_best = {}, {}, {}
    for rec, j in zip(records, jobs):
        v = verdicts[rec['id']]
        status, clause = v[prop]
        if rec['id'] in gave_up:
            status, clause = 'machinery', 'scheduler-gave-up'
        by_clause[f'{status}:{clause}'] = by_clause.get(f'{status}:{clause}', 0) + 1
        text = short(rec['par'], rec['hist'])
        if status == 'ok':
            nontrivial += 1
            if len(samples) < 4 and rec['id'] % 101 == 0:
                samples.append({'history': text, 'verdict': clause,
                                'returned': [s['vs'] or s['exc'] for s in rec['obs']['steps']]})
        if status == 'machinery':
            continue
        kf = match_finding(rec['par'], rec['hist'], v, rec['obs']) if status == 'viol' else None
        # (a recorded defect the model deliberately does not predict - S21, the
        # model is the sequentialised pool - is reported as the finding, not as drift)
        if v['conf'] != 'conforms' and kf is None:
            res.drift.append({'where': v['conf'], 'history': text})
        if status != 'viol':
            if v['mv'][0] == 'viol':
                res.drift.append({'where': 'model-verdict', 'history': text, 'model': v['mv']})
            continue
        if kf is not None:
            known[kf['id']] = known.get(kf['id'], 0) + 1
            known_clauses[f"{kf['id']}:{clause}"] = known_clauses.get(f"{kf['id']}:{clause}", 0) + 1
            # the line shows the same (shortest, random-upstream first) example in every run
            rank = (len(rec['hist']), rec['par']['ups'] != 'rand',
                    json.dumps([rec['par'], rec['hist']], sort_keys=True))
            if kf['id'] not in known_best or rank < known_best[kf['id']][0]:
                known_best[kf['id']] = (
                    rank, f"{kf['what']} [{clause}] e.g. {text} -> "
                          f"{[s['vs'] or s['exc'] for s in rec['obs']['steps']]} "
                          f"upstream calls {rec['obs']['steps'][-1]['calls']}")
            continue
        # every violating history is counted; at most 5 replay files per clause
        # and 25 in total are written
        viol_counts[clause] = viol_counts.get(clause, 0) + 1
        if viol_counts[clause] > 5 or len(res.violations) >= 25:
            continue
        res.violation(f'{clause}: {text}',
                      {'family': 'cache', 'par': rec['par'], 'hist': rec['hist'],
                       'obs': rec['obs'], 'verdict': [status, clause],
                       'model_verdict': v['mv'], 'conformance': v['conf'],
                       'relaxed_verdict_S21': v['s21'], 'seed': common.seed(),
                       'how': 'real observation judged by TLC (CacheTrace.tla, V_C10)'})
    for fid in sorted(known_best):
        res.known_finding(fid, known_best[fid][1])
    res.coverage['violating_histories'] = viol_counts
    if not samples and records:
        samples.append({'history': short(records[0]['par'], records[0]['hist']),
                        'verdict': list(verdicts[records[0]['id']][prop])})
    res.coverage['samples'] = samples
    res.coverage['distinct_nontrivial'] = nontrivial
    res.coverage['verdicts'] = by_clause
    res.coverage['known_finding_hits'] = known
    res.coverage['known_finding_hits_by_clause'] = known_clauses
    res.coverage['rule'] = (
        'histories = all step sequences TLC enumerates from Cache.tla (BFS, every parameter '
        'record of the config) plus seeded random long ones; each is executed once on the real '
        'library; a history is non-trivial when V_C10 on the REAL observation is "ok" (it '
        'contains at least one access through the cache and every clause holds)')
    res.assumptions += [
        'TLC evaluates the TLA+ operators correctly',
        'patching psutil.virtual_memory is how available memory reaches CacheDataset.check()',
        'memory is monotone inside a history (the scope of the quantifier of C10); a copy taken '
        'after memory recovers may cache again (latch is per instance) - out of scope',
        'prefetch with >= 2 thread workers is sequentialised in the model (memory does not move '
        'inside one step): for "pf" the workers touch distinct examples; for "pft" / "pfd" they '
        'request every example twice - the sequentialisation is the repaired design (atomic get, '
        'CacheRace.tla Atomic = TRUE), the interleavings of the code are CacheRace.tla Atomic = '
        'FALSE and, on the real library, the seeded line-level schedules (sampling, not all '
        'interleavings)',
        'the upstream function of the executions (counter + value) is one scheduling unit: the '
        'controlled scheduler preempts only inside lazy_dataset/core.py and at pool operations',
    ]
    return res.finish()


def replay(prop, path):
    with open(path) as f:
        rp = json.load(f)
    # the pool steps re-run under the schedule of the recorded run
    o = execute(rp['par'], rp['hist'], seed=rp.get('seed'))
    pool = o.pop('pool')
    v, _ = validate_records([{'id': 1, 'par': rp['par'], 'hist': rp['hist'], 'obs': o}],
                            module='CacheTrace.tla', cfg='CacheTrace.cfg')
    print('history :', short(rp['par'], rp['hist']))
    print('verdict :', v[1][prop], ' model:', v[1]['mv'], ' conformance:', v[1]['conf'])
    if pool:
        print('s21-relaxed:', v[1]['s21'], ' pool steps:', json.dumps(pool)[:600])
    print('observed:', json.dumps(o)[:2000])
    return 1 if v[1][prop][0] == 'viol' else 0
