"""Shared plumbing of the verification harness: paths, environment, scratch
space, evidence files, verdict reporting, known findings."""
import atexit
import json
import os
import shutil
import sys
import tempfile
import time

VERIF = os.path.dirname(os.path.dirname(os.path.abspath(__file__)))
REPO = os.environ.get('VERIF_REPO', '/repo')
SPECS = os.path.join(VERIF, 'specs')
# (VERIF_EVIDENCE_DIR: tools/eval_seeded.py runs the checks against a MUTATED package
#  and must not overwrite the evidence of the real tree)
EVIDENCE = os.environ.get('VERIF_EVIDENCE_DIR') or os.path.join(VERIF, 'evidence')
REPLAYS = os.path.join(EVIDENCE, 'replays')
FINDINGS_FILE = os.path.join(VERIF, 'known_findings.json')

# the multi-worker back ends of lazy_parallel_map insist on these
os.environ.setdefault('OMP_NUM_THREADS', '1')
os.environ.setdefault('MKL_NUM_THREADS', '1')
os.environ.setdefault('PYTHONHASHSEED', '0')

NCPU = min(16, os.cpu_count() or 1)


def seed():
    try:
        return int(os.environ.get('VERIF_SEED', '0'))
    except ValueError:
        return 0


_scratch = None


def _sweep_stale(max_age=12 * 3600):
    """Scratch directories of runs that were killed before they could clean up."""
    import glob
    import time
    now = time.time()
    for d in glob.glob(os.path.join(tempfile.gettempdir(), 'verif-*')):
        try:
            if now - os.path.getmtime(d) > max_age:
                shutil.rmtree(d, ignore_errors=True)
        except OSError:
            pass


def scratch():
    """A private scratch directory outside /repo and /verif, removed at exit."""
    global _scratch
    if _scratch is None:
        _sweep_stale()
        _scratch = tempfile.mkdtemp(prefix='verif-')
        if not os.environ.get('VERIF_KEEP_SCRATCH'):
            atexit.register(shutil.rmtree, _scratch, True)
    return _scratch


def load_findings():
    with open(FINDINGS_FILE) as f:
        return json.load(f)


def unfixed_ids():
    """Defect ids that are still modelled with their original behaviour."""
    return sorted(f['id'] for f in load_findings()['findings']
                  if f['status'] == 'open')


class Result:
    """Collects what one check run did; writes evidence; prints verdict lines."""

    def __init__(self, prop, tier, level='model_checking'):
        self.prop = prop
        self.tier = tier
        self.level = level
        self.t0 = time.time()
        self.coverage = {'states': 0, 'transitions': 0,
                         'traces_validated_against_impl': 0, 'samples': [],
                         'evaluations': 0, 'distinct_nontrivial': 0}
        self.assumptions = []
        self.violations = []      # (what, replay_path)
        self.known = []           # KNOWN-FINDING lines
        self.drift = []
        self.machinery_errors = []
        # replay files of earlier runs of this property are stale
        if os.path.isdir(REPLAYS):
            for fn in os.listdir(REPLAYS):
                if fn.startswith(prop + '-'):
                    os.remove(os.path.join(REPLAYS, fn))

    def add_tlc(self, stats):
        self.coverage['states'] += stats.get('distinct', 0)
        self.coverage['transitions'] += stats.get('generated', 0)

    def violation(self, what, replay):
        os.makedirs(REPLAYS, exist_ok=True)
        n = len(self.violations)
        path = os.path.join(REPLAYS, f'{self.prop}-{n:03d}.json')
        replay = dict(replay)
        replay.setdefault('property', self.prop)
        replay['what'] = what
        with open(path, 'w') as f:
            json.dump(replay, f, indent=1, sort_keys=True)
        self.violations.append((what, path))
        print(f'VIOLATION property={self.prop} replay={path}  # {what}', flush=True)

    def known_finding(self, fid, what):
        line = f'KNOWN-FINDING: property={self.prop} {fid} {what}'
        if line not in self.known:
            self.known.append(line)
            print(line, flush=True)

    def finish(self):
        cov = self.coverage
        cov.setdefault('rule', '')
        if not cov['samples']:
            cov['samples'] = ['(none)']
        cov['known_findings'] = self.known
        cov['drift'] = self.drift[:20]
        cov['drift_count'] = len(self.drift)
        ev = {
            'property_id': self.prop,
            'tier': self.tier,
            'seed': seed(),
            'level': self.level,
            'coverage': cov,
            'assumptions': self.assumptions,
            'wall_s': round(time.time() - self.t0, 2),
            'violations': len(self.violations),
        }
        os.makedirs(EVIDENCE, exist_ok=True)
        with open(os.path.join(EVIDENCE, f'{self.prop}.json'), 'w') as f:
            json.dump(ev, f, indent=1, sort_keys=True)
        for m in self.machinery_errors:
            print(f'MACHINERY-ERROR {self.prop}: {m}', file=sys.stderr, flush=True)
        if self.violations:
            return 1            # a real execution broke the property: that stands
        if self.machinery_errors:
            return 2
        print(f'OK property={self.prop} tier={self.tier} '
              f'states={cov["states"]} traces={cov["traces_validated_against_impl"]} '
              f'nontrivial={cov["distinct_nontrivial"]} drift={len(self.drift)} '
              f'known={len(self.known)} wall={ev["wall_s"]}s', flush=True)
        return 0
