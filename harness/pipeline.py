"""Driver for the combinator-algebra family (specs Pipeline / PipelineTrace).

  spec -> code : TLC enumerates API programs (BFS over Pipeline.tla), each is
                 executed on the real library (harness/observe.py);
  code -> spec : the recorded observations go back to TLC (PipelineTrace.tla),
                 which evaluates the property verdicts on the REAL observation
                 and the conformance with the model's prediction.
"""
import json
import multiprocessing as mp
import os
from . import common, tlc

PROPS = ['C01', 'C02', 'C03']      # order of the verdicts in a VERDICT line


def enumerate_programs(cfg_text, unfixed=None, timeout=3600, simulate=None,
                       depth=None, seed=0):
    """Run TLC on Pipeline.tla (BFS, or -simulate when `simulate` is given);
    return (unique programs with model verdicts, stats)."""
    d = tlc.prepare(unfixed)
    extra = ('-seed', str(seed)) if simulate else ()
    res = tlc.run('Pipeline.tla', 'MC_gen.cfg', workdir=d, cfg_text=cfg_text,
                  timeout=timeout, simulate=simulate, depth=depth, extra_args=extra)
    if res['rc'] != 0 or res['errors']:
        raise tlc.TlcError('Pipeline.tla: rc=%s\n%s' % (res['rc'], '\n'.join(res['errors'][:30])))
    seen = {}
    for line in res['tagged'].get('VEC', []):
        rec = tlc.json_payload(line, 'VEC')
        key = json.dumps(rec['prog'], sort_keys=True)
        seen.setdefault(key, rec)
    # TLC's output order depends on its worker threads: sort, so that seeded
    # sampling downstream is reproducible
    return [seen[k] for k in sorted(seen)], res['stats']


def _observe_chunk(chunk):
    from .observe import observe
    return [observe(p, touch=t) for p, t in chunk]


def observe_all(progs, chunk=100, timeout=1800, touch=None):
    """touch[i]: build program i in touch mode - keys(), len() and indexable of
    every intermediate dataset are read before the next stage is put on top
    (memos of one object must not leak into the datasets derived from it)."""
    jobs = list(zip(progs, touch if touch is not None else [False] * len(progs)))
    chunks = [jobs[i:i + chunk] for i in range(0, len(jobs), chunk)]
    if not chunks:
        return []
    with mp.get_context('fork').Pool(common.NCPU) as pool:
        out = pool.map_async(_observe_chunk, chunks).get(timeout)
    return [o for c in out for o in c]


def _observe_sched_chunk(chunk):
    from .schedobs import observe_sched
    return [observe_sched(p, seed) for p, seed in chunk]


def observe_sched_all(progs, seed0, chunk=50, timeout=3000):
    """[(observation, info)]: iterations taken under seeded line-level schedules."""
    jobs = [(p, seed0 + 31 * i) for i, p in enumerate(progs)]
    chunks = [jobs[i:i + chunk] for i in range(0, len(jobs), chunk)]
    if not chunks:
        return []
    with mp.get_context('fork').Pool(common.NCPU) as pool:
        out = pool.map_async(_observe_sched_chunk, chunks).get(timeout)
    return [o for c in out for o in c]


def _validate_chunk(args):
    idx, records, unfixed, module, cfg, workers, timeout = args
    d = tlc.prepare(unfixed, tag=f'v{idx}')
    path = os.path.join(d, 'trace.ndjson')
    with open(path, 'w') as f:
        for r in records:
            f.write(json.dumps(r, separators=(',', ':')) + '\n')
    res = tlc.run(module, cfg, workdir=d, env={'TRACE_FILE': path},
                  timeout=timeout, workers=workers, xmx='3g')
    os.remove(path)
    if res['rc'] != 0 or res['errors']:
        raise tlc.TlcError('%s: rc=%s\n%s' % (module, res['rc'], '\n'.join(res['errors'][:30])))
    out = [tlc.json_payload(line, 'VERDICT') for line in res['tagged'].get('VERDICT', [])]
    if len(out) != len(records):
        raise tlc.TlcError(f'{module}: {len(out)} verdicts for {len(records)} records')
    return out, res['stats']


def validate_records(records, module='PipelineTrace.tla', cfg='PipelineTrace.cfg',
                     unfixed=None, chunk=4000, timeout=3600):
    """Trace validation: hand the recorded observations to TLC.  Records are
    split into chunks validated by parallel TLC processes (one giant trace
    file exhausts the heap).  Returns ({id: verdict record}, stats)."""
    from concurrent.futures import ThreadPoolExecutor
    stats = {'generated': 0, 'distinct': 0}
    if not records:
        return {}, stats
    if unfixed is None:
        unfixed = common.unfixed_ids()
    chunks = [records[i:i + chunk] for i in range(0, len(records), chunk)]
    par = min(4, len(chunks))
    workers = max(2, common.NCPU // par)
    common.scratch()
    jobs = [(i, c, unfixed, module, cfg, workers, timeout) for i, c in enumerate(chunks)]
    verdicts = {}
    with ThreadPoolExecutor(par) as ex:
        for out, st in ex.map(_validate_chunk, jobs):
            for v in out:
                verdicts[v['id']] = v
            stats['generated'] += st['generated']
            stats['distinct'] += st['distinct']
    return verdicts, stats


def validate(records, unfixed=None, timeout=3600):
    v, st = validate_records(records, unfixed=unfixed, timeout=timeout)
    for r in v.values():
        for k in ('C01', 'C02', 'C03', 'C14', 'C18'):
            r[k] = tuple(r[k])
    return v, st


def short(p):
    """Compact human-readable rendering of an API program."""
    if p['op'] in ('list', 'dict'):
        ks = p.get('ks')
        body = dict(zip(ks, p['src'])) if ks is not None else list(p['src'])
        extra = '' if p['iw'] == 'pickle' else f", '{p['iw']}'"
        pl = '' if p['pl'] == 'i' else ':dictpayload'
        return f'new({body}{extra}){pl}'
    args = {k: v for k, v in p.items() if k not in ('op', 'in', 'in2')}
    a = ', '.join(f'{k}={json.dumps(v, separators=(",", ":"))}' for k, v in sorted(args.items()))
    if 'in2' in p:
        return f'{short(p["in"])}.{p["op"]}({short(p["in2"])})'
    return f'{short(p["in"])}.{p["op"]}({a})'
