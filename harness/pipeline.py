"""Driver for the combinator-algebra family (specs Pipeline / PipelineTrace).

  spec -> code : TLC enumerates API programs (BFS over Pipeline.tla), each is
                 executed on the real library (harness/observe.py);
  code -> spec : the recorded observations go back to TLC (PipelineTrace.tla),
                 which evaluates the property verdicts on the REAL observation
                 and the conformance with the model's prediction.
"""
import json
import multiprocessing as mp
import os
from . import common, tlc

PROPS = ['C01', 'C02', 'C03']      # order of the verdicts in a VERDICT line


def enumerate_programs(cfg_text, unfixed=None, timeout=3600, simulate=None,
                       depth=None, seed=0):
    """Run TLC on Pipeline.tla (BFS, or -simulate when `simulate` is given);
    return (unique programs with model verdicts, stats)."""
    d = tlc.prepare(unfixed)
    extra = ('-seed', str(seed)) if simulate else ()
    res = tlc.run('Pipeline.tla', 'MC_gen.cfg', workdir=d, cfg_text=cfg_text,
                  timeout=timeout, simulate=simulate, depth=depth, extra_args=extra)
    if res['rc'] != 0 or res['errors']:
        raise tlc.TlcError('Pipeline.tla: rc=%s\n%s' % (res['rc'], '\n'.join(res['errors'][:30])))
    seen = {}
    for line in res['tagged'].get('VEC', []):
        rec = tlc.json_payload(line, 'VEC')
        key = json.dumps(rec['prog'], sort_keys=True)
        seen.setdefault(key, rec)
    # TLC's output order depends on its worker threads: sort, so that seeded
    # sampling downstream is reproducible
    return [seen[k] for k in sorted(seen)], res['stats']


def _observe_chunk_file(cid, chunk, path):
    """Observe the programs of one chunk, writing a durable progress file:
    {"pid"}, then {"start": i} / {"done": i, "obs": ..} per program - so that
    the parent can tell WHICH program a stuck worker is in and keep the rest."""
    from .observe import observe
    hangs = 0
    with open(path, 'a') as f:
        f.write(json.dumps({'pid': os.getpid()}) + '\n')
        f.flush()
        for i, (p, t) in enumerate(chunk):
            f.write(json.dumps({'start': i}) + '\n')
            f.flush()
            # a tree on which programs hang: after three of them in this chunk the
            # others get 3 s instead of 10 s (they take milliseconds when they work)
            o = observe(p, timeout=10.0 if hangs < 3 else 3.0, touch=t)
            hangs += o['build'] == 'HANG'
            f.write(json.dumps({'done': i, 'obs': o}) + '\n')
            f.flush()
    return cid


def _read_progress(path):
    pid, started, done = None, None, {}
    try:
        with open(path) as f:
            for line in f:
                try:
                    r = json.loads(line)
                except ValueError:
                    continue
                if 'pid' in r:
                    pid = r['pid']
                elif 'start' in r:
                    started = r['start']
                elif 'done' in r:
                    done[r['done']] = r['obs']
    except OSError:
        pass
    return pid, started, done


def observe_all(progs, chunk=100, timeout=3000, touch=None, stall=50.0):
    """touch[i]: observation mode of program i (harness/observe.py).
    A program on which the library HANGS where not even the alarm of observe()
    gets through (e.g. inside a finalizer that joins a stuck thread) is found by
    lack of progress of its worker: the worker is killed, the program is
    observed as build = 'HANG', the rest of its chunk is handed out again."""
    import signal
    import time
    from .observe import refused
    jobs = list(zip(progs, touch if touch is not None else [False] * len(progs)))
    if not jobs:
        return []
    d = os.path.join(common.scratch(), 'observe-%d' % int(time.time() * 1000))
    os.makedirs(d)
    out = [None] * len(jobs)
    t0 = time.time()
    with mp.get_context('fork').Pool(common.NCPU) as pool:
        tasks = {}          # cid -> [async result, first job index, jobs, path, last size, last change]

        def submit(first, part):
            cid = len(tasks)
            path = os.path.join(d, f'{cid}.ndjson')
            tasks[cid] = [pool.apply_async(_observe_chunk_file, (cid, part, path)), first, part, path,
                          -1, time.time(), False]
        for i in range(0, len(jobs), chunk):
            submit(i, jobs[i:i + chunk])
        while True:
            open_ = [c for c, t in tasks.items() if not t[6]]
            if not open_:
                break
            if time.time() - t0 > timeout:
                raise mp.TimeoutError('observe_all: %d chunks unfinished' % len(open_))
            for cid in open_:
                res, first, part, path, size, changed, _ = tasks[cid]
                if res.ready():
                    res.get()
                    _pid, _st, done = _read_progress(path)
                    for k, o in done.items():
                        out[first + k] = o
                    tasks[cid][6] = True
                    continue
                try:
                    sz = os.path.getsize(path)
                except OSError:
                    sz = -1
                if sz != size:
                    tasks[cid][4], tasks[cid][5] = sz, time.time()
                elif sz >= 0 and time.time() - changed > stall:
                    pid, started, done = _read_progress(path)
                    for k, o in done.items():
                        out[first + k] = o
                    if started is not None and started not in done:
                        out[first + started] = refused('HANG')
                        rest = started + 1
                    else:
                        rest = (max(done) + 1) if done else 0
                    if pid:
                        try:
                            os.kill(pid, signal.SIGKILL)
                        except OSError:
                            pass
                    tasks[cid][6] = True
                    if rest < len(part):
                        submit(first + rest, part[rest:])
            time.sleep(0.25)
    import shutil
    shutil.rmtree(d, ignore_errors=True)
    return [o if o is not None else refused('HANG') for o in out]


def _observe_sched_chunk(chunk):
    from .schedobs import observe_sched
    return [observe_sched(p, seed) for p, seed in chunk]


def observe_sched_all(progs, seed0, chunk=50, timeout=3000):
    """[(observation, info)]: iterations taken under seeded line-level schedules."""
    jobs = [(p, seed0 + 31 * i) for i, p in enumerate(progs)]
    chunks = [jobs[i:i + chunk] for i in range(0, len(jobs), chunk)]
    if not chunks:
        return []
    with mp.get_context('fork').Pool(common.NCPU) as pool:
        out = pool.map_async(_observe_sched_chunk, chunks).get(timeout)
    return [o for c in out for o in c]


def _validate_chunk(args):
    idx, records, unfixed, module, cfg, workers, timeout = args
    d = tlc.prepare(unfixed, tag=f'v{idx}')
    path = os.path.join(d, 'trace.ndjson')
    with open(path, 'w') as f:
        for r in records:
            f.write(json.dumps(r, separators=(',', ':')) + '\n')
    res = tlc.run(module, cfg, workdir=d, env={'TRACE_FILE': path},
                  timeout=timeout, workers=workers, xmx='3g')
    os.remove(path)
    if res['rc'] != 0 or res['errors']:
        raise tlc.TlcError('%s: rc=%s\n%s' % (module, res['rc'], '\n'.join(res['errors'][:30])))
    out = [tlc.json_payload(line, 'VERDICT') for line in res['tagged'].get('VERDICT', [])]
    if len(out) != len(records):
        raise tlc.TlcError(f'{module}: {len(out)} verdicts for {len(records)} records')
    return out, res['stats']


def validate_records(records, module='PipelineTrace.tla', cfg='PipelineTrace.cfg',
                     unfixed=None, chunk=4000, timeout=3600):
    """Trace validation: hand the recorded observations to TLC.  Records are
    split into chunks validated by parallel TLC processes (one giant trace
    file exhausts the heap).  Returns ({id: verdict record}, stats)."""
    from concurrent.futures import ThreadPoolExecutor
    stats = {'generated': 0, 'distinct': 0}
    if not records:
        return {}, stats
    if unfixed is None:
        unfixed = common.unfixed_ids()
    chunks = [records[i:i + chunk] for i in range(0, len(records), chunk)]
    par = min(4, len(chunks))
    workers = max(2, common.NCPU // par)
    common.scratch()
    jobs = [(i, c, unfixed, module, cfg, workers, timeout) for i, c in enumerate(chunks)]
    verdicts = {}
    with ThreadPoolExecutor(par) as ex:
        for out, st in ex.map(_validate_chunk, jobs):
            for v in out:
                verdicts[v['id']] = v
            stats['generated'] += st['generated']
            stats['distinct'] += st['distinct']
    return verdicts, stats


def validate(records, unfixed=None, timeout=3600):
    v, st = validate_records(records, unfixed=unfixed, timeout=timeout)
    for r in v.values():
        for k in ('C01', 'C02', 'C03', 'C14', 'C18'):
            r[k] = tuple(r[k])
    return v, st


def short(p):
    """Compact human-readable rendering of an API program."""
    if p['op'] in ('list', 'dict'):
        ks = p.get('ks')
        body = dict(zip(ks, p['src'])) if ks is not None else list(p['src'])
        extra = '' if p['iw'] == 'pickle' else f", '{p['iw']}'"
        pl = '' if p['pl'] == 'i' else ':dictpayload'
        return f'new({body}{extra}){pl}'
    args = {k: v for k, v in p.items() if k not in ('op', 'in', 'in2')}
    a = ', '.join(f'{k}={json.dumps(v, separators=(",", ":"))}' for k, v in sorted(args.items()))
    if 'in2' in p:
        return f'{short(p["in"])}.{p["op"]}({short(p["in2"])})'
    return f'{short(p["in"])}.{p["op"]}({a})'
