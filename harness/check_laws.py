"""Check C16: algebraic laws (specs Laws.tla / LawsTrace.tla)."""
import collections
import json
import random

from . import common, pipeline, tlc
from .check_pipeline import cfg
from .common import Result

TIERS = {
    'quick': [('laws-over-depth1-len2', cfg(2, 1), 9000), ('laws-over-depth0-len3', cfg(3, 0), None)],
    'thorough': [('laws-over-depth1-len3', cfg(3, 1), None), ('laws-over-depth2-len2', cfg(2, 2), 60000)],
}


def run(prop, tier):
    res = Result(prop, tier)
    rng = random.Random(common.seed())
    try:
        insts = {}
        info = []
        for name, c, budget in TIERS[tier]:
            d = tlc.prepare()
            r = tlc.run('Laws.tla', 'MC.cfg', workdir=d, timeout=3000,
                        cfg_text=c.replace('INVARIANT EmitProgram', 'INVARIANT EmitLaws'))
            if r['rc'] != 0 or r['errors']:
                raise tlc.TlcError('Laws.tla: ' + '\n'.join(r['errors'][:20]))
            res.add_tlc(r['stats'])
            found = sorted((tlc.json_payload(l, 'VEC') for l in r['tagged'].get('VEC', [])),
                           key=lambda v: json.dumps([v['law'], v['lhs'], v['rhs']], sort_keys=True))
            flagged = [v for v in found if v['mv'][0] == 'viol']
            rest = [v for v in found if v['mv'][0] != 'viol']
            if budget is not None and len(rest) > budget:
                rest = rng.sample(rest, budget)
            for v in flagged + rest:
                insts.setdefault(json.dumps([v['law'], v['lhs'], v['rhs']], sort_keys=True), v)
            info.append({'config': name, 'instances': len(found), 'executed': len(flagged) + len(rest),
                         'model_flagged': len(flagged), 'tlc': r['stats']})
        insts = list(insts.values())
        progs = {}
        for v in insts:
            for side in ('lhs', 'rhs'):
                progs.setdefault(json.dumps(v[side], sort_keys=True), v[side])
        keys = list(progs)
        # observation modes (harness/observe.py): plain / touch / index-first -
        # the two sides of a law are often observed in different modes
        modes = {k: j % 3 for j, k in enumerate(keys)}
        obs = dict(zip(keys, pipeline.observe_all([progs[k] for k in keys],
                                                  touch=[modes[k] for k in keys])))
        records = [{'id': i + 1, 'law': v['law'], 'level': v['level'], 'lhs': v['lhs'], 'rhs': v['rhs'],
                    'ol': obs[json.dumps(v['lhs'], sort_keys=True)],
                    'or': obs[json.dumps(v['rhs'], sort_keys=True)]} for i, v in enumerate(insts)]
        verdicts, st = pipeline.validate_records(records, module='LawsTrace.tla', cfg='LawsTrace.cfg',
                                                 chunk=2500)
        res.add_tlc(st)
    except tlc.TlcError as e:
        res.machinery_errors.append(str(e))
        return res.finish()
    by = collections.Counter()
    nontrivial = 0
    samples = []
    for rec, inst in zip(records, insts):
        v = verdicts[rec['id']]
        status, clause = v['C16']
        by[f'{rec["law"]}:{status}:{clause}'] += 1
        if status == 'ok':
            nontrivial += 1
            if len(samples) < 4 and nontrivial % 900 == 1:
                samples.append({'law': rec['law'], 'level': rec['level'],
                                'lhs': pipeline.short(rec['lhs']), 'rhs': pipeline.short(rec['rhs']),
                                'iteration': rec['ol']['it1']})
        if v['conf'] != 'conforms':
            res.drift.append({'where': 'observation of a law side differs from the model',
                              'law': rec['law'], 'lhs': pipeline.short(rec['lhs'])})
        if status == 'viol':
            res.violation(f'{rec["law"]} ({rec["level"]}): {clause}: {pipeline.short(rec["lhs"])}  ~  '
                          f'{pipeline.short(rec["rhs"])}',
                          {'family': 'laws', 'law': rec['law'], 'level': rec['level'], 'lhs': rec['lhs'],
                           'rhs': rec['rhs'], 'ol': rec['ol'], 'or': rec['or'], 'verdict': [status, clause],
                           'modes': [modes[json.dumps(rec['lhs'], sort_keys=True)],
                                     modes[json.dumps(rec['rhs'], sort_keys=True)]]})
            if len(res.violations) >= 25:
                break
        elif inst['mv'][0] == 'viol':
            res.drift.append({'where': 'model-verdict', 'law': rec['law']})
    res.coverage.update({
        'traces_validated_against_impl': len(records), 'evaluations': len(records),
        'distinct_nontrivial': nontrivial, 'verdicts': dict(by), 'configs': info,
        'samples': samples or [{'note': 'none'}],
        'rule': 'one case = one proper instance of a law (both references defined and equal, neither side '
                'refused by the model) at a program TLC enumerated; both sides executed on the real library; '
                'non-trivial = verdict ok (both sides built and iterated)'})
    res.assumptions += ['TLC evaluates the TLA+ operators correctly',
                        'Python twins of the user functions equal their TLA+ definitions']
    return res.finish()


def replay(prop, path):
    from .observe import observe
    rp = json.load(open(path))
    rec = {'id': 1, 'law': rp['law'], 'level': rp['level'], 'lhs': rp['lhs'], 'rhs': rp['rhs'],
           'ol': observe(rp['lhs'], touch=rp.get('modes', [0, 0])[0]),
           'or': observe(rp['rhs'], touch=rp.get('modes', [0, 0])[1])}
    v, _ = pipeline.validate_records([rec], module='LawsTrace.tla', cfg='LawsTrace.cfg')
    print(rp['law'], pipeline.short(rp['lhs']), '~', pipeline.short(rp['rhs']), v[1]['C16'])
    return 1 if v[1]['C16'][0] == 'viol' else 0
