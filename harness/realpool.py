"""UNCONTROLLED executions of ds.prefetch / ds.map(num_workers) with the real
executors (threads and the four process back ends).  The OS schedules; per-item
delays make later items finish first.  Sampling, reported as such.

User-code events are appended by every process to one O_APPEND log (one short
line per write, atomic), the consumer appends its own events to the same file,
so the file order is the real order: "no user code after control is back" is
"no call line after the back line" - no clock comparison anywhere."""
import os
import time


def _emit(path, th, op, a, b=-1):
    fd = os.open(path, os.O_WRONLY | os.O_APPEND | os.O_CREAT)
    try:
        os.write(fd, f'{th} {op} {a} {b}\n'.encode())
    finally:
        os.close(fd)


class UserFn:
    """The mapped user function; a picklable object that carries its whole
    configuration (pathos caches worker processes: nothing may live in module
    globals)."""

    def __init__(self, path, fail, kind, delays):
        self.path, self.fail, self.kind, self.delays = path, tuple(fail), kind, tuple(delays)

    def __call__(self, x):
        _emit(self.path, 'P', 'call', x)
        d = self.delays[(x - 1) % len(self.delays)] if self.delays else 0
        if d:
            time.sleep(d)
        if x in self.fail:
            _emit(self.path, 'P', 'ret', x, 0)
            from harness.conc import _fail_exc
            raise _fail_exc(self.kind)(x)
        _emit(self.path, 'P', 'ret', x, 1)
        return x


def run(cfg, logdir, timeout=90):
    """One real run in THIS process (it forks the pool).  cfg as conc.run_ds
    plus 'backend' and 'delays'.  Returns a record like conc.run_ds."""
    import threading
    import lazy_dataset
    from .conc import OtherError, _fail_exc
    path = os.path.join(logdir, f'log-{os.getpid()}-{time.time_ns()}.txt')
    fn = UserFn(path, cfg['fn_fail'], cfg['fail_kind'], cfg['delays'])
    delivered = []
    result = {'end': 'deadlock', 'len_ok': True}
    threads_before = threading.active_count()

    def body():
        try:
            src = lazy_dataset.new(list(range(1, cfg['n'] + 1)))
            if cfg['api'] == 'prefetch':
                ds = src.map(fn).prefetch(cfg['w'], cfg['buf'], backend=cfg['backend'],
                                          catch_filter_exception=True if cfg['cfe'] else None)
                if not cfg['cfe']:
                    result['len_ok'] = len(ds) == cfg['n']
            else:
                ds = src.map(fn, num_workers=cfg['w'], buffer_size=cfg['buf'], backend=cfg['backend'])
                result['len_ok'] = len(ds) == cfg['n']
            gen = iter(ds)
            end = 'returned'
            for item in gen:
                if not isinstance(item, int):
                    item = -7          # a foreign object was delivered
                delivered.append(item)
                _emit(path, 'C', 'yield', item)
                if cfg['stop'] == 'close' and len(delivered) == cfg['stop_k']:
                    _emit(path, 'C', 'close', -1)
                    gen.close()
                    end = 'closed'
                    break
            result['end'] = end
        except (OtherError, _fail_exc('filter')):
            result['end'] = 'raised_fn'
        except BaseException as e:
            result['end'] = 'raised_other_' + type(e).__name__
        _emit(path, 'C', 'back', -1)

    t = threading.Thread(target=body, daemon=True)
    t.start()
    t.join(timeout)
    hung = t.is_alive()
    time.sleep(0.25)           # anything still running would log now
    # thread liveness is only attributable for the thread back end: the
    # process pools keep their own management threads (pathos even caches
    # the whole pool) - those are not the iteration's background threads
    alive = 0
    if cfg['backend'] == 't':
        alive = max(0, threading.active_count() - threads_before - (1 if hung else 0))
    events = []
    if os.path.exists(path):
        with open(path) as f:
            for line in f:
                parts = line.split()
                if len(parts) != 4:
                    continue
                th, op, a, b = parts
                events.append({'th': th, 'op': op, 'a': int(a), 'b': int(b)})
        os.remove(path)
    if result['end'].startswith('raised_other_') and not events[:-1] and not delivered:
        result['end'] = 'refused'      # the back end could not even start (pickling)
    rec = {k: cfg[k] for k in ('api', 'n', 'buf', 'w', 'fn_fail', 'fail_kind', 'cfe', 'stop', 'stop_k')}
    rec.update({'shape': 'range', 'seq': [], 'seq_out': 'returned'})
    rec.update({'kind': 'ds', 'events': events, 'delivered': delivered,
                'end': 'deadlock' if hung else result['end'], 'alive': alive,
                'deadlock': bool(hung), 'len_ok': bool(result['len_ok']),
                'backend': cfg['backend'], 'controlled': False})
    return rec
