"""./check <property> [--tier quick|thorough] [--replay path]"""
import argparse
import os
import shutil
import signal
import sys
import traceback


def dispatch(prop):
    if prop in ('C01', 'C02', 'C03', 'C14', 'C18'):
        from . import check_pipeline
        return (lambda tier: check_pipeline.run(prop, tier)), \
               (lambda path: check_pipeline.replay(prop, path))
    if prop == 'C17':
        from . import check_bucket
        return (lambda tier: check_bucket.run(prop, tier)), \
               (lambda path: check_bucket.replay(prop, path))
    simple = {'C09': 'check_isolation', 'C10': 'check_cache', 'C11': 'check_diskcache',
              'C12': 'check_random', 'C13': 'check_seeds', 'C19': 'check_database',
              'C20': 'check_profile'}
    if prop in simple:
        import importlib
        mod = importlib.import_module('harness.' + simple[prop])
        return (lambda tier: mod.run(prop, tier)), (lambda path: mod.replay(prop, path))
    if prop == 'C08':
        from . import check_demand
        return (lambda tier: check_demand.run(prop, tier)), \
               (lambda path: check_demand.replay(prop, path))
    if prop == 'C16':
        from . import check_laws
        return (lambda tier: check_laws.run(prop, tier)), \
               (lambda path: check_laws.replay(prop, path))
    if prop == 'C15':
        from . import check_shards
        return (lambda tier: check_shards.run(prop, tier)), \
               (lambda path: check_shards.replay(prop, path))
    if prop in ('C04', 'C05', 'C06', 'C07'):
        from . import check_conc
        return (lambda tier: check_conc.run(prop, tier)), \
               (lambda path: check_conc.replay(prop, path))
    raise SystemExit(f'no check registered for {prop}')


def main():
    ap = argparse.ArgumentParser()
    ap.add_argument('prop')
    ap.add_argument('--tier', default=os.environ.get('VERIF_TIER', 'quick'),
                    choices=['quick', 'thorough'])
    ap.add_argument('--replay')
    a = ap.parse_args()
    run, replay = dispatch(a.prop)

    main_pid = os.getpid()

    def cleanup():
        from . import common
        # (forked pool workers inherit this handler: only the main process
        #  owns the scratch directory)
        if os.getpid() == main_pid and common._scratch and not os.environ.get('VERIF_KEEP_SCRATCH'):
            shutil.rmtree(common._scratch, ignore_errors=True)

    def descendants(root):
        kids = {}
        for d in os.listdir('/proc'):
            if d.isdigit():
                try:
                    with open(f'/proc/{d}/stat') as f:
                        ppid = int(f.read().rsplit(')', 1)[1].split()[1])
                    kids.setdefault(ppid, []).append(int(d))
                except (OSError, ValueError, IndexError):
                    pass
        out, todo = [], [root]
        while todo:
            for k in kids.get(todo.pop(), []):
                out.append(k)
                todo.append(k)
        return out

    def on_term(*_):                # `timeout` / a kill: leave nothing behind
        if os.getpid() == main_pid:
            for pid in descendants(main_pid):      # pool workers, TLC / Apalache JVMs
                try:
                    os.kill(pid, signal.SIGKILL)
                except OSError:
                    pass
        cleanup()
        os._exit(143)
    signal.signal(signal.SIGTERM, on_term)
    try:
        rc = replay(a.replay) if a.replay else run(a.tier)
    except SystemExit:
        raise
    except BaseException:
        traceback.print_exc()
        rc = 2
    sys.stdout.flush()
    sys.stderr.flush()
    # nothing of this run outlives it (a leftover child would keep the caller's
    # pipes open): stuck workers, writers of a mutated library blocked on a lock
    for pid in descendants(main_pid):
        try:
            os.kill(pid, signal.SIGKILL)
        except OSError:
            pass
    cleanup()
    os._exit(rc)


if __name__ == '__main__':
    main()
