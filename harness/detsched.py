"""Controlled scheduler for the real threads of lazy_dataset.parallel_utils.

The unmodified functions `single_thread_prefetch` and `lazy_parallel_map` are
run with the names `queue`, `threading` and `concurrent` of THEIR module
namespace replaced by shims (nothing in /repo is edited).  Every virtual
thread is a real thread, but exactly one holds the baton; before every
operation on shared state a thread calls Scheduler.point(), where the
scheduler picks, among the threads whose pending operation is enabled, the
one that moves next (following a TLC schedule, a seeded RNG or a DFS).

Scheduling points:
  * every shim operation (Queue.put/get/get_nowait, Thread.start/join,
    executor submit / task take / future result / cancel / exit),
  * every source `next()` and every user-function call (instrumented twins),
  * every source LINE of parallel_utils.py that reads or writes a closure
    cell shared between threads (`shutdown`, `exc_info`): found by
    disassembling the current file, delivered by sys.settrace 'line' events.

Deadlock is exact: some virtual thread is unfinished and none is enabled.
The verdict is taken from the scheduler's own record, never from what the
code under test does while it is being unwound.
"""
import collections
import dis
import queue as _real_queue
import sys
import threading
import types


class Abort(BaseException):
    """Unwinds every virtual thread after a deadlock / replay divergence."""


class ReplayDiverged(Exception):
    pass


SENT = -9      # the end sentinel (unique_object) in event logs
EMPTY = -8     # queue.Empty
END = -1       # source exhausted
RAISE = -2     # source / function raised


class VT:
    def __init__(self, name):
        self.name = name
        self.sem = threading.Semaphore(0)
        self.state = 'new'          # new | waiting | running | done
        self.pending = None         # (op, enabled_fn)


class Scheduler:
    def __init__(self, choose):
        self.choose = choose        # choose(sched, [names of enabled threads]) -> name
        self.vts = collections.OrderedDict()
        self.events = []
        self.deadlock = False
        self.aborted = False
        self.diverged = None
        self.decisions = []         # (enabled names, chosen) for DFS / statistics
        self.tls = threading.local()
        self.max_events = 5000
        # a blocking call with a timeout may time out whenever the scheduler
        # says so (the other threads are arbitrarily slow); at most this many
        # timeouts fire per execution, afterwards such calls simply block
        self.timeouts_left = 3
        self.thread_errors = []     # exceptions that escaped a virtual thread

    # ---- registration -------------------------------------------------
    def register_current(self, name):
        vt = VT(name)
        vt.state = 'running'
        self.vts[name] = vt
        self.tls.vt = vt
        return vt

    def me(self):
        return self.tls.vt

    def log(self, op, a=-1, b=-1):
        self.events.append({'th': self.me().name, 'op': op, 'a': int(a), 'b': int(b)})
        if len(self.events) > self.max_events:
            self.abort('runaway')

    # ---- the baton ----------------------------------------------------
    def _enabled(self):
        out = []
        for vt in self.vts.values():
            if vt.state == 'waiting' and vt.pending[1]():
                out.append(vt.name)
        return out

    def abort(self, why):
        if not self.aborted:
            self.aborted = True
            self.abort_reason = why
            for vt in self.vts.values():
                if vt.state in ('waiting', 'new'):
                    vt.sem.release()
        raise Abort(why)

    def _pass_baton(self, me, blocking):
        """Pick the next thread.  `me` waits (blocking) or has finished."""
        if self.aborted:
            if blocking:
                raise Abort(self.abort_reason)
            return
        en = self._enabled()
        if not en:
            if all(vt.state == 'done' for vt in self.vts.values()):
                return
            # somebody is unfinished and nobody can move
            self.deadlock = True
            self.blocked = {vt.name: vt.pending[0] for vt in self.vts.values()
                            if vt.state == 'waiting'}
            if blocking:
                self.abort('deadlock')
            else:
                self.aborted = True
                self.abort_reason = 'deadlock'
                for vt in self.vts.values():
                    if vt.state in ('waiting', 'new'):
                        vt.sem.release()
                return
        try:
            nxt = self.choose(self, en)
        except ReplayDiverged as e:
            self.diverged = str(e)
            if blocking:
                self.abort('diverged')
            self.aborted = True
            self.abort_reason = 'diverged'
            for vt in self.vts.values():
                if vt.state in ('waiting', 'new'):
                    vt.sem.release()
            return
        self.decisions.append((tuple(en), nxt))
        target = self.vts[nxt]
        if target is me:
            me.state = 'running'
            return
        target.state = 'running'
        target.sem.release()
        if blocking:
            me.sem.acquire()
            if self.aborted:
                raise Abort(self.abort_reason)
            me.state = 'running'

    def point(self, op, enabled=None):
        """Announce the next operation of the calling thread and wait for the
        baton.  Returns when the operation may be performed."""
        me = self.me()
        if self.aborted:
            raise Abort(self.abort_reason)
        me.pending = (op, enabled or (lambda: True))
        me.state = 'waiting'
        self._pass_baton(me, True)

    def may_time_out(self, timeout):
        return timeout is not None and self.timeouts_left > 0

    def fire_timeout(self):
        self.timeouts_left -= 1

    def thread_exit(self):
        me = self.me()
        self.events.append({'th': me.name, 'op': 'exit', 'a': -1, 'b': -1})
        me.state = 'done'
        self._pass_baton(me, False)

    def idle_until_quiescent(self):
        """Called by the driver after control is back with the consumer: let
        every other thread run until none is enabled.  Returns the names of
        threads that are still alive (blocked forever)."""
        me = self.me()
        if self.aborted:
            return [vt.name for vt in self.vts.values() if vt is not me and vt.state != 'done']
        others = lambda: [vt.name for vt in self.vts.values()
                          if vt is not me and vt.state == 'waiting' and vt.pending[1]()]
        try:
            self.point('idle', enabled=lambda: not others())
        except Abort:
            pass
        return [vt.name for vt in self.vts.values() if vt is not me and vt.state != 'done']


# ---------------------------------------------------------------------------
# shims

def make_shims(sched, tracer):
    class VQueue:
        def __init__(self, maxsize=0):
            self.maxsize = maxsize
            self.items = collections.deque()
            # the FIFO of futures inside lazy_parallel_map is only ever touched
            # by the generator's own thread: not shared, no scheduling points
            self.local = sys._getframe(1).f_code.co_name == 'lazy_parallel_map'

        def _code(self, item):
            return sched.item_code(item)

        def put(self, item, block=True, timeout=None):
            if self.local:
                self.items.append(item)
                return
            full = lambda: self.maxsize > 0 and len(self.items) >= self.maxsize
            if not block:
                timeout = 0
            sched.point('put', lambda: not full() or sched.may_time_out(timeout))
            if full():
                sched.fire_timeout()
                sched.log('put_timeout', self._code(item), len(self.items))
                raise _real_queue.Full()
            self.items.append(item)
            sched.log('put', self._code(item), len(self.items))

        def get(self, block=True, timeout=None):
            if not block:
                return self.get_nowait()
            if self.local:
                return self.items.popleft()
            sched.point('get', lambda: len(self.items) > 0 or sched.may_time_out(timeout))
            if not self.items:
                sched.fire_timeout()
                sched.log('get_timeout', EMPTY, 0)
                raise _real_queue.Empty()
            item = self.items.popleft()
            sched.log('get', self._code(item), len(self.items))
            return item

        def get_nowait(self):
            if self.local:
                if not self.items:
                    raise _real_queue.Empty()
                return self.items.popleft()
            sched.point('get_nowait')
            if not self.items:
                sched.log('get_nowait', EMPTY, 0)
                raise _real_queue.Empty()
            item = self.items.popleft()
            sched.log('get_nowait', self._code(item), len(self.items))
            return item

        def qsize(self):
            return len(self.items)

        def empty(self):
            return not self.items

    class VThread:
        _count = [0]

        def __init__(self, target=None, args=(), kwargs=None, name=None, daemon=None):
            VThread._count[0] += 1
            self.vname = name or ('W' if VThread._count[0] == 1 else f'W{VThread._count[0]}')
            self.target, self.args, self.kwargs = target, args, kwargs or {}
            self.vt = None

        def start(self):
            sched.point('start')
            # nested pools / prefetch threads: virtual thread names stay unique
            base, k = self.vname, 1
            while self.vname in sched.vts:
                k += 1
                self.vname = f'{base}~{k}'
            vt = VT(self.vname)
            vt.state = 'waiting'
            vt.pending = ('begin', lambda: True)
            sched.vts[self.vname] = vt
            self.vt = vt
            sched.log('start')

            def run():
                sched.tls.vt = vt
                vt.sem.acquire()
                if sched.aborted:
                    vt.state = 'done'
                    return
                sys.settrace(tracer)
                try:
                    self.target(*self.args, **self.kwargs)
                except Abort:
                    pass
                except BaseException as e:      # an exception escaping a thread
                    sched.events.append({'th': vt.name, 'op': 'thread_exc', 'a': -1, 'b': -1})
                    sched.thread_errors.append(f'{vt.name}: {type(e).__name__}: {e}'[:200])
                finally:
                    sys.settrace(None)
                    sched.thread_exit()
            self.real = threading.Thread(target=run, daemon=True)
            self.real.start()

        def join(self, timeout=None):
            sched.point('join', lambda: self.vt.state == 'done' or sched.may_time_out(timeout))
            if self.vt.state != 'done':
                sched.fire_timeout()
                sched.log('join_timeout')
                return
            sched.log('join')

        def is_alive(self):
            sched.point('is_alive')
            alive = self.vt is not None and self.vt.state != 'done'
            sched.log('is_alive', -1, 1 if alive else 0)
            return alive

    class VSemaphore:
        def __init__(self, value=1):
            self.value = value

        def acquire(self, blocking=True, timeout=None):
            if not blocking:
                timeout = 0
            sched.point('sem_acquire', lambda: self.value > 0 or sched.may_time_out(timeout))
            if self.value <= 0:
                sched.fire_timeout()
                sched.log('sem_timeout')
                return False
            self.value -= 1
            sched.log('sem_acquire', -1, self.value)
            return True

        def release(self, n=1):
            sched.point('sem_release')
            self.value += n
            sched.log('sem_release', -1, self.value)

        __enter__ = acquire

        def __exit__(self, *a):
            self.release()

    class VLock(VSemaphore):
        def __init__(self):
            VSemaphore.__init__(self, 1)

        def locked(self):
            return self.value <= 0

    class VEvent:
        def __init__(self):
            self.flag = False

        def set(self):
            sched.point('ev_set')
            self.flag = True
            sched.log('ev_set')

        def clear(self):
            sched.point('ev_clear')
            self.flag = False

        def is_set(self):
            sched.point('ev_is_set')
            return self.flag

        def wait(self, timeout=None):
            sched.point('ev_wait', lambda: self.flag or sched.may_time_out(timeout))
            if not self.flag:
                sched.fire_timeout()
                sched.log('ev_timeout')
            return self.flag

    # ---- model of concurrent.futures.ThreadPoolExecutor ----------------
    class VFuture:
        def __init__(self, fid):
            self.fid = fid
            self.state = 'PENDING'      # PENDING RUNNING FINISHED CANCELLED
            self.value = None
            self.exc = None

        def done(self):
            return self.state in ('FINISHED', 'CANCELLED')

        def result(self, timeout=None):
            sched.point('result', self.done)
            sched.log('result', self.fid, 1 if self.exc is None else 0)
            if self.state == 'CANCELLED':
                import concurrent.futures as cf
                raise cf.CancelledError()
            if self.exc is not None:
                raise self.exc
            return self.value

        def cancel(self):
            sched.point('cancel')
            ok = self.state == 'PENDING'
            if ok:
                self.state = 'CANCELLED'
            sched.log('cancel', self.fid, 1 if ok else 0)
            return ok or self.state == 'CANCELLED'

    class VExecutor:
        def __init__(self, max_workers=None):
            # (as the real ThreadPoolExecutor)
            if max_workers is None:
                max_workers = 4
            if max_workers <= 0:
                raise ValueError('max_workers must be greater than 0')
            self.max_workers = max_workers
            self.work = collections.deque()
            self.threads = []
            self.shutdown_flag = False
            self.nfut = 0

        def __enter__(self):
            return self

        def submit(self, fn, *args, **kwargs):
            sched.point('submit')
            self.nfut += 1
            fut = VFuture(self.nfut)
            self.work.append((fut, fn, args, kwargs))
            sched.log('submit', fut.fid, len(self.work))
            if len(self.threads) < self.max_workers:
                t = VThread(target=self._worker, name=f'T{len(self.threads) + 1}')
                self.threads.append(t)
                t.start()
            return fut

        def _worker(self):
            while True:
                sched.point('take', lambda: bool(self.work) or self.shutdown_flag)
                if not self.work:
                    return
                fut, fn, args, kwargs = self.work.popleft()
                if fut.state == 'CANCELLED':
                    sched.log('skip', fut.fid)
                    continue
                fut.state = 'RUNNING'
                sched.log('take', fut.fid)
                try:
                    v = fn(*args, **kwargs)
                except Abort:
                    raise
                except BaseException as e:
                    sched.point('done')
                    fut.exc = e
                    fut.state = 'FINISHED'
                    sched.log('done', fut.fid, 0)
                else:
                    sched.point('done')
                    fut.value = v
                    fut.state = 'FINISHED'
                    sched.log('done', fut.fid, 1)

        def __exit__(self, *exc):
            sched.point('exec_exit')
            self.shutdown_flag = True
            sched.log('exec_exit')
            for t in self.threads:
                t.join()
            return False

        def shutdown(self, wait=True, cancel_futures=False):
            self.__exit__()

    class VLifoQueue(VQueue):
        def get(self, block=True, timeout=None):
            if self.items:
                self.items.rotate(1)        # the newest item comes out first
            return VQueue.get(self, block, timeout)

        def get_nowait(self):
            if self.items:
                self.items.rotate(1)
            return VQueue.get_nowait(self)

    class Fallback:
        """A module namespace: the shims first, then the real module."""

        def __init__(self, real, **shims):
            self.__dict__['_real'] = real
            self.__dict__.update(shims)

        def __getattr__(self, name):
            return getattr(self._real, name)

    qmod = Fallback(_real_queue, Queue=VQueue, SimpleQueue=VQueue, LifoQueue=VLifoQueue)
    tmod = Fallback(threading, Thread=VThread, Semaphore=VSemaphore, BoundedSemaphore=VSemaphore,
                    Lock=VLock, RLock=VLock, Event=VEvent)
    import concurrent.futures as cf
    fmod = types.SimpleNamespace(ThreadPoolExecutor=VExecutor,
                                 ProcessPoolExecutor=cf.ProcessPoolExecutor,
                                 Future=VFuture, Executor=cf.Executor,
                                 CancelledError=cf.CancelledError)
    cmod = types.SimpleNamespace(futures=fmod)
    return qmod, tmod, cmod


# ---------------------------------------------------------------------------
# line-level scheduling points for the lock-free closure cells

def shared_cell_lines(module):
    """{lineno: (kind, cell, ordinal)} for lines of single_thread_prefetch (and
    its nested worker) that load / store the cells `shutdown`, `exc_info`.
    Recomputed from the CURRENT code object, so it follows edits."""
    fn = module.single_thread_prefetch
    out = {}

    def scan(code, where):
        for ins in dis.get_instructions(code):
            if ins.argval in ('shutdown', 'exc_info') and ins.opname in (
                    'LOAD_DEREF', 'STORE_DEREF', 'LOAD_CLOSURE'):
                if ins.opname == 'LOAD_CLOSURE':
                    continue
                line = ins.positions.lineno if ins.positions else None
                if line is None:
                    continue
                kind = 'wr' if ins.opname == 'STORE_DEREF' else 'rd'
                out.setdefault(line, (kind, ins.argval, where))
        for c in code.co_consts:
            if isinstance(c, types.CodeType):
                scan(c, c.co_name)
    scan(fn.__code__, 'consumer')
    return out


class Controlled:
    """Context manager: parallel_utils runs under `sched` inside the block."""

    def __init__(self, choose, line_files=(), pu_lines=False):
        """line_files: source files in which EVERY line executed by a virtual
        thread is a scheduling point once a second thread exists (dataset code
        shared between pool workers)."""
        import lazy_dataset.parallel_utils as pu
        self.pu = pu
        line_files = frozenset(line_files)
        # pu_lines: EVERY line of parallel_utils.py is a scheduling point (not
        # only the lines touching the closure cells found by shared_cell_lines);
        # only for free-running choosers - the schedules of the specification
        # are counted in operations of the specification
        self.sched = Scheduler(choose)
        self.lines = shared_cell_lines(pu)
        # ordinal tags: the k-th line (in source order) per (thread role, cell, kind)
        self.tags = {}
        counters = {}
        for line in sorted(self.lines):
            kind, cell, where = self.lines[line]
            key = (where, cell, kind)
            self.tags[line] = counters.get(key, 0)
            counters[key] = counters.get(key, 0) + 1
        self.file = pu.__file__
        sched = self.sched
        lines, tags = self.lines, self.tags
        first_init = {}

        def local_trace(frame, event, arg):
            if event == 'line' and frame.f_lineno in lines:
                kind, cell, where = lines[frame.f_lineno]
                if getattr(sched.tls, 'vt', None) is None or sched.aborted:
                    return local_trace
                # the initialisations `shutdown = False`, `exc_info = None` run
                # before the worker exists: not shared yet (no scheduling point).
                # NB (CPython <= 3.12): frame.f_locals is a snapshot that is
                # WRITTEN BACK into the cells when this function returns - it is
                # only ever touched when no other thread can have run since.
                if where == 'consumer' and kind == 'wr' and len(sched.vts) < 2:
                    return local_trace
                sched.point(kind + '_' + cell)
                val = -1
                if kind == 'rd':
                    try:
                        cellv = frame.f_locals.get(cell)     # refreshed: after the point
                        val = 1 if cellv else 0
                    except Exception:
                        val = -1
                sched.log(('rd_' if kind == 'rd' else 'wr_') + ('sd' if cell == 'shutdown' else 'exc'),
                          tags[frame.f_lineno], val)
            elif event == 'line' and pu_lines and len(sched.vts) >= 2 and not sched.aborted \
                    and getattr(sched.tls, 'vt', None) is not None:
                sched.point('ln')        # (frame.f_locals is not touched here)
            return local_trace

        def shared_trace(frame, event, arg):
            if event == 'line' and len(sched.vts) >= 2 and not sched.aborted \
                    and getattr(sched.tls, 'vt', None) is not None:
                sched.point('ln')
            return shared_trace

        def tracer(frame, event, arg):
            if event == 'call':
                fn = frame.f_code.co_filename
                if fn == self.file:
                    return local_trace
                if fn in line_files:
                    return shared_trace
            return None
        self.tracer = tracer
        self.shims = make_shims(sched, tracer)

    def __enter__(self):
        pu = self.pu
        self.saved = (pu.queue, pu.threading, pu.concurrent)
        pu.queue, pu.threading, pu.concurrent = self.shims
        self.sched.register_current('C')
        sys.settrace(self.tracer)
        return self.sched

    def __exit__(self, *a):
        sys.settrace(None)
        pu = self.pu
        pu.queue, pu.threading, pu.concurrent = self.saved
        return False
