"""Python twins of the user-function catalogue of specs/Values.tla.

Every function here has exactly the meaning of the TLA+ operator of the same
name; values are plain Python objects (int, list, tuple, str, {'x': n}).
"""
import lazy_dataset
from lazy_dataset.core import FilterException


class SubFilterException(FilterException):
    pass


class UserValueError(ValueError):
    pass


class UserKeyError(KeyError):
    pass


class UserIndexError(IndexError):
    pass


class UserBaseException(BaseException):
    pass


EXC = {
    'FilterException': FilterException,
    'SubFilterException': SubFilterException,
    'UserValueError': UserValueError,
    'UserKeyError': UserKeyError,
    'UserIndexError': UserIndexError,
    'UserBaseException': UserBaseException,
}
USER_EXC = set(EXC)

CATCH = {
    'Filter': FilterException,
    'FilterOrValue': (FilterException, UserValueError),
    'Exception': Exception,
    'UserKey': UserKeyError,
    'Lookup': LookupError,
}


def size(x):
    if isinstance(x, bool):
        return 0
    if isinstance(x, int):
        return x
    if isinstance(x, (list, tuple)):
        return len(x)
    if isinstance(x, dict):
        return x['x']
    return 0


def inc(x):
    if isinstance(x, int) and not isinstance(x, bool):
        return x + 1
    if isinstance(x, list):
        return [inc(e) for e in x]
    if isinstance(x, tuple):
        return tuple(inc(e) for e in x)
    if isinstance(x, dict):
        return {'x': x['x'] + 1}
    return x


def wrap(x):
    return [x, x]


def pair(x):
    return (x, x)


def incinc(x):
    return inc(inc(x))


def incwrap(x):
    return wrap(inc(x))


MAPFNS = {'inc': inc, 'wrap': wrap, 'pair': pair, 'incinc': incinc, 'incwrap': incwrap}


def pred(p):
    pn = p['pn']
    if pn == 'even':
        return lambda x: size(x) % 2 == 0
    # (two of the predicates answer with truthy / falsy NON-bool values, as
    #  user predicates like `len(ex['words'])` or `x % 2` do)
    if pn == 'odd':
        return lambda x: size(x) % 2
    if pn == 'gt1':
        return lambda x: [0] * max(size(x) - 1, 0)
    if pn == 'le1':
        return lambda x: size(x) <= 1
    if pn == 'always':
        return lambda x: True
    if pn == 'never':
        return lambda x: False
    if pn == 'insz':
        sz = set(p['sz'])
        return lambda x: size(x) in sz
    if pn == 'notinsz':
        sz = set(p['sz'])
        return lambda x: size(x) not in sz
    raise ValueError(p)


def keyfn(kf):
    if kf == 'id':
        return lambda x: size(x)
    if kf == 'neg':
        return lambda x: -size(x)
    if kf == 'mod2':
        return lambda x: size(x) % 2
    if kf == 'const':
        return lambda x: 7
    if kf == 'big':
        return lambda x: 2 ** 60 + size(x)
    if kf == 'biginf':
        return lambda x: float('inf') if size(x) == 0 else 2 ** 60 + size(x)
    if kf == 'fs2':
        return lambda x: frozenset({size(x) % 2})
    if kf == 'mix2':
        return lambda x: None if size(x) % 2 == 0 else 'odd'
    raise ValueError(kf)


def sortfn(sfn):
    """The sort_fn twin of specs/Values.tla IntLessBy / StrLessBy."""
    if sfn == 'std':
        return sorted
    import functools

    def m3(seq, reverse=False):
        def cmp(p, q):
            if isinstance(p, str):                     # example keys: descending
                return (q > p) - (q < p)
            (v, i), (w, j) = p, q                      # pairs (sort value, position)
            a, b = (v % 3, v, i), (w % 3, w, j)
            return (a > b) - (a < b)
        return sorted(seq, key=functools.cmp_to_key(cmp), reverse=reverse)
    return m3


def group_key(kf, sel):
    """The Python group id that stands for the integer id `sel` of the spec."""
    if kf == 'fs2':
        return frozenset({sel})
    if kf == 'mix2':
        return None if sel == 0 else ('odd' if sel == 1 else ('no-such-group', sel))
    return sel


def failing(p, cls):
    """A map function that raises `cls` when predicate p holds (op fmap)."""
    pr = pred(p)
    exc = EXC[cls]

    def fn(x):
        if pr(x):
            raise exc(f'injected {cls}')
        return x
    fn.__name__ = f'fail_{p["pn"]}_{cls}'
    return fn
