"""Seeded generator of deep random API programs (code -> spec direction).

Draws from the catalogue of specs/Pipeline.tla but without its shape
restrictions: any combinator at any depth, both operands of a binary
combinator arbitrarily deep, rich parameters everywhere.  Whether a program
is buildable does not matter: TLC judges every recorded observation against
the reference and the model (a refused program is a trivial verdict)."""
import random

NONE = 99
KEYS = ['a', 'b', 'c', 'd', 'e']
FAIL = ['FilterException', 'SubFilterException', 'UserValueError', 'UserKeyError',
        'UserIndexError', 'UserBaseException']
CATCH = ['Filter', 'FilterOrValue', 'Exception', 'UserKey', 'Lookup']


def source(rng, maxlen, payload='i'):
    n = rng.randint(0, maxlen)
    kind = rng.choice(['list', 'dict', 'dict', 'wu', 'copy', 'dup', 'pq'])
    if kind == 'dict':
        return {'op': 'dict', 'ks': KEYS[:n], 'src': list(range(1, n + 1)), 'pl': payload,
                'iw': 'pickle'}
    if kind == 'pq':
        return {'op': 'dict', 'ks': ['pp', 'qq'], 'src': [7, 8], 'pl': payload, 'iw': 'pickle'}
    if kind == 'dup':
        return {'op': 'list', 'src': [1, 1, 2], 'pl': payload, 'iw': 'pickle'}
    if kind == 'wu':
        n = max(n, 1)
        return {'op': 'list', 'src': list(range(1, n + 1)), 'pl': payload, 'iw': 'wu'}
    return {'op': 'list', 'src': list(range(1, n + 1)), 'pl': payload,
            'iw': 'copy' if kind == 'copy' else 'pickle'}


def _bound(rng, n):
    return rng.choice([NONE, NONE] + list(range(-n - 1, n + 2)))


def slice_form(rng, n):
    k = rng.random()
    if k < 0.45:
        return {'fk': 'sl', 'a': _bound(rng, n), 'b': _bound(rng, n),
                'c': rng.choice([NONE, NONE, 1, 2, -1, -2, 3, -3])}
    if k < 0.7:
        m = rng.randint(0, 4)
        lo, hi = (-n, n - 1) if rng.random() < 0.85 else (-n - 1, n)
        idx = [rng.randint(lo, hi) if hi >= lo else 0 for _ in range(m)] if n > 0 or rng.random() < 0.3 else []
        return {'fk': 'il', 'idx': idx, 'as': rng.choice(['list', 'tuple', 'np', '2d'])}
    if k < 0.85:
        m = n if rng.random() < 0.9 else n + 1
        return {'fk': 'bm', 'mask': [rng.random() < 0.5 for _ in range(m)],
                'as': rng.choice(['list', 'np'])}
    m = rng.randint(1, 3)
    pool = KEYS[:max(n, 1)] + (['zz'] if rng.random() < 0.15 else []) + ['pp', 'qq'][:rng.randint(0, 2)]
    return {'fk': 'kl', 'kl': [rng.choice(pool) for _ in range(m)],
            'as': rng.choice(['list', 'tuple'])}


def pred(rng, n):
    k = rng.choice(['even', 'odd', 'gt1', 'le1', 'always', 'never', 'insz', 'notinsz'])
    if k in ('insz', 'notinsz'):
        return {'pn': k, 'sz': sorted(rng.sample(range(0, n + 2), rng.randint(0, min(3, n + 2))))}
    return {'pn': k}


def unary(rng, n, family, full=None):
    ops = ['map', 'map', 'filter', 'filter', 'slice', 'slice', 'slice', 'batch', 'unbatch',
           'items', 'tile', 'sort', 'sort', 'split', 'shard', 'cache', 'catch', 'copy',
           'prefetch', 'prefetch', 'shuffle', 'group', 'apply']
    if family == 'fault':
        ops += ['fmap', 'fmap', 'fmap', 'catch', 'catch']
    op = rng.choice(ops)
    if op == 'map':
        if rng.random() < 0.15:
            w = rng.choice([1, 2])
            return {'op': 'pmap', 'f': rng.choice(['inc', 'wrap']), 'w': w, 'bs': rng.randint(w, 3)}
        return {'op': 'map', 'f': rng.choice(['inc', 'wrap', 'pair'])}
    if op == 'fmap':
        return {'op': 'fmap', 'p': pred(rng, n), 'cls': rng.choice(FAIL)}
    if op == 'filter':
        return {'op': 'filter', 'p': pred(rng, n), 'lazy': rng.random() < 0.5}
    if op == 'slice':
        return {'op': 'slice', 'form': slice_form(rng, n)}
    if op == 'batch':
        return {'op': 'batch', 'b': rng.randint(1, 3), 'drop': rng.random() < 0.4}
    if op == 'tile':
        return {'op': 'tile', 'reps': rng.randint(1, 3)}
    if op == 'sort':
        d = {'op': 'sort', 'key': rng.choice(['none', 'id', 'neg', 'mod2', 'const']),
             'rev': rng.random() < 0.5}
        if rng.random() < 0.3:
            d['sfn'] = 'm3'
        return d
    if op in ('split', 'shard'):
        sk = rng.randint(0, n + 1)
        return {'op': op, 'sk': sk, 'si': rng.randint(-1, sk)}
    if op == 'cache':
        return {'op': 'cache', 'lazy': rng.random() < 0.6}
    if op == 'catch':
        return {'op': 'catch', 'E': rng.choice(CATCH)}
    if op == 'copy':
        return {'op': 'copy', 'freeze': rng.random() < 0.5}
    if op == 'prefetch':
        w = rng.choice([1, 1, 2, 3])
        return {'op': 'prefetch', 'w': w, 'bs': rng.randint(max(1, w - 1), 3),
                'cfe': rng.choice(['none', 'none', 'Filter', 'FilterOrValue'])}
    if op == 'shuffle':
        perm = list(range(n if full is None else full))
        rng.shuffle(perm)
        return {'op': 'shuffle', 'perm': perm}
    if op == 'group':
        return {'op': 'group', 'g': rng.choice(['mod2', 'const', 'id']),
                'sel': rng.choice([0, 1, 2, 7])}
    if op == 'apply':
        ag = unary(rng, n, family, full)
        while ag['op'] in ('apply', 'shuffle'):
            ag = unary(rng, n, family, full)
        return {'op': 'apply', 'lazy': rng.random() < 0.7, 'ag': ag}
    return {'op': op}


def _len_guess(p):
    """A cheap guess of the dataset length (only steers parameter choice)."""
    op = p['op']
    if op in ('list', 'dict'):
        return len(p['src'])
    n = _len_guess(p['in'])
    if op == 'concat':
        return n + _len_guess(p['in2'])
    if op == 'intersperse':
        return n + _len_guess(p['in2'])
    if op == 'tile':
        return n * p['reps']
    if op == 'batch':
        return -(-n // p['b'])
    if op == 'unbatch':
        return n * 2
    if op == 'slice' and p['form']['fk'] in ('il', 'kl'):
        return len(p['form'].get('idx', p['form'].get('kl', [])))
    return n


def program(rng, depth, maxlen=3, family='core', payload='i'):
    if depth <= 0:
        return source(rng, maxlen, payload)
    if rng.random() < 0.22:
        d1 = rng.randint(0, depth - 1)
        d2 = rng.randint(0, depth - 1 - d1) if rng.random() < 0.5 else 0
        a = program(rng, d1, maxlen, family, payload)
        b = a if rng.random() < 0.25 else program(rng, d2, maxlen, family, payload)
        return {'op': rng.choice(['concat', 'concat', 'intersperse', 'zip', 'keyzip']),
                'in': a, 'in2': b}
    inner = program(rng, depth - 1, maxlen, family, payload)
    full = _len_guess(inner)
    n = min(full, 8)
    d = unary(rng, n, family, full if full <= 30 else None)
    d['in'] = inner
    return d


def programs(seed, count, depths=(3, 4, 5, 6), maxlen=3, family='core', payload='i', top=None):
    rng = random.Random(seed)
    out = []
    for i in range(count):
        p = program(rng, depths[i % len(depths)], maxlen, 'core' if family == 'sortgroup' else family,
                    payload)
        if top == 'sortgroup':       # a sort / groupby on top of a random pipeline
            if rng.random() < 0.7:
                p = {'op': 'sort', 'key': rng.choice(['none', 'id', 'neg', 'mod2', 'const', 'big', 'biginf']),
                     'rev': rng.random() < 0.5, 'in': p}
                if p['key'] not in ('big', 'biginf') and rng.random() < 0.35:
                    p['sfn'] = 'm3'        # a custom sort function
            else:
                p = {'op': 'group', 'g': rng.choice(['mod2', 'const', 'id', 'fs2', 'mix2']),
                     'sel': rng.choice([0, 1, 2, 3, 7]), 'in': p}
        out.append(p)
    return out


def _builds(p):
    import warnings
    from .build import build
    try:
        with warnings.catch_warnings():
            warnings.simplefilter('ignore')
            build(p)
        return True
    except Exception:
        return False


def shared_programs(seed, count, depths=(1, 2, 3, 4), maxlen=3):
    """Pipelines consumed through a worker pool: prefetch / parallel map with
    2..3 workers on top of a random pipeline (the workers index one shared
    dataset object)."""
    rng = random.Random(seed * 7 + 1)
    out = []
    while len(out) < count:
        p = program(rng, depths[len(out) % len(depths)], maxlen, 'core', 'i')
        if rng.random() < 0.5:
            p = {'op': 'map', 'f': rng.choice(['inc', 'wrap']), 'in': p}
        w = rng.choice([2, 2, 3])
        if rng.random() < 0.75:
            p = {'op': 'prefetch', 'w': w, 'bs': rng.randint(w, 4), 'cfe': 'none', 'in': p}
        else:
            p = {'op': 'pmap', 'f': rng.choice(['inc', 'wrap']), 'w': w, 'bs': rng.randint(w, 4),
                 'in': p}
        # most random pipelines are refused by a pool prefetch (not indexable,
        # no len): keep every 8th of those, all of the others
        if _builds(p) or rng.random() < 0.125:
            out.append(p)
    return out
