"""Check C09 (examples handed out are isolated from the stored data), decided
with specs Isolation.tla / IsolationTrace.tla.

  design       : TLC checks the heap invariants of Isolation.tla on the REPAIRED
                 model and re-discovers the aliasing defect (S15) on the
                 ORIGINAL-behaviour model;
  spec -> code : TLC enumerates histories of accesses (every path) and in-place
                 mutations (kept objects at top / nested level, the caller's
                 original container) for every storage mode; each is executed on
                 real nested examples {'t': 0, 'a': [k, {'b': 0}]};
  code -> spec : the recorded observations (content by deep comparison,
                 identities by `is`, a final re-read of every example through
                 every path) and seeded random long histories go back to TLC
                 (IsolationTrace.tla), which evaluates V_C09 on the REAL
                 observation and the conformance with the heap model.
"""
import gc
import itertools
import json
import multiprocessing as mp
import os
import random
import signal
import warnings
from . import common, tlc
from .common import Result
from .pipeline import validate_records

KEYS = 'abcde'
ALLPATHS = ('idx', 'key', 'slice', 'iter', 'items', 'copy')
LISTPATHS = ('idx', 'slice', 'iter', 'copy')
S15_TAG = 'S15:memcopy-aliases-store'


def cfg(pars, depth, paths, lvls, maxhand, maxmo, rebind, k=2, emit=True, design=False):
    inv = ''
    if emit:
        inv += 'INVARIANT EmitHistory\n'
    if design:
        inv += 'INVARIANT DesignHolds\nINVARIANT HeapNoAlias\nINVARIANT StoresPristine\n'
    return f'''CONSTANTS
  Pars <- {pars}
  K = {k}
  Depth = {depth}
  Paths <- {paths}
  Lvls <- {lvls}
  MaxHand = {maxhand}
  MaxMo = {maxmo}
  Rebind = {rebind}
SPECIFICATION Spec
{inv}CHECK_DEADLOCK FALSE
'''


# (name, cfg keyword arguments, replay budget: None = every history is executed)
TIERS = {
    'quick': {
        'bfs': [
            ('new-d3-allpaths', dict(pars='ParsNew', depth=3, paths='PathsAll',
                                     lvls='LvlBoth', maxhand=2, maxmo=1, rebind='TRUE'), None),
            ('cache-d3-allpaths', dict(pars='ParsCache', depth=3, paths='PathsAll',
                                       lvls='LvlBoth', maxhand=2, maxmo=1, rebind='FALSE'),
             None),
            ('disk-d3', dict(pars='ParsDisk', depth=3, paths='PathsThree', lvls='LvlBoth',
                             maxhand=2, maxmo=0, rebind='FALSE'), 1500),
            ('deep-d5', dict(pars='ParsDeep', depth=5, paths='PathsTwo', lvls='LvlNest',
                             maxhand=3, maxmo=1, rebind='FALSE'), 10000),
        ],
        'design': dict(pars='ParsAll', depth=4, paths='PathsThree', lvls='LvlBoth',
                       maxhand=2, maxmo=1, rebind='TRUE'),
        'random': {'count': 1500, 'steps': (10, 30)},
    },
    'thorough': {
        'bfs': [
            ('all-d4-allpaths', dict(pars='ParsAll', depth=4, paths='PathsAll',
                                     lvls='LvlBoth', maxhand=3, maxmo=1, rebind='TRUE'),
             200000),
            ('deep-d6', dict(pars='ParsDeep', depth=6, paths='PathsTwo', lvls='LvlNest',
                             maxhand=3, maxmo=1, rebind='FALSE'), 150000),
            ('k3-d4', dict(pars='ParsDeep', depth=4, paths='PathsThree', lvls='LvlBoth',
                           maxhand=3, maxmo=1, rebind='FALSE', k=3), 100000),
        ],
        'design': dict(pars='ParsAll', depth=5, paths='PathsThree', lvls='LvlBoth',
                       maxhand=3, maxmo=1, rebind='TRUE'),
        'random': {'count': 40000, 'steps': (10, 30)},
    },
}
FLAGGED_CAP = 4


# ---------------------------------------------------------------------------
# executing one history on the real library

class _Timeout(BaseException):
    pass


def _alarm(*_):
    raise _Timeout()


# Two example shapes (the model is the same for both):
#   'dict'  : {'t': tv, 'a': [k, {'b': nv}]}
#   'tuple' : ([tv], [k, {'b': nv}])  - an immutable top level with mutable
#             insides, as key_zip / zip / items() / a map returning a tuple make
SHAPE = ['dict']


#   'numpy' : {'t': array([tv, k]), 'a': [k, {'b': array([nv])}]}  - the mutable
#             fields are numeric numpy arrays written IN PLACE (arr[0] = ...), what a
#             store that keeps zero-copy buffers must not let through
def example(k, tv=0, nv=0):
    if SHAPE[0] == 'tuple':
        return ([tv], [k, {'b': nv}])
    if SHAPE[0] == 'numpy':
        import numpy as np
        return {'t': np.array([tv, k], dtype=np.int64), 'a': [k, {'b': np.array([nv], dtype=np.int64)}]}
    return {'t': tv, 'a': [k, {'b': nv}]}


def _parts(x):
    """(holder of the top value, nested list) of an example of either shape."""
    if isinstance(x, tuple):
        return x[0], x[1]
    return x, x['a']


def content(x, k):
    """(tv, nv) when x deep-equals the example of key k with these two fields,
    (-1, -1) for anything else."""
    try:
        top, nest = _parts(x)
        if SHAPE[0] == 'numpy':
            import numpy as np
            t, b = x['t'], x['a'][1]['b']
            ok = (isinstance(x, dict) and set(x) == {'t', 'a'} and isinstance(t, np.ndarray)
                  and t.shape == (2,) and int(t[1]) == k and isinstance(x['a'], list)
                  and len(x['a']) == 2 and x['a'][0] == k and set(x['a'][1]) == {'b'}
                  and isinstance(b, np.ndarray) and b.shape == (1,))
            return (int(t[0]), int(b[0])) if ok else (-1, -1)
        tv = top[0] if isinstance(x, tuple) else top['t']
        nv = nest[1]['b']
        if type(tv) is int and type(nv) is int and x == example(k, tv, nv):
            return tv, nv
    except Exception:
        pass
    return -1, -1


def _same_top(x, y):
    if isinstance(x, tuple) and isinstance(y, tuple):
        return x[0] is y[0]          # (equal tuples may be one object: look inside)
    if SHAPE[0] == 'numpy' and x is not y:
        try:
            import numpy as np
            return bool(np.shares_memory(x['t'], y['t']))
        except Exception:
            return False
    return x is y


def _same_nested(x, y):
    try:
        a, b = _parts(x)[1], _parts(y)[1]
        if SHAPE[0] == 'numpy' and not (a is b or a[1] is b[1]):
            import numpy as np
            return bool(np.shares_memory(a[1]['b'], b[1]['b']))
        return a is b or a[1] is b[1]
    except Exception:
        return False


def _stored_objects(ds):
    """Mutable objects the dataset chain holds (cache dict values, examples of
    the source); bytes and numpy buffers are immutable snapshots."""
    out = []
    d = ds
    for _ in range(8):
        c = getattr(d, '_cache', None)
        inner = getattr(c, 'cache', None)
        if isinstance(inner, dict):
            out += [v for v in inner.values() if isinstance(v, (dict, list, tuple))]
        ex = getattr(d, 'examples', None)
        if isinstance(ex, dict):
            out += [v for v in ex.values() if isinstance(v, (dict, list, tuple))]
        elif isinstance(ex, (list, tuple)):
            out += [v for v in ex if isinstance(v, (dict, list, tuple))]
        d = getattr(d, 'input_dataset', None)
        if d is None:
            break
    return out


_dir_counter = itertools.count()


def build(par, container):
    import lazy_dataset
    from lazy_dataset.core import CacheDataset
    mode = par['mode']
    if mode in ('pickle', 'copy', 'wu'):
        return lazy_dataset.new(container, immutable_warranty=mode), None
    ds = lazy_dataset.new(container)
    if mode == 'mempickle':
        return ds.cache(), None
    if mode == 'memcopy':
        return CacheDataset(ds, immutable_warranty='copy'), None
    if mode == 'disk':
        d = os.path.join(common.scratch(), 'iso', f'{os.getpid()}-{next(_dir_counter)}')
        os.makedirs(os.path.dirname(d), exist_ok=True)
        return ds.diskcache(cache_dir=d, reuse=False, clear=True), d
    raise ValueError(mode)


def access(ds, path, k):
    i = k - 1
    if path == 'idx':
        return ds[i]
    if path == 'key':
        return ds[KEYS[i]]
    if path == 'slice':
        return ds[i:][0]
    if path == 'iter':
        return list(ds)[i]
    if path == 'items':
        return list(ds.items())[i][1]
    if path == 'copy':
        return ds.copy(freeze=True)[i]
    raise ValueError(path)


def _mutate(x, lvl, stamp):
    top, nest = _parts(x)
    if SHAPE[0] == 'numpy':          # in-place writes into the arrays
        if lvl == 'top':
            x['t'][0] = stamp
        else:
            x['a'][1]['b'][0] = stamp
        return
    if lvl == 'top':
        if isinstance(x, tuple):
            top[0] = stamp
        else:
            top['t'] = stamp
    else:
        nest[1]['b'] = stamp


NOOBS = {'exc': 'none', 'tv': 0, 'nv': 0, 'at': [], 'an': [], 'ast': False, 'asn': False}


def execute(par, hist, timeout=30.0):
    """Run `hist`; returns the observation record (shape of Isolation.tla ModelRun)."""
    import psutil
    n = par['k']
    orig_vm = psutil.virtual_memory
    total = orig_vm().total
    psutil.virtual_memory = lambda: type('vm', (), {'available': total, 'total': total})()
    old = signal.signal(signal.SIGALRM, _alarm)
    signal.setitimer(signal.ITIMER_REAL, timeout)
    steps, final = [], []
    ds = cache_dir = None
    try:
        with warnings.catch_warnings():
            warnings.simplefilter('ignore')
            import zlib
            SHAPE[0] = ('dict', 'tuple', 'numpy')[zlib.crc32(json.dumps(hist, sort_keys=True).encode()) % 3]
            exs = [example(j) for j in range(n)]
            container = {KEYS[j]: exs[j] for j in range(n)} if par['src'] == 'dict' else list(exs)
            ckey = (lambda k: KEYS[k - 1]) if par['src'] == 'dict' else (lambda k: k - 1)
            origs = list(exs)               # every object the caller's container held
            ds, cache_dir = build(par, container)
            handed = []
            for t, s in enumerate(hist, 1):
                o = dict(NOOBS)
                try:
                    if s['op'] == 'acc':
                        x = access(ds, s['path'], s['k'])
                        tv, nv = content(x, s['k'] - 1)
                        stored = origs + _stored_objects(ds)
                        o = {'exc': 'none', 'tv': tv, 'nv': nv,
                             'at': [h + 1 for h, y in enumerate(handed) if _same_top(x, y)],
                             'an': [h + 1 for h, y in enumerate(handed) if _same_nested(x, y)],
                             'ast': any(_same_top(x, y) for y in stored),
                             'asn': any(_same_nested(x, y) for y in stored)}
                        handed.append(x)
                    elif s['op'] == 'mut':
                        _mutate(handed[s['h'] - 1], s['lvl'], t)
                    elif s['op'] == 'mo':
                        _mutate(container[ckey(s['k'])], s['lvl'], t)
                    elif s['op'] == 'ro':
                        fresh = example(s['k'] - 1, t, t)
                        container[ckey(s['k'])] = fresh
                        origs.append(fresh)
                    else:
                        raise ValueError(s['op'])
                except _Timeout:
                    raise
                except BaseException as e:     # noqa: the class is the observation
                    o = dict(NOOBS, exc=type(e).__name__)
                steps.append(o)
            for path in (ALLPATHS if par['src'] == 'dict' else LISTPATHS):
                for k in range(1, n + 1):
                    try:
                        tv, nv = content(access(ds, path, k), k - 1)
                        final.append({'path': path, 'k': k, 'exc': 'none', 'tv': tv, 'nv': nv})
                    except _Timeout:
                        raise
                    except BaseException as e:     # noqa
                        final.append({'path': path, 'k': k, 'exc': type(e).__name__,
                                      'tv': -1, 'nv': -1})
    except _Timeout:
        while len(steps) < len(hist):
            steps.append(dict(NOOBS, exc='HANG'))
    finally:
        signal.setitimer(signal.ITIMER_REAL, 0)
        signal.signal(signal.SIGALRM, old)
        psutil.virtual_memory = orig_vm
        # release the dataset so that the disk cache clears its directory
        ds = handed = x = None
    if cache_dir is not None and os.path.exists(cache_dir):
        gc.collect()                     # (a full collection is slow: only when needed)
    obs = {'steps': steps, 'final': final}
    if cache_dir is not None and os.path.exists(cache_dir):
        obs['leftover_dir'] = True
        import shutil
        shutil.rmtree(cache_dir, ignore_errors=True)
    return obs


def _execute_chunk(chunk):
    return [execute(p, h) for p, h in chunk]


def execute_all(jobs, chunk=100, timeout=3000):
    chunks = [jobs[i:i + chunk] for i in range(0, len(jobs), chunk)]
    if not chunks:
        return []
    common.scratch()                     # created in the parent, inherited by the workers
    gc.collect()
    gc.freeze()                          # the workers' collections skip the inherited heap
    try:
        with mp.get_context('fork').Pool(common.NCPU) as pool:
            out = pool.map_async(_execute_chunk, chunks).get(timeout)
    finally:
        gc.unfreeze()
    return [o for c in out for o in c]


# ---------------------------------------------------------------------------
# histories

def enumerate_histories(cfg_text, unfixed=None, timeout=3600, workers=None):
    d = tlc.prepare(unfixed)
    r = tlc.run('Isolation.tla', 'MC_gen.cfg', workdir=d, cfg_text=cfg_text, timeout=timeout,
                workers=workers)
    if r['rc'] != 0 or r['errors']:
        raise tlc.TlcError('Isolation.tla: rc=%s\n%s' % (r['rc'], '\n'.join(r['errors'][:30])))
    recs = [tlc.json_payload(line, 'VEC') for line in r['tagged'].get('VEC', [])]
    return recs, r['stats']


def step(op, path='', k=0, h=0, lvl=''):
    return {'op': op, 'path': path, 'k': k, 'h': h, 'lvl': lvl}


MODES = [('pickle', 'dict'), ('pickle', 'list'), ('copy', 'dict'), ('copy', 'list'),
         ('wu', 'list'), ('mempickle', 'dict'), ('memcopy', 'dict'), ('disk', 'dict')]


def random_histories(seed, count, steps):
    """Seeded long histories (code -> spec only); vocabulary of Isolation.tla."""
    rng = random.Random(seed * 7919 + 9)
    out = []
    for _ in range(count):
        mode, src = rng.choice(MODES[:-1] * 6 + MODES[-1:])
        n = rng.choice((2, 3))
        par = {'mode': mode, 'src': src, 'k': n}
        paths = ALLPATHS if src == 'dict' else LISTPATHS
        hist, nh = [], 0
        for _t in range(rng.randint(*steps)):
            x = rng.random()
            if x < 0.45 and nh < 12 or nh == 0:
                hist.append(step('acc', rng.choice(paths), rng.randint(1, n)))
                nh += 1
            elif x < 0.85:
                hist.append(step('mut', h=rng.randint(1, nh), lvl=rng.choice(('top', 'nest'))))
            elif x < 0.95:
                hist.append(step('mo', k=rng.randint(1, n), lvl=rng.choice(('top', 'nest'))))
            else:
                hist.append(step('ro', k=rng.randint(1, n)))
        out.append({'par': par, 'hist': hist})
    return out


def short(par, hist):
    iw = {'pickle': "new(c)", 'copy': "new(c,'copy')", 'wu': "new(c,'wu')",
          'mempickle': 'new(c).cache()',
          'memcopy': "CacheDataset(new(c),immutable_warranty='copy')",
          'disk': 'new(c).diskcache(dir)'}[par['mode']]
    out, nh = [], 0
    ck = (lambda k: repr(KEYS[k - 1])) if par['src'] == 'dict' else (lambda k: str(k - 1))
    for s in hist:
        i = s['k'] - 1
        if s['op'] == 'acc':
            nh += 1
            rhs = {'idx': f'ds[{i}]', 'key': f'ds[{KEYS[i]!r}]', 'slice': f'ds[{i}:][0]',
                   'iter': f'list(ds)[{i}]', 'items': f'list(ds.items())[{i}][1]',
                   'copy': f'ds.copy(True)[{i}]'}[s['path']]
            out.append(f'x{nh}={rhs}')
        elif s['op'] == 'mut':
            out.append(f"x{s['h']}['t']=*" if s['lvl'] == 'top' else f"x{s['h']}['a'][1]['b']=*")
        elif s['op'] == 'mo':
            out.append(f"c[{ck(s['k'])}]['t']=*" if s['lvl'] == 'top'
                       else f"c[{ck(s['k'])}]['a'][1]['b']=*")
        else:
            out.append(f"c[{ck(s['k'])}]=<new example>")
    return f"[{par['src']} c, {par['k']} examples] ds={iw}; " + '; '.join(out)


# ---------------------------------------------------------------------------

def design_check(kw, workers=None):
    """TLC on the design itself: the repaired heap model satisfies every
    invariant; the original behaviour of S15 is refuted."""
    base = [u for u in common.unfixed_ids() if u != 'S15']
    text = cfg(emit=False, design=True, **kw)
    info, errors = {}, []
    d = tlc.prepare(base)
    r = tlc.run('Isolation.tla', 'MC_design.cfg', workdir=d, cfg_text=text, timeout=3000,
                workers=workers)
    stats = r['stats']
    info['design_repaired'] = {'rc': r['rc'], 'tlc': r['stats']}
    if r['rc'] != 0 or r['errors']:
        errors.append('Isolation.tla design check (repaired model) failed: rc=%s %s'
                      % (r['rc'], ' | '.join(r['errors'][:6])))
    d = tlc.prepare(base + ['S15'])
    r = tlc.run('Isolation.tla', 'MC_design.cfg', workdir=d, cfg_text=text, timeout=3000,
                workers=workers)
    refuted = [e for e in r['errors'] if 'is violated' in e]
    info['design_original_S15'] = {'rc': r['rc'], 'refuted': refuted[:3]}
    if not refuted:
        errors.append('Isolation.tla: the original-behaviour model (S15) is not refuted by TLC')
    return stats, info, errors


def open_finding(fid):
    for f in common.load_findings()['findings']:
        if f['id'] == fid and f['status'] == 'open' and f['property'] == 'C09':
            return f
    return None


def run(prop, tier):
    assert prop == 'C09'
    res = Result(prop, tier)
    rng = random.Random(common.seed())
    plan = TIERS[tier]
    configs = []
    # the model of the tree as it is: S15 original while it is not recorded as fixed
    fixed = {f['id'] for f in common.load_findings()['findings'] if f['status'] == 'fixed'}
    unfixed = sorted(set(common.unfixed_ids()) | ({'S15'} - fixed))
    try:
        from concurrent.futures import ThreadPoolExecutor
        common.scratch()
        par_runs = min(4, len(plan['bfs']) + 1)
        w = max(2, common.NCPU // par_runs)
        with ThreadPoolExecutor(par_runs) as ex:
            fd = ex.submit(design_check, plan['design'], w)
            fe = [ex.submit(enumerate_histories, cfg(**kw), unfixed, 3600, w)
                  for _, kw, _ in plan['bfs']]
            st, info, errs = fd.result()
            enumerated = [f.result() for f in fe]
        res.add_tlc(st)
        res.machinery_errors += errs
        jobs = {}
        for (name, kw, budget), (recs, st) in zip(plan['bfs'], enumerated):
            res.add_tlc(st)
            flagged = [r for r in recs if r['mv'][0] == 'viol']
            rest = [r for r in recs if r['mv'][0] != 'viol']
            if budget is not None and len(rest) > budget:
                rest = rng.sample(rest, budget)
            if budget is not None and len(flagged) > budget // FLAGGED_CAP:
                flagged = rng.sample(flagged, budget // FLAGGED_CAP)
            for r in flagged + rest:
                key = json.dumps([r['par'], r['hist']], sort_keys=True)
                jobs.setdefault(key, {'par': r['par'], 'hist': r['hist'], 'src': name})
            configs.append({'config': name, 'enumerated': len(recs),
                            'model_flagged': len(flagged),
                            'executed': len(flagged) + len(rest),
                            'exhaustive_replay': budget is None
                            or len(recs) <= budget, 'tlc': st})
        rp = plan['random']
        fresh = 0
        for r in random_histories(common.seed(), rp['count'], rp['steps']):
            key = json.dumps([r['par'], r['hist']], sort_keys=True)
            if key not in jobs:
                jobs[key] = {'par': r['par'], 'hist': r['hist'], 'src': 'random'}
                fresh += 1
        configs.append({'config': 'random-long (python generator, code -> spec only)',
                        'generated': rp['count'], 'distinct_new': fresh,
                        'steps': list(rp['steps'])})
        jobs = list(jobs.values())
        obs = execute_all([(j['par'], j['hist']) for j in jobs])
        records = [{'id': i + 1, 'par': j['par'], 'hist': j['hist'],
                    'obs': {'steps': o['steps'], 'final': o['final']}}
                   for i, (j, o) in enumerate(zip(jobs, obs))]
        verdicts, st = validate_records(records, module='IsolationTrace.tla',
                                        cfg='IsolationTrace.cfg', unfixed=unfixed,
                                        timeout=900 if tier == 'quick' else 3600)
        res.add_tlc(st)
    except tlc.TlcError as e:
        res.machinery_errors.append(str(e))
        return res.finish()
    leftovers = sum(1 for o in obs if o.get('leftover_dir'))
    res.coverage['configs'] = configs
    res.coverage['design'] = info
    res.coverage['model_unfixed'] = unfixed
    res.coverage['disk_cache_dirs_left_behind'] = leftovers
    res.coverage['traces_validated_against_impl'] = len(records)
    res.coverage['evaluations'] = len(records)
    by_clause, by_mode, known, samples, nontrivial = {}, {}, {}, [], 0
    viol_counts = {}
    for rec in records:
        v = verdicts[rec['id']]
        status, clause = v[prop]
        by_clause[f'{status}:{clause}'] = by_clause.get(f'{status}:{clause}', 0) + 1
        mk = f"{rec['par']['mode']}/{rec['par']['src']}:{status}"
        by_mode[mk] = by_mode.get(mk, 0) + 1
        text = short(rec['par'], rec['hist'])
        if status == 'ok':
            nontrivial += 1
            if len(samples) < 4 and rec['id'] % 211 == 0:
                samples.append({'history': text, 'verdict': clause})
        if v['conf'] != 'conforms':
            res.drift.append({'where': v['conf'], 'history': text})
        if status != 'viol':
            if v['mv'][0] == 'viol':
                res.drift.append({'where': 'model-verdict', 'history': text, 'model': v['mv']})
            continue
        # classification (reporting only): the violation is S15 when it happens in
        # mode memcopy and is exactly what the original-behaviour model predicts
        is_s15 = (rec['par']['mode'] == 'memcopy' and 'S15' in unfixed
                  and v['conf'] == 'conforms' and list(v['mv']) == list(v[prop]))
        tag = S15_TAG if is_s15 else ''
        kf = open_finding('S15') if is_s15 else None
        if kf is not None:
            known['S15'] = known.get('S15', 0) + 1
            if known['S15'] == 1:
                res.known_finding('S15', f"{kf['what']} [{tag} {clause}] e.g. {text}")
            continue
        bad = [o for o in rec['obs']['steps'] if o['exc'] != 'none' or o['tv'] or o['nv']
               or o['at'] or o['an'] or o['ast'] or o['asn']]
        bad_final = [o for o in rec['obs']['final'] if o['exc'] != 'none' or o['tv'] or o['nv']]
        # every violating history is counted; at most 3 replay files per
        # (classification, clause) and 25 in total are written
        vkey = f'{tag}|{clause}'
        viol_counts[vkey] = viol_counts.get(vkey, 0) + 1
        if viol_counts[vkey] > 3 or len(res.violations) >= 25:
            continue
        res.violation(f'{tag + " " if tag else ""}{clause}: {text}',
                      {'family': 'isolation', 'par': rec['par'], 'hist': rec['hist'],
                       'obs': rec['obs'], 'verdict': [status, clause], 'classification': tag,
                       'model_verdict': v['mv'], 'conformance': v['conf'],
                       'offending_steps': bad[:4], 'offending_final_reads': bad_final[:4],
                       'how': 'real observation judged by TLC (IsolationTrace.tla, V_C09)'})
    res.coverage['violating_histories'] = viol_counts
    if not samples and records:
        samples.append({'history': short(records[0]['par'], records[0]['hist']),
                        'verdict': list(verdicts[records[0]['id']][prop])})
    res.coverage['samples'] = samples
    res.coverage['distinct_nontrivial'] = nontrivial
    res.coverage['verdicts'] = by_clause
    res.coverage['verdicts_by_mode'] = by_mode
    res.coverage['known_finding_hits'] = known
    res.coverage['rule'] = (
        'histories = all step sequences TLC enumerates from Isolation.tla (BFS, every storage '
        'mode of the config) plus seeded random long ones; each is executed once on real nested '
        'examples; a history is non-trivial when V_C09 on the REAL observation is "ok": it '
        'contains at least one mutation, at least one example is not exempt (copy mode after '
        'the original was mutated) and every read / identity clause holds')
    res.assumptions += [
        'TLC evaluates the TLA+ operators correctly',
        'pickle and diskcache round-trip dict/list/int examples faithfully (trusted, not modelled)',
        'identity against stored objects is observed on the caller-visible originals plus the '
        'dict/list values reachable through _cache.cache / examples of the dataset chain',
        'the scratch file system has more than 1 GB free (DiskCacheDataset.check() raises below)',
    ]
    return res.finish()


def replay(prop, path):
    with open(path) as f:
        rp = json.load(f)
    o = execute(rp['par'], rp['hist'])
    fixed = {f['id'] for f in common.load_findings()['findings'] if f['status'] == 'fixed'}
    unfixed = sorted(set(common.unfixed_ids()) | ({'S15'} - fixed))
    v, _ = validate_records([{'id': 1, 'par': rp['par'], 'hist': rp['hist'],
                              'obs': {'steps': o['steps'], 'final': o['final']}}],
                            module='IsolationTrace.tla', cfg='IsolationTrace.cfg',
                            unfixed=unfixed)
    print('history :', short(rp['par'], rp['hist']))
    print('verdict :', v[1][prop], ' model:', v[1]['mv'], ' conformance:', v[1]['conf'])
    print('observed:', json.dumps(o)[:2000])
    return 1 if v[1][prop][0] == 'viol' else 0
