"""Check C15: split / shard partition the dataset (specs Shards / ShardsTrace)."""
import json
import multiprocessing as mp
import warnings

from . import common, pipeline, tlc
from .common import Result

CFG = '''CONSTANT N = {n}
SPECIFICATION Spec
INVARIANT ModelHolds
INVARIANT Emit
CHECK_DEADLOCK FALSE
'''
TIERS = {'quick': 40, 'thorough': 160}


def _observe(nk):
    import lazy_dataset
    n, k = nk
    keys = [f'k{i:04d}' for i in range(n)]
    out = {'n': n, 'k': k, 'ok': False, 'shards': [], 'shardeq': True, 'stable': True, 'exc': 'none'}
    with warnings.catch_warnings():
        warnings.simplefilter('ignore')
        ds = lazy_dataset.new(list(range(n)))
        dd = lazy_dataset.new({key: i for i, key in enumerate(keys)})
        try:
            parts = ds.split(k)
            out['ok'] = True
            out['shards'] = [[int(x) for x in p] for p in parts]
        except BaseException as e:
            out['exc'] = type(e).__name__
        try:
            dparts = dd.split(k)
            d_ok = True
        except BaseException:
            d_ok = False
        if d_ok != out['ok']:
            out['shardeq'] = False
        if out['ok'] and d_ok:
            # every index: -k-1 .. k+1; as split(k)[i], a negative index counts
            # from the end and an index outside [-k, k) is refused
            for i in range(-len(parts) - 1, len(parts) + 2):
                try:
                    want = out['shards'][i]
                except IndexError:
                    want = None
                try:
                    sh = [int(x) for x in ds.shard(k, i)]
                    dsh = dd.shard(k, i)
                    same = (want is not None and sh == want and list(dsh) == want
                            and list(dsh.keys()) == [keys[j] for j in want]
                            and list(dparts[i].keys()) == [keys[j] for j in want])
                except BaseException:
                    same = want is None
                if not same:
                    out['shardeq'] = False
            # the same dataset object asked again after the caller modified the
            # list it got (the k-fold idiom: folds.pop(f)), and again after reverse()
            try:
                for edit in (lambda p: p.pop(), lambda p: p.reverse()):
                    if parts:
                        edit(parts)
                    again = ds.split(k)
                    if [[int(x) for x in p] for p in again] != out['shards']:
                        out['stable'] = False
                    for i in range(len(out['shards'])):
                        if [int(x) for x in ds.shard(k, i)] != out['shards'][i]:
                            out['stable'] = False
                    parts = again
            except BaseException:
                out['stable'] = False
        elif not out['ok']:
            # an invalid count must be rejected by shard() as well
            try:
                ds.shard(k, 0)
                out['shardeq'] = False
                out['ok'] = True
            except BaseException:
                pass
    return out


def run(prop, tier):
    res = Result(prop, tier)
    try:
        d = tlc.prepare()
        r = tlc.run('Shards.tla', 'MC.cfg', workdir=d, cfg_text=CFG.format(n=TIERS[tier]))
        if r['rc'] != 0 or r['errors']:
            raise tlc.TlcError('Shards.tla: ' + '\n'.join(r['errors'][:20]))
        res.add_tlc(r['stats'])
        pairs = sorted({(v['n'], v['k']) for v in (tlc.json_payload(l, 'VEC') for l in r['tagged']['VEC'])})
        with mp.get_context('fork').Pool(common.NCPU) as pool:
            obs = pool.map(_observe, pairs, chunksize=50)
        records = [dict(o, id=i + 1) for i, o in enumerate(obs)]
        verdicts, st = pipeline.validate_records(
            [{k: r_[k] for k in ('id', 'n', 'k', 'ok', 'shards', 'shardeq', 'stable')} for r_ in records],
            module='ShardsTrace.tla', cfg='ShardsTrace.cfg', chunk=1500)
        res.add_tlc(st)
    except tlc.TlcError as e:
        res.machinery_errors.append(str(e))
        return res.finish()
    nontrivial = 0
    for rec in records:
        v = verdicts[rec['id']]
        status, clause = v['C15']
        if status == 'viol':
            res.violation(f'{clause}: n={rec["n"]} k={rec["k"]}',
                          {'family': 'shards', 'n': rec['n'], 'k': rec['k'], 'observed': rec,
                           'verdict': [status, clause]})
            if len(res.violations) >= 25:
                break
        elif 1 <= rec['k'] <= rec['n']:
            nontrivial += 1
        if v['conf'] != 'conforms':
            res.drift.append({'where': v['conf'], 'n': rec['n'], 'k': rec['k']})
    res.coverage.update({
        'traces_validated_against_impl': len(records), 'evaluations': len(records),
        'distinct_nontrivial': nontrivial, 'exhaustive': True,
        'samples': [r_ for r_ in records if r_['n'] == 7 and r_['k'] in (0, 3, 8)],
        'rule': f'every (n, k) with 0 <= n <= {TIERS[tier]}, -1 <= k <= n + 2, every shard index, '
                'list- and dict-backed sources; non-trivial = valid shard count (1 <= k <= n)'})
    res.assumptions.append('TLC evaluates the TLA+ operators correctly')
    return res.finish()


def replay(prop, path):
    rp = json.load(open(path))
    print(json.dumps(_observe((rp['n'], rp['k']))))
    return 1
