"""Observation of a pipeline whose worker threads are scheduled at SOURCE-LINE
granularity inside lazy_dataset/core.py (harness/detsched.py): the pool
workers of prefetch(num_workers>1) / map(num_workers>1) index one shared
(frozen copy of the) dataset, so every lazily built table, memo or cache in
the dataset classes is a shared variable.  The two iterations of the plain
observation are replaced by iterations under two seeded random schedules."""
import warnings
from . import conc, detsched, observe
from .values import to_json


def scheduled_iteration(ds, seed, stay):
    import lazy_dataset.core as core
    ctl = detsched.Controlled(conc.sticky_chooser(seed, stay), line_files=(core.__file__,))
    items = []
    exc = 'none'
    with ctl as sched:
        sched.max_events = 20000
        sched.item_code = lambda item: -1        # values are not part of the event log here
        try:
            for x in ds:
                items.append(to_json(x))
                if len(items) > observe.RUNAWAY:
                    exc = 'RUNAWAY'
                    break
        except detsched.Abort:
            exc = 'ABORT:' + str(sched.abort_reason)
        except observe.ObserveTimeout:
            raise
        except BaseException as e:
            exc = type(e).__name__
        if not exc.startswith('ABORT'):
            try:
                sched.idle_until_quiescent()
            except detsched.Abort:
                pass
    info = {'decisions': len(sched.decisions),
            'switches': sum(1 for j in range(1, len(sched.decisions))
                            if sched.decisions[j][1] != sched.decisions[j - 1][1]),
            'threads': len(sched.vts), 'thread_errors': list(sched.thread_errors)}
    return {'items': items, 'exc': exc}, info


def observe_sched(api, seed, stay=0.8, timeout=40.0):
    """Plain observation with it1 / it2 taken under controlled schedules.
    Returns (observation, info); info['sched'] is 'ok', 'skipped' (nothing was
    built) or 'aborted' (the scheduler gave up: the plain observation is kept)."""
    import signal
    o = observe.observe(api)
    if o['build'] != 'ok':
        return o, {'sched': 'skipped'}
    old = signal.signal(signal.SIGALRM, observe._alarm)
    signal.setitimer(signal.ITIMER_REAL, timeout)
    try:
        with warnings.catch_warnings():
            warnings.simplefilter('ignore')
            ds = observe.build(api)
            it1, i1 = scheduled_iteration(ds, seed, stay)
            it2, i2 = scheduled_iteration(ds, seed + 7919, stay)
    except observe.ObserveTimeout:
        return o, {'sched': 'aborted', 'why': 'timeout'}
    finally:
        signal.setitimer(signal.ITIMER_REAL, 0)
        signal.signal(signal.SIGALRM, old)
    if it1['exc'].startswith('ABORT') or it2['exc'].startswith('ABORT'):
        return o, {'sched': 'aborted', 'why': it1['exc'] + '/' + it2['exc']}
    o = dict(o)
    o['it1'], o['it2'] = it1, it2
    return o, {'sched': 'ok', 'seed': seed, 'threads': max(i1['threads'], i2['threads']),
               'switches': i1['switches'] + i2['switches'],
               'decisions': i1['decisions'] + i2['decisions'],
               'thread_errors': i1['thread_errors'] + i2['thread_errors']}
