"""Take the full observation of a real dataset object; the record has the
shape of specs/Obs.tla ModelObs (field for field)."""
import itertools
import logging
import warnings
import numpy as np
from .values import to_json
from .build import build

logging.getLogger('lazy_dataset').setLevel(logging.ERROR)    # catch(warn=True) only logs

PROBE = ['a', 'b', 'c', 'd', 'pp', 'zz']
RUNAWAY = 2000


class ObserveTimeout(BaseException):
    """Raised by the per-program alarm; never swallowed by an observation."""


def _alarm(*_):
    raise ObserveTimeout()


def _exc(e):
    return type(e).__name__


def refused(cls):
    it = {'items': [], 'exc': '-'}
    return {'build': cls, 'idx': '-', 'ord': '-',
            'len': {'ok': False, 'n': 0, 'exc': '-'},
            'it1': it, 'it2': it, 'itk': it,
            'keys': {'ok': False, 'ks': [], 'exc': '-'},
            'gi': [], 'gs': [], 'ginsame': True,
            'len2': {'ok': False, 'n': 0, 'exc': '-'}}


def flag(fn):
    try:
        v = fn()
    except ObserveTimeout:
        raise
    except BaseException as e:
        return _exc(e)
    if v is True:
        return 'T'
    if v is False:
        return 'F'
    return '?' + type(v).__name__


def outcome_v(fn):
    try:
        v = fn()
    except ObserveTimeout:
        raise
    except BaseException as e:
        return {'ok': False, 'v': {'t': 'i', 'n': 0}, 'exc': _exc(e)}, e
    return {'ok': True, 'v': to_json(v), 'exc': 'none'}, None


def iterate(make_iterable, take):
    items = []
    try:
        it = iter(make_iterable())
        if take is not None:
            it = itertools.islice(it, take)
        for x in it:
            items.append(to_json(x))
            if len(items) > RUNAWAY:
                return {'items': items[:5], 'exc': 'RUNAWAY'}
    except ObserveTimeout:
        raise
    except BaseException as e:
        return {'items': items, 'exc': _exc(e)}
    return {'items': items, 'exc': 'none'}


IDXFIRST = [False]   # index-first mode: ds[i] for all i, LAST to first, before the first iteration


def observe_ds(ds, take=None):
    idx = flag(lambda: ds.indexable)
    ord_ = flag(lambda: ds.ordered)
    try:
        n = len(ds)
        len_ = {'ok': True, 'n': int(n), 'exc': 'none'}
    except ObserveTimeout:
        raise
    except BaseException as e:
        len_ = {'ok': False, 'n': 0, 'exc': _exc(e)}
    def index_all():
        rng = range(-(len_['n'] + 2), len_['n'] + 2) if len_['ok'] else range(-2, 3)
        gi, same = [], True
        for i in (reversed(rng) if IDXFIRST[0] else rng):
            r, e = outcome_v(lambda: ds[i])
            gi.append({'i': i, 'r': r, 'ie': isinstance(e, IndexError)})
            r2, _ = outcome_v(lambda: ds[np.int64(i)])
            if r2 != r:
                same = False
        return sorted(gi, key=lambda g: g['i']), same
    if IDXFIRST[0]:          # the order of observations must not matter
        gi, ginsame = index_all()
    it1 = iterate(lambda: ds, take)
    try:
        ks = ds.keys()
        keys = {'ok': True, 'ks': [k if isinstance(k, str) else repr(k) for k in ks],
                'exc': 'none'}
    except ObserveTimeout:
        raise
    except BaseException as e:
        keys = {'ok': False, 'ks': [], 'exc': _exc(e)}
    if not IDXFIRST[0]:
        gi, ginsame = index_all()
    gs = []
    for k in PROBE:
        r, e = outcome_v(lambda: ds[k])
        gs.append({'k': k, 'r': r, 'le': isinstance(e, LookupError)})
    itk = iterate(lambda: ds.items(), take)
    it2 = iterate(lambda: ds, take)
    try:                     # len() once more, after everything else
        len2 = {'ok': True, 'n': int(len(ds)), 'exc': 'none'}
    except ObserveTimeout:
        raise
    except BaseException as e:
        len2 = {'ok': False, 'n': 0, 'exc': _exc(e)}
    return {'build': 'ok', 'len2': len2, 'idx': idx, 'ord': ord_, 'len': len_, 'it1': it1,
            'it2': it2, 'itk': itk, 'keys': keys, 'gi': gi, 'gs': gs,
            'ginsame': ginsame}


def observe(api, timeout=20.0, touch=False):
    """Observation of one API program; a program that does not come back
    within `timeout` seconds - and, tried again, not within three times that
    (a loaded machine is not a hang) - is reported as build = 'HANG'."""
    from . import build as _b
    _b.TOUCH[0] = touch in (True, 1)
    IDXFIRST[0] = touch == 2
    import os
    for t in (timeout, 3 * timeout):
        try:
            r = _observe_once(api, t)
        except ObserveTimeout:          # the alarm went off inside a `finally`
            r = None
        if r is not None:
            return r
        try:                            # only a LOADED machine earns a second, longer try
            if os.getloadavg()[0] < 1.25 * (os.cpu_count() or 1):
                break
        except OSError:
            pass
    return refused('HANG')


def _observe_once(api, timeout):
    import signal
    old = signal.signal(signal.SIGALRM, _alarm)
    signal.setitimer(signal.ITIMER_REAL, timeout)
    try:
        with warnings.catch_warnings():
            warnings.simplefilter('ignore')
            try:
                ds = build(api)
            except ObserveTimeout:
                raise
            except BaseException as e:
                return refused(_exc(e))
            take = api['take'] if api['op'] == 'cycle' else None
            return observe_ds(ds, take)
    except ObserveTimeout:
        return None
    finally:
        signal.setitimer(signal.ITIMER_REAL, 0)
        signal.signal(signal.SIGALRM, old)
