"""Check C17 (dynamic bucket batching), decided with specs Bucket.tla /
BucketTrace.tla.

  spec -> code : TLC explores Bucket.tla breadth-first: every parameter
                 setting of the configuration x every length sequence over the
                 alphabet up to MaxLen, all design-level invariants in every
                 state; each finished behaviour is emitted with the model's
                 batches and replayed on the REAL DynamicBucketDataset (exact
                 arithmetic: fractions.Fraction rates);
  code -> spec : every real observation (TLC's cases, seeded random longer
                 ones, a float-rate sample) goes back to TLC (BucketTrace.tla),
                 which evaluates V_C17 on the REAL observation and the
                 conformance with the model's prediction.
"""
import json
import multiprocessing as mp
import random
from fractions import Fraction
from . import common, findings, tlc
from .common import Result
from .pipeline import validate_records

NONE = 99                      # stands for None (Values.tla NONE)

INVARIANTS = ['InvBufferedCount', 'InvNoCrash', 'InvOpenIncomplete', 'InvPartition',
              'InvShape', 'InvExpiry', 'InvBuffered', 'InvDropExact']


def _set(xs):
    def lit(x):
        if isinstance(x, bool):
            return 'TRUE' if x else 'FALSE'
        if isinstance(x, str):
            return f'"{x}"'
        return str(NONE if x is None else x)
    return '{' + ', '.join(lit(x) for x in xs) + '}'


def cfg(maxlen, alphabet=(1, 2, 4, 5, 8, 10), bs=(1, 2, 3), rates=(0, 2, 5, 9),
        mts=(None, 8), exp=(None, 1, 2), mbuf=(None, 1, 2), drop=(False, True),
        sort=('none',), invariants=INVARIANTS):
    """cfg text of one exhaustive exploration of Bucket.tla (rates in tenths)."""
    inv = '\n'.join(f'INVARIANT {i}' for i in invariants)
    return f'''CONSTANTS
  Alphabet = {_set(alphabet)}
  MaxLen = {maxlen}
  BatchSizes = {_set(bs)}
  RateTenths = {_set(rates)}
  MaxTotals = {_set(mts)}
  Expirations = {_set(exp)}
  MaxBuffered = {_set(mbuf)}
  DropModes = {_set(drop)}
  SortModes = {_set(sort)}
SPECIFICATION Spec
{inv}
INVARIANT EmitCase
CHECK_DEADLOCK FALSE
'''


# (name, cfg text, validation budget).  EVERY emitted behaviour is executed on
# the real code and compared with the behaviour (spec -> code).  Handed on to
# TLC's trace validation (code -> spec) are: every behaviour on which the real
# code differs, every behaviour the MODEL flags, and a seeded sample of
# `budget` others (None = all).
TIERS = {
    'quick': {
        'bfs': [
            ('len3-broad', cfg(3, alphabet=(1, 2, 4, 5, 10), bs=(1, 2, 3), exp=(None, 1, 2),
                               mbuf=(None, 1, 2)), 8000),
            ('len4-interplay', cfg(4, alphabet=(2, 4, 5, 8, 10), bs=(2, 3), rates=(2, 5),
                                   mts=(None, 8), exp=(None, 2), mbuf=(None, 2)), 8000),
            ('len4-sorted', cfg(4, alphabet=(1, 2, 4, 8), bs=(3,), rates=(5, 9), mts=(None,),
                                exp=(None, 2), mbuf=(None,), sort=('asc', 'desc')), 3000),
        ],
        'random': {'count': 5000, 'floats': 500},
    },
    'thorough': {
        'bfs': [
            ('len3-broad', cfg(3, bs=(1, 2, 3, 4), mts=(None, 8, 16), exp=(None, 1, 2),
                               mbuf=(None, 1, 2)), 20000),
            ('len4-broad', cfg(4, bs=(2, 3, 4), rates=(2, 5, 9), mts=(None, 8, 16),
                               exp=(None, 1, 3), mbuf=(None, 1, 3), drop=(False,)), 20000),
            ('len4-drop', cfg(4, bs=(2, 3), rates=(2, 5, 9), mts=(None, 8), exp=(None, 1, 3),
                              mbuf=(None, 1, 3), drop=(True,)), 20000),
            ('len5-interplay', cfg(5, bs=(2, 3), rates=(2, 5), mts=(None, 16), exp=(None, 3),
                                   mbuf=(None, 3), drop=(False,)), 20000),
            ('len6-small-alphabet', cfg(6, alphabet=(2, 4, 5, 10), bs=(2, 3), rates=(5,),
                                        mts=(None, 16), exp=(None, 2, 4), mbuf=(None, 2, 4),
                                        drop=(False,)), 20000),
            ('len7-three-letters', cfg(7, alphabet=(2, 4, 5), bs=(2, 3), rates=(2, 5),
                                       mts=(None, 16), exp=(None, 3), mbuf=(None, 3),
                                       drop=(False,)), 20000),
            ('len8-two-letters', cfg(8, alphabet=(4, 5), bs=(2, 3, 4), rates=(0, 2),
                                     mts=(None, 8, 16), exp=(None, 2, 5), mbuf=(None, 2, 5)),
             20000),
            ('len4-sorted', cfg(4, alphabet=(1, 2, 4, 5, 10), bs=(2, 3), rates=(5, 9),
                                mts=(None, 16), exp=(None, 2), mbuf=(None, 2),
                                sort=('asc', 'desc')), 20000),
        ],
        'random': {'count': 40000, 'floats': 4000},
    },
}


# --------------------------------------------------------------------------
# the real code

def _opt(x):
    return None if x == NONE else x


def iterate_real(par, lens, drop, float_rate=False, direct=False):
    """One real iteration; returns (batches as [[id, len], ..], pulls, exc)."""
    import lazy_dataset
    from lazy_dataset.core import DynamicBucketDataset, DynamicTimeSeriesBucket
    examples = [{'id': k, 'len': n} for k, n in enumerate(lens)]
    pulled = [0]
    num, den = par['rate']
    rate = (num / den) if float_rate else Fraction(num, den)
    sort_key = None if par['sort'] == 'none' else 'len'
    kw = dict(expiration=_opt(par['exp']), max_buffered_examples=_opt(par['mbuf']),
              drop_incomplete=drop, sort_key=sort_key, reverse_sort=par['sort'] == 'desc')
    if direct:
        class Source:                       # any iterable is accepted
            def __iter__(self):
                for e in examples:
                    pulled[0] += 1
                    yield e
        ds = DynamicBucketDataset(Source(), DynamicTimeSeriesBucket, batch_size=par['bs'],
                                  len_key='len', max_padding_rate=rate,
                                  max_total_size=_opt(par['mts']), **kw)
    else:
        def tap(e):
            pulled[0] += 1
            return e
        ds = lazy_dataset.new(examples).map(tap).batch_dynamic_time_series_bucket(
            batch_size=par['bs'], len_key='len', max_padding_rate=rate,
            max_total_size=_opt(par['mts']), **kw)
    batches, pulls, exc = [], [], 'none'
    try:
        for b in ds:
            batches.append([[e['id'], e['len']] for e in b])
            pulls.append(pulled[0])
    except Exception as e:                  # noqa: the class is the observation
        exc = type(e).__name__
    return batches, pulls, exc


def observe(case):
    """The observation record BucketTrace.tla judges."""
    par, lens = case['par'], case['lens']
    fl = bool(case.get('tol'))
    direct = bool(case.get('direct'))
    b, p, e = iterate_real(par, lens, par['drop'], fl, direct)
    ref, refp = [], []
    if par['drop']:
        ref, refp, e2 = iterate_real(par, lens, False, fl, direct)
        if e == 'none' and e2 != 'none':
            e = e2
    return {'batches': b, 'pulls': p, 'exc': e, 'ref': ref, 'refpulls': refp}


def _observe_chunk(chunk):
    return [observe(c) for c in chunk]


# --------------------------------------------------------------------------
# case generation

def enumerate_all(bfs):
    """Run the exhaustive explorations (in parallel TLC processes); returns
    per configuration the emitted VEC lines and TLC's statistics."""
    from concurrent.futures import ThreadPoolExecutor
    common.scratch()
    par = min(3, len(bfs))
    workers = max(2, common.NCPU // par)

    def one(job):
        name, cfg_text, _ = job
        d = tlc.prepare(tag='-' + name)
        r = tlc.run('Bucket.tla', 'MC_bucket.cfg', workdir=d, cfg_text=cfg_text,
                    timeout=3600, workers=workers, xmx='6g')
        if r['rc'] != 0 or r['errors']:
            raise tlc.TlcError('Bucket.tla [%s]: rc=%s\n%s'
                               % (name, r['rc'], '\n'.join(r['errors'][:40])))
        return r['tagged'].get('VEC', []), r['stats']
    with ThreadPoolExecutor(par) as ex:
        return list(ex.map(one, bfs))


def _replay_chunk(args):
    """spec -> code for a chunk of emitted behaviours: execute each on the real
    code and compare with the behaviour.  Full records are returned only for
    what goes on to trace validation (selected, model-flagged, differing)."""
    lines, selected, name = args
    n = flagged = differ = 0
    whys, keep = set(), []
    for k, line in enumerate(lines):
        r = tlc.json_payload(line, 'VEC')
        n += 1
        whys.update(r['why'])
        if r['ndrop']:
            whys.add('dropped')
        case = {'par': r['par'], 'lens': r['lens'], 'tol': 0, 'direct': k % 2}
        o = observe(case)
        model = {x: r[x] for x in ('batches', 'pulls', 'exc', 'ref', 'refpulls')}
        same = o == model
        differ += not same
        isflag = r['mv'][0] == 'viol'
        flagged += isflag
        if selected[k] or isflag or not same:
            keep.append(dict(case, obs=o, mv=r['mv'], src=name, same=same))
    return n, flagged, differ, whys, keep


RAND_LENS = (1, 2, 3, 4, 5, 6, 8, 10, 12, 16, 20)
RAND_RATES = ((0, 1), (1, 10), (1, 5), (1, 4), (1, 3), (1, 2), (2, 3), (3, 4), (9, 10))


def random_cases(seed, count):
    """Seeded longer sequences with more parameter values (code -> spec only)."""
    rng = random.Random(seed * 7919 + 17)
    out = []
    for _ in range(count):
        k = rng.choice((2, 3, 4, len(RAND_LENS)))
        alpha = rng.sample(RAND_LENS, k)
        n = rng.randint(6, 12)
        par = {'bs': rng.randint(1, 5), 'rate': list(rng.choice(RAND_RATES)),
               'mts': rng.choice((NONE, NONE, 4, 8, 10, 12, 16, 20, 24, 32, 40)),
               'exp': rng.choice((NONE, NONE, 1, 2, 3, 4, 5, 6)),
               'mbuf': rng.choice((NONE, NONE, 1, 2, 3, 4, 5, 6)),
               'drop': rng.random() < 0.4,
               'sort': rng.choice(('none', 'none', 'asc', 'desc'))}
        out.append({'par': par, 'lens': [rng.choice(alpha) for _ in range(n)]})
    return out


def short(case):
    p = case['par']
    opt = lambda x: 'None' if x == NONE else x
    return (f"lens={case['lens']} batch_size={p['bs']} max_padding_rate={p['rate'][0]}/{p['rate'][1]}"
            f"{' (float)' if case.get('tol') else ''} max_total_size={opt(p['mts'])} "
            f"expiration={opt(p['exp'])} max_buffered_examples={opt(p['mbuf'])} "
            f"drop_incomplete={p['drop']} sort={p['sort']}")


def _batch_lens(obs):
    return [[e[1] for e in b] for b in obs['batches']]


# --------------------------------------------------------------------------

FLAG_CAP = {'quick': 3000, 'thorough': 8000}   # per configuration and clause


def collect_cases(tier, res, rng):
    """Returns the cases (with their real observation) that go to TLC."""
    plan = TIERS[tier]
    cases, info, whys = [], [], set()
    enumerated = enumerate_all(plan['bfs'])
    pool = mp.get_context('fork').Pool(common.NCPU)
    try:
        for (name, _, budget), (lines, st) in zip(plan['bfs'], enumerated):
            res.add_tlc(st)
            n = len(lines)
            sel = [False] * n
            for k in (range(n) if budget is None or budget >= n else rng.sample(range(n), budget)):
                sel[k] = True
            step = 1000
            jobs = [(lines[a:a + step], sel[a:a + step], name) for a in range(0, n, step)]
            tot = flagged = differ = 0
            kept = []
            for a, b, c, w, keep in pool.map_async(_replay_chunk, jobs).get(3600):
                tot += a
                flagged += b
                differ += c
                whys |= w
                kept += keep
            # real verdict of a conforming flagged case = the model's verdict on the
            # same observation: a per-clause cap loses counts, never a violation
            per, out = {}, []
            for c in kept:
                if c['mv'][0] == 'viol' and c['same']:
                    per[c['mv'][1]] = per.get(c['mv'][1], 0) + 1
                    if per[c['mv'][1]] > FLAG_CAP[tier]:
                        continue
                out.append(c)
            cases += out
            info.append({'config': name, 'behaviours': n, 'replayed_on_real_code': tot,
                         'real_code_differs_from_behaviour': differ, 'model_flagged': flagged,
                         'handed_to_trace_validation': len(out), 'tlc': st})
            res.coverage['behaviours_replayed'] = res.coverage.get('behaviours_replayed', 0) + tot
            if differ:
                res.drift.append({'where': 'spec->code replay', 'config': name, 'count': differ,
                                  'what': 'real batches / pulls differ from the emitted behaviour'})
        rp = plan['random']
        deep = random_cases(common.seed(), rp['count'])
        rnd = [dict(c, tol=0, direct=k % 2, mv=None, src='random') for k, c in enumerate(deep)]
        fl = [c for c in deep if c['par']['rate'][0] != 0][:rp['floats']]
        rnd += [dict(c, tol=1, direct=k % 2, mv=None, src='random-float')
                for k, c in enumerate(fl)]
        chunks = [rnd[a:a + 500] for a in range(0, len(rnd), 500)]
        obs = [o for ch in pool.map_async(_observe_chunk, chunks).get(3600) for o in ch]
        for c, o in zip(rnd, obs):
            c['obs'] = o
        cases += rnd
    finally:
        pool.terminate()
    info.append({'config': 'random longer sequences (python generator, code -> spec only)',
                 'generated': len(deep), 'float_rate_reruns': len(fl),
                 'lengths': '6..12', 'alphabet': list(RAND_LENS)})
    res.coverage['configs'] = info
    # vacuity guard: every way a bucket can leave the loop was modelled
    missing = {'complete', 'expired', 'overflow', 'final', 'dropped'} - whys
    if missing:
        res.machinery_errors.append(f'model never exercised: {sorted(missing)}')
    return cases


def run(prop, tier):
    res = Result(prop, tier)
    rng = random.Random(common.seed())
    try:
        cases = collect_cases(tier, res, rng)
        records = [{'id': k + 1, 'par': c['par'], 'lens': c['lens'], 'tol': c['tol'],
                    'obs': c['obs']} for k, c in enumerate(cases)]
        verdicts, st = validate_records(records, module='BucketTrace.tla',
                                        cfg='BucketTrace.cfg')
        res.add_tlc(st)
    except tlc.TlcError as e:
        res.machinery_errors.append(str(e))
        return res.finish()
    res.coverage['traces_validated_against_impl'] = len(records)
    res.coverage['evaluations'] = len(records)
    match = getattr(findings, 'match_bucket', None)     # wired by known_findings.json
    nontrivial, by_clause, app_count, known, samples = 0, {}, {}, {}, []
    model_flagged = model_confirmed = float_div = 0
    exact_obs, viols, best = {}, [], {}
    for c, rec in zip(cases, records):
        v = verdicts[rec['id']]
        status, clause = v['C17']
        by_clause[f'{status}:{clause}'] = by_clause.get(f'{status}:{clause}', 0) + 1
        for a in v['app']:
            app_count[a] = app_count.get(a, 0) + 1
        key = json.dumps([c['par'], c['lens']], sort_keys=True)
        mv = c['mv'] or v['mv']
        if status == 'ok':
            nontrivial += 1
            if len(v['app']) > best.get(c['src'], (0,))[0]:
                best[c['src']] = (len(v['app']), {
                    'case': short(c), 'from': c['src'], 'verdict': 'ok',
                    'real_batches_as_lengths': _batch_lens(rec['obs']),
                    'pulls': rec['obs']['pulls'], 'clauses_decided': v['app']})
        if c['tol'] == 0:
            exact_obs[key] = rec['obs']['batches']
            if v['conf'] != 'conforms' and status != 'viol':
                # the real code leaves the model but keeps the property
                res.drift.append({'where': v['conf'], 'case': short(c), 'model_verdict': mv})
        elif v['conf'] != 'conforms' and status != 'viol':
            # float rounding at a bucket boundary is not drift if the exact run
            # of the same case follows the model
            if exact_obs.get(key) != rec['obs']['batches']:
                float_div += 1
            else:
                res.drift.append({'where': v['conf'], 'case': short(c)})
        if mv[0] == 'viol' and c['tol'] == 0:
            model_flagged += 1
            model_confirmed += status == 'viol'
        if status == 'viol':
            viols.append((c, rec, v, mv))
    # report: known findings by their narrow match; everything else is a
    # VIOLATION (shortest inputs first, one per distinct input / size setting)
    seen = set()
    for c, rec, v, mv in sorted(viols, key=lambda x: (len(x[0]['lens']), x[1]['id'])):
        clause = v['C17'][1]
        what = (f'{clause}: {short(c)} -> real batches (lengths) '
                f'{_batch_lens(rec["obs"])} pulls {rec["obs"]["pulls"]}')
        kf = match(prop, clause, rec) if match else None
        if kf is not None:
            known[kf['id']] = known.get(kf['id'], 0) + 1
            if known[kf['id']] == 1:
                res.known_finding(kf['id'], kf['what'] + ' e.g. ' + what)
            continue
        key = (clause, tuple(c['lens']), c['par']['bs'], tuple(c['par']['rate']),
               c['par']['mts'], c['tol'])
        if key in seen or len(res.violations) >= 25:
            continue
        seen.add(key)
        res.violation(what, {
            'family': 'bucket', 'par': c['par'], 'lens': c['lens'], 'tol': c['tol'],
            'direct': c['direct'], 'obs': rec['obs'], 'verdict': list(v['C17']),
            'model_verdict': mv, 'conformance': v['conf'],
            'how': 'real observation judged by TLC (BucketTrace.tla, V_C17)'})
    samples = [s for _, s in best.values()]
    if not samples and records:
        samples.append({'case': short(cases[0]), 'verdict': list(verdicts[1]['C17'])})
    res.coverage['samples'] = samples
    res.coverage['distinct_nontrivial'] = nontrivial
    res.coverage['verdicts'] = by_clause
    res.coverage['clauses_decided'] = app_count
    res.coverage['known_finding_hits'] = known
    res.coverage['model_flagged_cases'] = model_flagged
    res.coverage['model_flagged_confirmed_on_real_code'] = model_confirmed
    res.coverage['violating_real_executions'] = sum(
        n for k, n in by_clause.items() if k.startswith('viol:'))
    res.coverage['float_runs_diverging_from_exact_run'] = float_div
    res.coverage['design_invariants_checked_in_every_state'] = INVARIANTS
    res.coverage['rule'] = (
        'cases = every (parameter setting, length sequence) behaviour TLC enumerates from '
        'Bucket.tla (BFS; all settings of the configuration x all sequences over the alphabet '
        'up to MaxLen; ALL of them are executed on the real code and compared with the '
        'behaviour; trace validation by TLC gets every differing one, every model-flagged one '
        '(capped per clause) and a seeded sample of the rest) plus seeded random sequences of '
        'length 6-12 and float-rate re-runs; '
        'a case is non-trivial when V_C17 on the REAL observation is "ok" (non-empty input, '
        'every clause evaluated); clauses_decided counts per clause the cases in which it had '
        'something to decide')
    res.assumptions += [
        'TLC evaluates the TLA+ operators correctly',
        'the instrumented source counts a pull exactly when the bucket loop takes an example',
        'drop_incomplete=True: the instant of a discard is not observable from outside; '
        'BufferedBound on the real run assumes the earliest possible discard (exact count: '
        'model invariant InvBuffered + conformance); DropExact uses a second real run with '
        'drop_incomplete=False as the reference for which batches exist',
        'float rates are judged against the exact rational of the same nominal value with a '
        'relative slack of 1e-4 on PaddingBound; the other clauses are exact',
    ]
    return res.finish()


def replay(prop, path):
    with open(path) as f:
        rp = json.load(f)
    case = {'par': rp['par'], 'lens': rp['lens'], 'tol': rp.get('tol', 0),
            'direct': rp.get('direct', 0)}
    o = observe(case)
    v, _ = validate_records([{'id': 1, 'par': case['par'], 'lens': case['lens'],
                              'tol': case['tol'], 'obs': o}],
                            module='BucketTrace.tla', cfg='BucketTrace.cfg')
    print('case    :', short(case))
    print('verdict :', v[1]['C17'], ' conformance:', v[1]['conf'], ' model verdict:', v[1]['mv'])
    print('observed:', json.dumps(o))
    return 1 if v[1]['C17'][0] == 'viol' else 0
