"""Apalache (symbolic model checker) as a second back end for TLA+ modules:
used to prove an invariant INDUCTIVE with unbounded integers
(Init => Inv at length 0, Inv /\\ Next => Inv' at length 1)."""
import os
import re
import shutil
import subprocess
import time
from . import common, tlc


def check(module, init, inv, length, timeout=900):
    """Run `apalache-mc check`; returns {'outcome': 'NoError' | 'Error' | ..., 'seconds': s}."""
    d = os.path.join(common.scratch(), 'apalache')
    shutil.rmtree(d, ignore_errors=True)
    os.makedirs(d)
    for f in os.listdir(common.SPECS):
        if f.endswith('.tla'):
            shutil.copy(os.path.join(common.SPECS, f), d)
    cmd = ['apalache-mc', 'check', f'--init={init}', f'--inv={inv}', f'--length={length}',
           '--out-dir=' + os.path.join(d, 'out'), module]
    e = dict(os.environ)
    e['JVM_ARGS'] = '-Xmx4g -Djava.io.tmpdir=' + d
    t0 = time.time()
    try:
        p = subprocess.run(cmd, cwd=d, env=e, stdout=subprocess.PIPE, stderr=subprocess.STDOUT,
                           text=True, timeout=timeout)
        out = p.stdout
    except subprocess.TimeoutExpired:
        out = 'The outcome is: Timeout'
    m = re.search(r'The outcome is: (\w+)', out)
    shutil.rmtree(d, ignore_errors=True)
    return {'outcome': m.group(1) if m else 'Unknown', 'seconds': round(time.time() - t0, 1),
            'init': init, 'inv': inv, 'length': length, 'tail': out[-600:] if not m or m.group(1) != 'NoError' else ''}


def prove_inductive(module, res_info, ind='IndInv', goal='ReadAhead'):
    """Init => IndInv;  IndInv /\\ Next => IndInv';  IndInv => goal.  Raises
    tlc.TlcError unless all three are discharged."""
    steps = [('Init', ind, 0), ('IndInit', ind, 1), ('IndInit', goal, 0)]
    done = []
    for init, inv, length in steps:
        r = check(module, init, inv, length)
        done.append(r)
        if r['outcome'] != 'NoError':
            raise tlc.TlcError(f'{module}: Apalache did not discharge {init} => {inv} '
                               f'(length {length}): {r["outcome"]}\n{r["tail"]}')
    res_info.append({'spec': module, 'tool': 'apalache-mc 0.58 (symbolic, unbounded integers)',
                     'proved': f'Init => {ind};  {ind} /\\ Next => {ind}\';  {ind} => {goal}',
                     'steps': done})
