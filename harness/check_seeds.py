"""Check C13 "Explicit seeds reproduce orders; frozen copies stay frozen;
copies are faithful", decided with specs Seeds.tla / SeedsTrace.tla.

  spec -> code : TLC enumerates (Seeds.tla) small pipelines with random stages
                 at any depth x {copy, copy(freeze), prefetch(1,b),
                 prefetch(2,b)} x seeds x the points at which an adversary
                 re-seeds the GLOBAL numpy generator; each scenario is executed
                 on the real library: twins A, B (equal seeds), A2 (other global
                 history), W (the wrapped fresh twin, other global history),
                 three epochs each, every rng call logged with the generator
                 that served it;
  code -> spec : the observations go back to TLC (SeedsTrace.tla): V_C13 on the
                 REAL orders, conformance = same refusals / `ordered` / rng call
                 log as the model;
  CopyKeepsParams: every Dataset subclass of core.py with its own copy() is
                 built with non-default arguments, vars() of the stage and of
                 its copy()/copy(freeze=True) are compared and the outcome is
                 judged by TLC against the parameter table of Seeds.tla.
"""
import inspect
import json
import multiprocessing as mp
import os
import random
import warnings
from concurrent.futures import ThreadPoolExecutor
from unittest import mock

import numpy as np

from . import common, tlc
from .common import Result
from .pipeline import validate_records

EPOCHS = 3


# --------------------------------------------------------------------------
# generators that log which stream served which call

class LogRng:
    def __init__(self, g, real, log):
        self.g, self.real, self.log = g, real, log

    def shuffle(self, arr):
        self.log.append({'g': self.g, 'rc': 'shuffle', 'm': len(arr)})
        self.real.shuffle(arr)

    def choice(self, a, size=None, replace=True, p=None):
        self.log.append({'g': self.g, 'rc': 'choice', 'm': int(a)})
        return self.real.choice(a, size=size, replace=replace)

    def __repr__(self):
        return f'LogRng(g={self.g})'


class ReShuffle:
    """The apply function of the ApplyDataset docstring."""

    def __init__(self, rng):
        self.rng = rng
        self.permutation = None

    def __call__(self, ds):
        if self.permutation is None:
            self.permutation = np.arange(len(ds))
        self.rng.shuffle(self.permutation)
        return ds[self.permutation]


def _inc(x):
    return x + 10


def depth_of(p):
    return 0 if p['op'] == 'src' else 1 + depth_of(p['in'])


def chain(p):
    if p['op'] == 'src':
        return f'new(range({p["n"]}))'
    arg = {'map': 'map(+10)', 'batch': 'batch(2)', 'concatself': 'concatenate(self)',
           'slice': '[1:]', 'reshuffle': 'shuffle(True, rng)', 'once': 'shuffle(False, rng)',
           'apply': 'apply(ReShuffle(rng), lazy=True)'}.get(p['op'])
    if p['op'] == 'local':
        arg = f'shuffle(True, rng, buffer_size={p["bs"]})'
    return chain(p['in']) + '.' + arg


def build(p, seed, log, gen):
    import lazy_dataset
    if p['op'] == 'src':
        return lazy_dataset.new(list(range(p['n'])))
    ds = build(p['in'], seed, log, gen)
    op = p['op']
    if op == 'map':
        return ds.map(_inc)
    if op == 'batch':
        return ds.batch(2)
    if op == 'concatself':
        return ds.concatenate(ds)
    if op == 'slice':
        return ds[1:]
    d = depth_of(p)
    s = 1000 * seed + d
    real = np.random.RandomState(s) if gen == 'rs' else np.random.default_rng(s)
    rng = LogRng(d, real, log)
    if op == 'reshuffle':
        return ds.shuffle(True, rng=rng)
    if op == 'once':
        return ds.shuffle(False, rng=rng)
    if op == 'local':
        return ds.shuffle(True, rng=rng, buffer_size=p['bs'])
    if op == 'apply':
        return ds.apply(ReShuffle(rng), lazy=True)
    raise ValueError(op)


def _flat(xs):
    out = []
    for x in xs:
        if isinstance(x, (list, tuple)):
            out.extend(int(y) for y in x)
        else:
            out.append(int(x))
    return out


def run_real(prog, wrap, adv, base, seed, gen='rs'):
    """One run of the model's `Run`: build a fresh twin, wrap it, iterate
    EPOCHS epochs; np.random.seed(base + point) at the adversary's points."""
    log = []
    glob = np.random.mtrand._rand
    g0 = LogRng(0, glob, log)
    out = {'orders': [], 'exc': 'none', 'ord': 'none', 'log': log}

    def adversary(point):
        if point in adv:
            np.random.seed(base + point)

    with mock.patch.object(np.random, 'shuffle', g0.shuffle), \
            mock.patch.object(np.random, 'choice', g0.choice), warnings.catch_warnings():
        warnings.simplefilter('ignore')
        np.random.seed(base)
        adversary(1)
        try:
            ds = build(prog, seed, log, gen)
            adversary(2)
            if wrap == 'copy':
                ds = ds.copy()
            elif wrap == 'freeze':
                ds = ds.copy(freeze=True)
            elif wrap == 'pf1':
                ds = ds.prefetch(1, 2)
            elif wrap == 'pf2':
                ds = ds.prefetch(2, 2)
        except Exception as e:
            out['exc'] = type(e).__name__
            return out
        try:
            out['ord'] = 'true' if ds.ordered else 'false'
        except Exception:
            out['ord'] = 'exc'
        for e in range(1, EPOCHS + 1):
            adversary(2 + e)
            try:
                out['orders'].append(_flat(list(ds)))
            except Exception as ex:
                out['exc'] = type(ex).__name__
                break
    return out


def execute(sc, cache=None):
    prog, adv, seed = sc['prog'], sc['adv'], sc['seed']
    gen = sc.get('gen', 'rs')
    key = (json.dumps(prog, sort_keys=True), tuple(adv), seed, gen)
    plain = cache.get(key) if cache is not None else None
    if plain is None:
        plain = {'A': run_real(prog, 'none', adv, 10, seed, gen),
                 'B': run_real(prog, 'none', adv, 10, seed, gen),
                 'A2': run_real(prog, 'none', adv, 20, seed, gen)}
        if cache is not None:
            cache[key] = plain
    obs = dict(plain)
    obs['W'] = run_real(prog, sc['wrap'], adv, 20, seed, gen)
    return obs


def _execute_chunk(scs):
    cache = {}
    return [execute(s, cache) for s in scs]


def execute_all(scs, chunk=400):
    # scenarios of one program are adjacent: the plain runs are shared
    scs = sorted(scs, key=lambda s: (json.dumps(s['prog'], sort_keys=True), s['adv'], s['seed']))
    chunks = [scs[i:i + chunk] for i in range(0, len(scs), chunk)]
    if not chunks:
        return scs, []
    with mp.get_context('fork').Pool(common.NCPU) as pool:
        out = pool.map_async(_execute_chunk, chunks).get(3000)
    return scs, [o for c in out for o in c]


# --------------------------------------------------------------------------
# CopyKeepsParams

def _fn(x):
    return x


def _pred(x):
    return True


_dirs = [0]


def factories():
    """class name -> instance built with NON-default arguments."""
    import lazy_dataset
    import lazy_dataset.core as c
    src = lambda: lazy_dataset.new({'a': 1, 'b': 2, 'c': 3, 'd': 4})
    lst = lambda: lazy_dataset.new([1, 2, 3, 4])
    def cache_dir():
        _dirs[0] += 1
        return os.path.join(common.scratch(), f'diskcache-{os.getpid()}-{_dirs[0]}')
    return {
        'DictDataset': lambda: c.DictDataset({'a': 1, 'b': 2}, name='nm'),
        'ListDataset': lambda: c.ListDataset([1, 2, 3], name='nm'),
        'MapDataset': lambda: c.MapDataset(_fn, src()),
        'ParMapDataset': lambda: c.ParMapDataset(_fn, src(), num_workers=3, buffer_size=5,
                                                 backend='mp'),
        'ApplyDataset': lambda: c.ApplyDataset(_fn, src()),
        'CatchExceptionDataset': lambda: c.CatchExceptionDataset(
            src(), exceptions=(ValueError, KeyError), warn=True),
        'PrefetchDataset': lambda: c.PrefetchDataset(
            src(), 3, 5, backend='mp', catch_filter_exception=(ValueError,)),
        'ReShuffleDataset': lambda: c.ReShuffleDataset(src(), rng=np.random.RandomState(3)),
        'LocalShuffleDataset': lambda: c.LocalShuffleDataset(
            src(), buffer_size=7, rng=np.random.RandomState(3)),
        'SliceDataset': lambda: c.SliceDataset([2, 0], src()),
        'FilterDataset': lambda: c.FilterDataset(_pred, src()),
        'ConcatenateDataset': lambda: c.ConcatenateDataset(src(), lst()),
        'IntersperseDataset': lambda: c.IntersperseDataset(src(), lst()),
        'ZipDataset': lambda: c.ZipDataset(src(), lst()),
        'KeyZipDataset': lambda: c.KeyZipDataset(src(), src().map(_fn)),
        'ItemsDataset': lambda: c.ItemsDataset(src()),
        'BatchDataset': lambda: c.BatchDataset(src(), 3, drop_last=True),
        'UnbatchDataset': lambda: c.UnbatchDataset(src().batch(2)),
        'DynamicBucketDataset': lambda: c.DynamicBucketDataset(
            src(), c.DynamicBucket, expiration=5, max_buffered_examples=7,
            drop_incomplete=True, sort_key=_fn, reverse_sort=True, batch_size=3),
        'CacheDataset': lambda: c.CacheDataset(src(), keep_mem_free='1 GB',
                                               immutable_warranty='copy'),
        'DiskCacheDataset': lambda: c.DiskCacheDataset(src(), cache_dir=cache_dir(), reuse=False,
                                                       clear=True),
        'ProfilingDataset': lambda: c.ProfilingDataset(src().map(_fn)),
    }


def same(a, b, depth=0):
    """is the attribute of the copy the attribute of the original?  inputs are
    compared structurally, generators by identity or equal state, everything
    shared (caches, functions, counters) by identity, plain values by =="""
    import lazy_dataset.core as c
    if a is b:
        return True
    if isinstance(a, c.Dataset):
        return type(a) is type(b) and depth < 8 and not diff(a, b, depth + 1)[1]
    if isinstance(a, (list, tuple)) and isinstance(b, (list, tuple)):
        return len(a) == len(b) and all(same(x, y, depth) for x, y in zip(a, b))
    if isinstance(a, np.ndarray) or isinstance(b, np.ndarray):
        return isinstance(a, np.ndarray) and isinstance(b, np.ndarray) and np.array_equal(a, b)
    if isinstance(a, np.random.RandomState):
        if not isinstance(b, np.random.RandomState):
            return False
        sa, sb = a.get_state(), b.get_state()
        return sa[0] == sb[0] and np.array_equal(sa[1], sb[1]) and sa[2:] == sb[2:]
    if type(a) is not type(b):
        return False
    try:
        return bool(a == b)
    except Exception:
        return False


def diff(orig, cp, depth=0):
    va, vb = vars(orig), vars(cp)
    kept = sorted(k for k in va if k in vb and same(va[k], vb[k], depth))
    lost = sorted(k for k in va if k not in kept)
    return kept, lost


def param_records():
    """one record per (class, freeze); plus the classes without a factory."""
    import lazy_dataset.core as c
    fac = factories()
    recs, uncovered = [], []
    classes = [cls for name, cls in inspect.getmembers(c, inspect.isclass)
               if issubclass(cls, c.Dataset) and cls.__module__ == c.__name__
               and 'copy' in cls.__dict__ and cls is not c.Dataset]
    for cls in classes:
        name = cls.__name__
        if name not in fac:
            uncovered.append(name)
            continue
        for freeze in (False, True):
            with warnings.catch_warnings():
                warnings.simplefilter('ignore')
                orig = fac[name]()
                try:
                    cp = orig.copy(freeze=freeze)
                except Exception as e:
                    recs.append({'rt': 'params', 'cls': name, 'freeze': freeze,
                                 'params': sorted(vars(orig)), 'kept': [],
                                 'lost': [f'copy-raised-{type(e).__name__}']})
                    continue
            if type(cp) is not type(orig):
                continue        # freezing replaces the stage (ReShuffle -> Slice, Apply)
            kept, lost = diff(orig, cp)
            recs.append({'rt': 'params', 'cls': name, 'freeze': freeze,
                         'params': sorted(vars(orig)), 'kept': kept, 'lost': lost})
    return recs, uncovered, [cls.__name__ for cls in classes]


# --------------------------------------------------------------------------

def cfg(maxn, maxn2, advmax, seeds, invs=('EmitScenario', 'DesignC13ModuloKnown')):
    inv = '\n'.join(f'INVARIANT {i}' for i in invs)
    return (f'CONSTANTS\n  MaxN = {maxn}\n  MaxN2 = {maxn2}\n  AdvMax = {advmax}\n'
            f'  SeedSet = {{{", ".join(map(str, seeds))}}}\nSPECIFICATION Spec\n{inv}\n'
            'CHECK_DEADLOCK FALSE\n')


TIERS = {
    'quick': {'bfs': (3, 2, 1, (1,)), 'default_rng': 600, 'deep': 300},
    'thorough': {'bfs': (4, 3, 2, (1, 2)), 'default_rng': 6000, 'deep': 4000},
}


def _design(unfixed, inv, tag, workers):
    d = tlc.prepare(unfixed, tag=tag)
    r = tlc.run('Seeds.tla', 'MC_d.cfg', workdir=d, workers=workers, timeout=3000,
                cfg_text=cfg(2, 2, 0, (1,), invs=(inv,)))
    return {'invariant': inv, 'holds': r['rc'] == 0 and not r['errors'],
            'refuted': r['rc'] == 12, 'rc': r['rc'], 'tlc': r['stats']}


def deep_scenarios(count, rnd):
    """longer random pipelines (python generator, code -> spec only)."""
    out = []
    for _ in range(count):
        n = rnd.randint(2, 6)
        p = {'op': 'src', 'n': n}
        indexable, has_local, nrand = True, False, 0
        for _ in range(rnd.randint(1, 5)):
            ops = ['map']
            if nrand:
                ops.append('concatself')
            if indexable:
                ops += ['reshuffle', 'once', 'apply', 'slice'] if nrand < 3 else ['slice']
            if not has_local and nrand < 3:
                ops.append('local')
            op = rnd.choice(ops)
            q = {'op': op, 'in': p}
            if op == 'local':
                q['bs'] = rnd.randint(1, n + 1)
                has_local = True
            if op in ('reshuffle', 'local', 'apply'):
                indexable = False
            if op in ('reshuffle', 'local', 'apply', 'once'):
                nrand += 1
            p = q
        if nrand == 0:
            p = {'op': 'reshuffle', 'in': p}
        if rnd.random() < 0.25:
            p = {'op': 'batch', 'in': p}        # grouping only as the last stage
        pts = [x for x in range(1, 3 + EPOCHS) if rnd.random() < 0.3]
        out.append({'prog': p, 'wrap': rnd.choice(['copy', 'freeze', 'pf1', 'pf2']),
                    'adv': pts, 'seed': rnd.randint(1, 50),
                    'gen': rnd.choice(['rs', 'dg'])})
    return out


def short(sc):
    w = {'copy': '.copy()', 'freeze': '.copy(freeze=True)', 'pf1': '.prefetch(1, 2)',
         'pf2': '.prefetch(2, 2)', 'none': ''}[sc['wrap']]
    g = 'np.random.default_rng' if sc.get('gen') == 'dg' else 'np.random.RandomState'
    return (f'{chain(sc["prog"])}{w}  [rng of the stage at depth d = {g}(1000*{sc["seed"]}+d); '
            f'np.random.seed at points {sc["adv"]} (1 build, 2 wrap, 2+e epoch e)]')


def open_finding(fid):
    return any(f['id'] == fid and f['status'] == 'open'
               for f in common.load_findings()['findings'])


def finding_for_clause(clause):
    """An open finding of this family recorded for exactly this verdict clause."""
    for f in common.load_findings()['findings']:
        m = f.get('match') or {}
        if f['status'] == 'open' and m.get('family') == 'seeds' and m.get('clause') == clause:
            return f
    return None


def run(prop, tier):
    assert prop == 'C13'
    res = Result(prop, tier)
    plan = TIERS[tier]
    rnd = random.Random(common.seed())
    workers = max(2, common.NCPU // 4)
    others = [u for u in common.unfixed_ids() if u != 'S8']
    try:
        with ThreadPoolExecutor(4) as ex:
            fut = [ex.submit(_design, None, 'DesignC13', '-orig', workers),
                   ex.submit(_design, None, 'DesignParams', '-origp', workers),
                   ex.submit(_design, others, 'DesignC13ModuloKnown', '-rep', workers),
                   ex.submit(_design, others, 'DesignParams', '-repp', workers)]
            d = tlc.prepare(tag='-enum')
            r = tlc.run('Seeds.tla', 'MC_gen.cfg', workdir=d, cfg_text=cfg(*plan['bfs']),
                        timeout=3000, workers=max(2, common.NCPU // 2))
            design = [f.result() for f in fut]
        if r['rc'] != 0 or r['errors']:
            raise tlc.TlcError(f'Seeds.tla: rc={r["rc"]}\n' + '\n'.join(r['errors'][:30]))
    except tlc.TlcError as e:
        res.machinery_errors.append(str(e))
        return res.finish()
    res.add_tlc(r['stats'])
    for x in design:
        res.add_tlc(x['tlc'])
    vecs = [tlc.json_payload(x, 'VEC') for x in r['tagged'].get('VEC', [])]
    flagged = [v for v in vecs if v['mv'][0] == 'viol']
    res.coverage['design'] = {
        'original_tree': {'C13_refuted_by_TLC': design[0]['refuted'],
                          'CopyKeepsParams_refuted_by_TLC': design[1]['refuted'],
                          'scenarios_the_model_flags': len(flagged),
                          'clauses': sorted({v['mv'][1] for v in flagged}),
                          'example': short(min(flagged, key=lambda v: len(json.dumps(v))))
                          if flagged else None},
        'S8_repaired': {'only_the_aliasing_finding_remains': design[2]['holds'],
                        'CopyKeepsParams_holds': design[3]['holds']},
    }
    for x in design[2:]:
        if not x['holds']:
            res.machinery_errors.append('design: the repaired model violates %r' % x)
    # spec -> code
    scs = [{'prog': v['prog'], 'wrap': v['wrap'], 'adv': v['adv'], 'seed': v['seed'],
            'gen': 'rs', 'how': 'tlc-scenario', 'mv': v['mv']} for v in vecs]
    more = rnd.sample(scs, min(plan['default_rng'], len(scs)))
    scs += [dict(s, gen='dg', how='tlc-scenario:default_rng') for s in more]
    scs += [dict(s, how='random-deep', mv=None) for s in deep_scenarios(plan['deep'], rnd)]
    scs, obs = execute_all(scs)
    records = []
    for s, o in zip(scs, obs):
        records.append({'rt': 'run', 'id': len(records) + 1, 'prog': s['prog'], 'wrap': s['wrap'],
                        'adv': s['adv'], 'seed': s['seed'], 'obs': o})
    n_run = len(records)
    precs, uncovered, classes = param_records()
    for p in precs:
        p['id'] = len(records) + 1
        records.append(p)
    try:
        verdicts, st = validate_records(records, module='SeedsTrace.tla', cfg='SeedsTrace.cfg')
    except tlc.TlcError as e:
        res.machinery_errors.append(str(e))
        return res.finish()
    res.add_tlc(st)
    res.coverage['traces_validated_against_impl'] = len(records)
    res.coverage['evaluations'] = len(records)
    by_clause, samples, known, known_ex = {}, [], {}, {}
    nontrivial = chance = suppressed = 0
    per_clause = {}
    for i, rec in enumerate(records):
        v = verdicts[rec['id']]
        status, clause = v['C13']
        by_clause[f'{status}:{clause}'] = by_clause.get(f'{status}:{clause}', 0) + 1
        if rec['rt'] == 'run':
            s = scs[i]
            what = short(s)
            detail = {'scenario': s, 'obs': rec['obs']}
            if s.get('mv') and s['mv'][0] == 'viol' and status != 'viol':
                chance += 1      # numpy's streams happened to agree where the model's differ
        else:
            what = (f'{rec["cls"]}.copy(freeze={rec["freeze"]}): vars() of the copy lacks / alters '
                    f'{rec["lost"]} (kept {rec["kept"]})')
            detail = {'record': rec}
        if status == 'ok':
            nontrivial += 1
            if len(samples) < 3 and rec['id'] % 997 == 0:
                samples.append({'execution': what, 'verdict': 'ok',
                                'epochs_A': rec['obs']['A']['orders'] if rec['rt'] == 'run' else None})
        if v['conf'] != 'conforms':
            res.drift.append({'where': v['conf'], 'execution': what})
        if status == 'viol':
            kf = finding_for_clause(clause)
            if kf is not None:
                known[clause] = known.get(clause, 0) + 1
                if known[clause] == 1:
                    res.known_finding(kf['id'], kf['what'] + ' e.g. ' + what)
            elif clause.startswith('S8:') and open_finding('S8'):
                known[clause] = known.get(clause, 0) + 1
                if clause not in known_ex or len(what) < len(known_ex[clause]['execution']):
                    known_ex[clause] = {
                        'execution': what, 'verdict': clause,
                        'A': rec['obs']['A']['orders'] if rec['rt'] == 'run' else None,
                        'W': rec['obs']['W']['orders'] if rec['rt'] == 'run' else None}
            elif per_clause.get(clause, 0) < 5 and len(res.violations) < 40:
                # (at most 5 replay files per clause; every violation is counted
                # in coverage['verdicts'])
                per_clause[clause] = per_clause.get(clause, 0) + 1
                res.violation(f'{clause}: {what}',
                              dict(detail, family='seeds', verdict=[status, clause],
                                   how='real execution judged by TLC (SeedsTrace.tla)'))
            else:
                suppressed += 1
    for clause, ex in sorted(known_ex.items()):
        res.known_finding('S8', f'ReShuffleDataset.copy()/LocalShuffleDataset.copy() drop rng '
                                f'[{clause}] e.g. {ex["execution"]}'
                          + (f' epochs of a fresh twin {ex["A"]} != epochs of the copy {ex["W"]}'
                             if ex['A'] is not None else ''))
        samples.append(ex)
    for name in uncovered:
        res.drift.append({'where': 'class-without-factory',
                          'execution': f'{name} has its own copy() but harness/check_seeds.py '
                                       f'cannot build it: CopyKeepsParams not checked for it'})
    res.coverage['samples'] = samples
    res.coverage['distinct_nontrivial'] = nontrivial
    res.coverage['verdicts'] = by_clause
    res.coverage['scenarios'] = {'tlc': len(vecs), 'executed': n_run,
                                 'model_flagged_but_real_orders_agree_by_chance': chance}
    res.coverage['copy_params'] = {'classes_with_own_copy': classes, 'records': len(precs),
                                   'lossy': sorted({(p['cls'], tuple(p['lost'])) for p in precs
                                                    if p['lost']})}
    res.coverage['known_finding_hits'] = known
    res.coverage['violations_without_replay_file'] = suppressed
    res.coverage['rule'] = (
        'one evaluation = one scenario executed on the real library (a pipeline with 1-3 random '
        'stages, one of copy / copy(freeze) / prefetch(1,2) / prefetch(2,2), a seed, the set of '
        'points where np.random.seed is called: 4 builds x 3 epochs) or one (class, freeze) '
        'comparison of vars(); non-trivial = verdict "ok" with at least two examples')
    res.assumptions += [
        'TLC evaluates the TLA+ operators correctly',
        'equal seeds give equal numpy streams (np.random.RandomState / default_rng)',
        'the model streams are an uninterpreted fixed function of (seed, position): the design-level '
        'verdicts can miss a disagreement that only other stream values expose',
        'the global numpy generator is only reachable through np.random.shuffle / np.random.choice '
        '(patched with logging pass-throughs during a run)',
    ]
    return res.finish()


def replay(prop, path):
    with open(path) as f:
        rp = json.load(f)
    if 'record' in rp:
        recs, _, _ = param_records()
        rec = [r for r in recs if r['cls'] == rp['record']['cls']
               and r['freeze'] == rp['record']['freeze']][0]
        rec['id'] = 1
        print(rec)
    else:
        s = rp['scenario']
        rec = {'rt': 'run', 'id': 1, 'prog': s['prog'], 'wrap': s['wrap'], 'adv': s['adv'],
               'seed': s['seed'], 'obs': execute(s)}
        print('scenario:', short(s))
        for k in ('A', 'B', 'A2', 'W'):
            print(f'  {k}: {rec["obs"][k]["orders"]} exc={rec["obs"][k]["exc"]} '
                  f'ordered={rec["obs"][k]["ord"]}')
    v, _ = validate_records([rec], module='SeedsTrace.tla', cfg='SeedsTrace.cfg')
    print('verdict :', v[1]['C13'], ' conformance:', v[1]['conf'])
    return 1 if v[1]['C13'][0] == 'viol' else 0
