"""Controlled executions of the real parallel_utils code (see detsched.py).

run_stp(cfg, choose)  : single_thread_prefetch
run_lpm(cfg, choose)  : lazy_parallel_map with the (modelled) thread pool

A configuration (all ints / short strings; one type per field):
  n        source length (items are 1..n)
  buf      buffer_size
  fail_at  source raises INSTEAD of yielding item fail_at+1 (-1: never)
  fail_cls 'none' | 'exc' (Exception subclass) | 'base' (BaseException subclass)
  stop     'exhaust' | 'close' | 'throw'   (what the consumer does)
  stop_k   ... after having received stop_k items
Every execution yields a record {cfg..., events, delivered, end, alive,
deadlock}; `events` is the totally ordered log of scheduling points
[{th, op, a, b}], the order being the real order (baton)."""
import random
import sys

from . import common  # noqa: F401  (sets OMP_NUM_THREADS / MKL_NUM_THREADS)
from . import detsched
from .detsched import Abort, ReplayDiverged, SENT, END, RAISE


class SrcError(Exception):
    pass


class SrcBase(BaseException):
    pass


class UserStop(Exception):
    pass


class Ex:
    """An example.  The library has no business comparing examples: any ==, <,
    hash-based lookup or truth test on one raises."""
    __slots__ = ('i',)

    def __init__(self, i):
        self.i = i

    def _no(self, *a):
        raise AssertionError('the library compared / hashed / truth-tested an example')
    __eq__ = __ne__ = __lt__ = __le__ = __gt__ = __ge__ = __bool__ = __len__ = _no
    __hash__ = None

    def __repr__(self):
        return f'Ex({self.i})'


def code(it):
    return it.i if isinstance(it, Ex) else (it if isinstance(it, int) else SENT)


class Src:
    def __init__(self, sched, n, fail_at, fail_cls, fiter=0):
        self.sched, self.n, self.fail_at, self.fail_cls = sched, n, fail_at, fail_cls
        self.i = 0
        self.dead = False
        self.fiter = fiter       # 1: iter(source) itself raises (fail_at must be 0)

    def __iter__(self):
        if self.fiter and self.fail_cls != 'none' and self.fail_at == 0:
            s = self.sched
            s.point('pull')
            self.dead = True
            s.log('pull', RAISE)
            raise (SrcError if self.fail_cls == 'exc' else SrcBase)('injected at iter()')
        return self

    def __next__(self):
        s = self.sched
        s.point('pull')
        if self.dead:
            s.log('pull', END)
            raise StopIteration
        if self.i == self.fail_at and self.fail_cls != 'none':
            self.dead = True
            s.log('pull', RAISE)
            raise (SrcError if self.fail_cls == 'exc' else SrcBase)('injected')
        if self.i >= self.n:
            self.dead = True
            s.log('pull', END)
            raise StopIteration
        self.i += 1
        s.log('pull', self.i)
        return Ex(self.i)


# ---- choosers ---------------------------------------------------------------

def random_chooser(seed):
    rng = random.Random(seed)

    def choose(sched, enabled):
        return enabled[rng.randrange(len(enabled))]
    return choose


def sticky_chooser(seed, stay=0.8):
    """Random schedules for line-level points: keep running the current thread
    with probability `stay` (long runs with few, randomly placed preemptions)."""
    rng = random.Random(seed)

    def choose(sched, enabled):
        me = sched.me().name
        if me in enabled and rng.random() < stay:
            return me
        return enabled[rng.randrange(len(enabled))]
    return choose


def follow_chooser(schedule):
    """Follow a list of thread names; after it ends, run the first enabled."""
    pos = [0]

    def choose(sched, enabled):
        if pos[0] < len(schedule):
            want = schedule[pos[0]]
            pos[0] += 1
            if want not in enabled:
                raise ReplayDiverged(f'step {pos[0]}: {want} not enabled ({enabled})')
            return want
        return enabled[0]
    return choose


def prefix_chooser(prefix):
    """DFS helper: follow `prefix` (indices into the enabled list), then
    always take index 0; records the branching factor of every decision."""
    pos = [0]
    widths = []

    def choose(sched, enabled):
        k = prefix[pos[0]] if pos[0] < len(prefix) else 0
        pos[0] += 1
        widths.append(len(enabled))
        return enabled[min(k, len(enabled) - 1)]
    choose.widths = widths
    return choose


# ---- single_thread_prefetch ---------------------------------------------------

def run_stp(cfg, choose, pu_lines=False):
    ctl = detsched.Controlled(choose, pu_lines=pu_lines)
    with ctl as sched:
        sched.item_code = code
        src = Src(sched, cfg['n'], cfg['fail_at'], cfg['fail_cls'], cfg.get('fiter', 0))
        delivered = []
        end = 'running'
        gen = None
        try:
            gen = ctl.pu.single_thread_prefetch(src, cfg['buf'])
            if cfg['stop'] == 'close' and cfg['stop_k'] == 0:
                gen.close()
                end = 'closed'
            else:
                while True:
                    try:
                        item = next(gen)
                    except StopIteration:
                        end = 'returned'
                        break
                    sched.point('yield')        # the hand-over to the user
                    delivered.append(code(item))
                    sched.log('yield', code(item))
                    if cfg['stop'] == 'close' and len(delivered) == cfg['stop_k']:
                        sched.log('close')
                        gen.close()
                        end = 'closed'
                        break
                    if cfg['stop'] == 'throw' and len(delivered) == cfg['stop_k']:
                        sched.log('throw')
                        try:
                            gen.throw(UserStop())
                        except UserStop:
                            end = 'thrown'
                        except StopIteration:
                            end = 'returned'
                        break
        except Abort:
            end = sched.abort_reason
        except SrcError:
            end = 'raised_exc'
        except SrcBase:
            end = 'raised_base'
        except BaseException as e:
            end = 'raised_other_' + type(e).__name__
        nev = len(sched.events)
        sched.events.append({'th': 'C', 'op': 'back', 'a': -1, 'b': -1})
        alive = sched.idle_until_quiescent() if end not in ('deadlock', 'diverged') else []
    rec = dict(cfg)
    rec.update({'kind': 'stp', 'events': sched.events, 'delivered': delivered, 'end': end,
                'alive': len(alive), 'deadlock': bool(sched.deadlock),
                'nback': nev})
    if sched.diverged:
        rec['diverged'] = sched.diverged + ' ' + ' | '.join(sched.thread_errors)
    return rec, sched


def stp_configs(max_n, bufs, fails=('none', 'exc', 'base')):
    out = _stp_configs(max_n, bufs, fails)
    # a source whose iter() itself raises (same events as a failure of the first pull)
    extra = [dict(c, fiter=1) for c in out if c['fail_at'] == 0 and c['fail_cls'] != 'none']
    return [dict(c, fiter=0) for c in out] + extra


def _stp_configs(max_n, bufs, fails=('none', 'exc', 'base')):
    out = []
    for n in range(0, max_n + 1):
        for buf in bufs:
            for fail_cls in fails:
                fail_positions = [-1] if fail_cls == 'none' else range(0, n + 1)
                for fail_at in fail_positions:
                    stops = [('exhaust', 0)] + [('close', k) for k in range(0, n + 1)] \
                        + [('throw', k) for k in range(1, n + 1)]
                    for stop, k in stops:
                        out.append({'n': n, 'buf': buf, 'fail_at': fail_at,
                                    'fail_cls': fail_cls, 'stop': stop, 'stop_k': k})
    return out


def dfs_schedules(run, cfg, budget):
    """Stateless DFS over the schedules of the REAL code for one configuration:
    yields records; explores at most `budget` executions; returns whether the
    space was exhausted."""
    stack = [[]]
    done = 0
    while stack and done < budget:
        prefix = stack.pop()
        ch = prefix_chooser(prefix)
        rec, _ = run(cfg, ch)
        done += 1
        yield rec
        widths = ch.widths
        # children: at every decision position >= len(prefix), the alternatives
        for pos in range(len(widths) - 1, len(prefix) - 1, -1):
            for alt in range(widths[pos] - 1, 0, -1):
                stack.append(prefix + [0] * (pos - len(prefix)) + [alt])
    dfs_schedules.exhausted = not stack


# ---- lazy_parallel_map (thread pool, modelled executor) ------------------------

class FnError(Exception):
    pass


def run_lpm(cfg, choose, pu_lines=False):
    """cfg additionally: w (max_workers), fn_fail (sorted list of items on
    which the mapped function raises)."""
    ctl = detsched.Controlled(choose, pu_lines=pu_lines)
    with ctl as sched:
        sched.item_code = code
        src = Src(sched, cfg['n'], cfg['fail_at'], cfg['fail_cls'])
        fn_fail = set(cfg['fn_fail'])

        def fn(x):
            sched.point('call')
            sched.log('call', code(x))
            sched.point('ret')
            if code(x) in fn_fail:
                sched.log('ret', code(x), 0)
                raise FnError(code(x))
            sched.log('ret', code(x), 1)
            return x

        delivered = []
        end = 'running'
        try:
            gen = ctl.pu.lazy_parallel_map(fn, src, buffer_size=cfg['buf'],
                                           max_workers=cfg['w'], backend='t')
            if cfg['stop'] == 'close' and cfg['stop_k'] == 0:
                gen.close()
                end = 'closed'
            else:
                while True:
                    try:
                        item = next(gen)
                    except StopIteration:
                        end = 'returned'
                        break
                    sched.point('yield')
                    delivered.append(code(item))
                    sched.log('yield', code(item))
                    if cfg['stop'] == 'close' and len(delivered) == cfg['stop_k']:
                        sched.log('close')
                        gen.close()
                        end = 'closed'
                        break
                    if cfg['stop'] == 'throw' and len(delivered) == cfg['stop_k']:
                        sched.log('throw')
                        try:
                            gen.throw(UserStop())
                        except UserStop:
                            end = 'thrown'
                        except StopIteration:
                            end = 'returned'
                        break
        except Abort:
            end = sched.abort_reason
        except SrcError:
            end = 'raised_exc'
        except SrcBase:
            end = 'raised_base'
        except FnError:
            end = 'raised_fn'
        except AssertionError:
            # buffer_size < max_workers is refused before anything is pulled
            end = 'refused' if not sched.events else 'raised_other_AssertionError'
        except BaseException as e:
            end = 'raised_other_' + type(e).__name__
        nev = len(sched.events)
        sched.events.append({'th': 'C', 'op': 'back', 'a': -1, 'b': -1})
        alive = sched.idle_until_quiescent() if end not in ('deadlock', 'diverged') else []
    rec = dict(cfg)
    rec.update({'kind': 'lpm', 'events': sched.events, 'delivered': delivered, 'end': end,
                'alive': len(alive), 'deadlock': bool(sched.deadlock), 'nback': nev})
    if sched.diverged:
        rec['diverged'] = sched.diverged
    return rec, sched


def lpm_configs(max_n, ws, bufs):
    out = []
    for n in range(0, max_n + 1):
        for w in ws:
            for buf in bufs + [0]:
                if buf < w and not (buf == w - 1 and n >= 2):
                    continue        # (buffer_size = max_workers - 1: must be refused)
                stops = [('exhaust', 0)] + [('close', k) for k in range(0, n + 1)]
                for stop, k in stops:
                    base = {'n': n, 'buf': buf, 'w': w, 'stop': stop, 'stop_k': k}
                    out.append(dict(base, fail_at=-1, fail_cls='none', fn_fail=[]))
                    for f in range(1, n + 1):
                        out.append(dict(base, fail_at=-1, fail_cls='none', fn_fail=[f]))
                    for f in range(0, n + 1):
                        out.append(dict(base, fail_at=f, fail_cls='exc', fn_fail=[]))
    return out


# ---- dataset level: ds.prefetch(...) / ds.map(fn, num_workers=...) --------------

class OtherError(Exception):
    pass


def _fail_exc(kind):
    from lazy_dataset.core import FilterException
    return FilterException if kind == 'filter' else OtherError


def run_ds(cfg, choose, pu_lines=False):
    """cfg: api 'prefetch' | 'parmap', n, buf, w, fn_fail [items], fail_kind
    'filter' | 'other', cfe 0/1 (catch_filter_exception=True), stop, stop_k.
    The mapped function is instrumented (call / ret are scheduling points)."""
    import lazy_dataset
    ctl = detsched.Controlled(choose, pu_lines=pu_lines)
    with ctl as sched:
        sched.item_code = code
        fn_fail = set(cfg['fn_fail'])
        exc = _fail_exc(cfg['fail_kind'])

        def fn(x):
            sched.point('call')
            sched.log('call', x)
            sched.point('ret')
            if x in fn_fail:
                sched.log('ret', x, 0)
                raise exc(x)
            sched.log('ret', x, 1)
            return Ex(x)         # examples refuse to be compared

        delivered = []
        end = 'running'
        len_ok = True
        try:
            src = lazy_dataset.new(list(range(1, cfg['n'] + 1)))
            # buf_api: what is handed to the API - e.g. 1.5 * workers, a float:
            # "the buffer is full" must then mean ceil(buffer_size) = cfg['buf']
            bapi = cfg.get('buf_api', cfg['buf'])
            if cfg['api'] == 'prefetch':
                ds = src.map(fn).prefetch(cfg['w'], bapi,
                                          catch_filter_exception=True if cfg['cfe'] else None)
            else:
                ds = src.map(fn, num_workers=cfg['w'], buffer_size=bapi)
            # the same pipeline reached through a copy of it: copy(), a frozen
            # copy, the profiling wrapper (which copies the pipeline it wraps)
            via = cfg.get('via', 'direct')
            if via == 'copy':
                ds = ds.copy()
            elif via == 'frozen':
                ds = ds.copy(freeze=True)
            elif via == 'profile':
                from lazy_dataset.core import ProfilingDataset
                ds = ProfilingDataset(ds)
            if not (cfg['api'] == 'prefetch' and cfg['cfe']):
                len_ok = len(ds) == cfg['n']
            gen = iter(ds)
            if cfg['stop'] == 'close' and cfg['stop_k'] == 0:
                gen.close()
                end = 'closed'
            else:
                while True:
                    try:
                        item = next(gen)
                    except StopIteration:
                        end = 'returned'
                        break
                    sched.point('yield')
                    delivered.append(code(item))
                    sched.log('yield', code(item))
                    if cfg['stop'] == 'close' and len(delivered) == cfg['stop_k']:
                        sched.log('close')
                        gen.close()
                        end = 'closed'
                        break
        except Abort:
            end = sched.abort_reason
        except (OtherError, _fail_exc('filter')):
            end = 'raised_fn'
        except BaseException as e:
            end = 'raised_other_' + type(e).__name__
        nev = len(sched.events)
        sched.events.append({'th': 'C', 'op': 'back', 'a': -1, 'b': -1})
        alive = sched.idle_until_quiescent() if end not in ('deadlock', 'diverged') else []
    rec = dict(cfg)
    rec.update({'kind': 'ds', 'events': sched.events, 'delivered': delivered, 'end': end,
                'alive': len(alive), 'deadlock': bool(sched.deadlock), 'nback': nev,
                'len_ok': bool(len_ok), 'backend': 't', 'controlled': True,
                'shape': 'range', 'seq': [], 'seq_out': 'returned'})
    return rec, sched


def ds_big_configs(rng, count):
    """Dataset-level workloads well above the buffer size (the read-ahead
    bound is not trivial), reached directly and through copies."""
    out = []
    for _ in range(count):
        api = rng.choice(['prefetch', 'parmap'])
        w = rng.choice([1, 1, 2, 3])
        buf = rng.randint(w, 3)
        n = rng.randint(buf + 4, 14)
        stop = rng.choice([('exhaust', 0), ('close', rng.randint(1, n - 1))])
        c = {'api': api, 'n': n, 'buf': buf, 'w': w, 'fn_fail': [], 'fail_kind': 'filter',
             'cfe': 0, 'stop': stop[0], 'stop_k': stop[1],
             'via': rng.choice(['direct', 'copy', 'frozen', 'profile'])}
        if rng.random() < 0.25 and buf - 0.5 >= w:      # a non-integral buffer size
            c['buf_api'] = buf - 0.5
        out.append(c)
    return out


def ds_configs(max_n, ws, bufs):
    out = []
    for n in range(0, max_n + 1):
        for api in ('prefetch', 'parmap'):
            for w in ws:
                for buf in bufs:
                    if buf < w:
                        continue
                    fails = [([], 'filter', 0)] + [([f], kind, cfe)
                                                   for f in range(1, n + 1)
                                                   for kind in ('filter', 'other')
                                                   for cfe in ((0, 1) if api == 'prefetch' else (0,))]
                    if api == 'prefetch' and n >= 2:
                        fails.append(([1, 2], 'filter', 1))
                    for fn_fail, kind, cfe in fails:
                        stops = [('exhaust', 0)] + [('close', k) for k in range(1, n + 1)]
                        for stop, k in stops:
                            out.append({'api': api, 'n': n, 'buf': buf, 'w': w, 'fn_fail': fn_fail,
                                        'fail_kind': kind, 'cfe': cfe, 'stop': stop, 'stop_k': k})
    return out


def run_shared(cfg, choose, pu_lines=True):
    """Dataset level, the pool workers index a STRUCTURED pipeline (cfg['prog'],
    an API term of the pipeline family) that they share: every source line of
    lazy_dataset/core.py is a scheduling point.  cfg['seq'] (what the plain
    sequential pipeline delivers, coded) is taken first, without any pool.
    Returns (None, None) when the pipeline cannot be consumed this way."""
    import json
    import warnings
    import lazy_dataset.core as core
    from .build import build
    from .values import to_json
    with warnings.catch_warnings():
        warnings.simplefilter('ignore')
        try:
            inner = build(cfg['prog'])
            plain = [json.dumps(to_json(x), sort_keys=True) for x in inner]
            n_plain = len(inner)
            # a worker pool prefetch reads its input by index: an input that
            # does not offer that is refused (not a transparency question)
            if cfg['api'] == 'prefetch':
                if inner.indexable is not True:
                    return None, None
                # ... and whether reading by index agrees with iterating is
                # property C02 (known finding S14), not a question of schedules
                byidx = [json.dumps(to_json(inner[i]), sort_keys=True) for i in range(n_plain)]
                if byidx != plain:
                    return None, None
        except Exception:
            return None, None
    codes = {}
    for j in plain:
        codes.setdefault(j, len(codes) + 1)

    def vcode(x):
        return codes.get(json.dumps(to_json(x), sort_keys=True), 0)
    # failures of the mapped function are injected by VALUE (only when the
    # values are distinct, so that "the item" is well defined); the expected
    # outcome is that of the plain sequential pipeline with the same function
    fn_fail = sorted(set(cfg.get('fn_fail', ()))) if len(codes) == len(plain) else []
    fn_fail = [c for c in fn_fail if c <= len(plain)]
    kind = cfg.get('fail_kind', 'filter')
    cfe = 1 if (cfg.get('cfe') and cfg['api'] == 'prefetch') else 0
    exc = _fail_exc(kind)
    seq, seq_out = [], 'returned'
    for j in plain:
        if codes[j] in fn_fail:
            if cfe and kind == 'filter':
                continue
            seq_out = 'raised_fn'
            break
        seq.append(codes[j])
    cfg = dict(cfg, n=len(plain), fn_fail=fn_fail, fail_kind=kind, cfe=cfe)
    ctl = detsched.Controlled(choose, line_files=(core.__file__,), pu_lines=pu_lines)
    with ctl as sched, warnings.catch_warnings():
        warnings.simplefilter('ignore')
        sched.item_code = lambda item: -1
        sched.max_events = 20000

        def fn(x):
            c = vcode(x)
            sched.point('call')
            sched.log('call', c)
            sched.point('ret')
            if c in fn_fail:
                sched.log('ret', c, 0)
                raise exc(c)
            sched.log('ret', c, 1)
            return x
        delivered = []
        end = 'running'
        len_ok = True
        try:
            fresh = build(cfg['prog'])
            if cfg['api'] == 'prefetch':
                ds = fresh.map(fn).prefetch(cfg['w'], cfg['buf'],
                                            catch_filter_exception=True if cfe else None)
            else:
                ds = fresh.map(fn, num_workers=cfg['w'], buffer_size=cfg['buf'])
            len_ok = cfe == 1 or len(ds) == n_plain
            gen = iter(ds)
            if cfg['stop'] == 'close' and cfg['stop_k'] == 0:
                gen.close()
                end = 'closed'
            else:
                while True:
                    try:
                        item = next(gen)
                    except StopIteration:
                        end = 'returned'
                        break
                    sched.point('yield')
                    delivered.append(vcode(item))
                    sched.log('yield', vcode(item))
                    if cfg['stop'] == 'close' and len(delivered) == cfg['stop_k']:
                        sched.log('close')
                        gen.close()
                        end = 'closed'
                        break
        except Abort:
            end = sched.abort_reason
        except (OtherError, _fail_exc('filter')):
            end = 'raised_fn'
        except BaseException as e:
            end = 'raised_other_' + type(e).__name__
        nev = len(sched.events)
        sched.events.append({'th': 'C', 'op': 'back', 'a': -1, 'b': -1})
        alive = sched.idle_until_quiescent() if end not in ('deadlock', 'diverged') else []
    rec = dict(cfg)
    rec.update({'kind': 'ds', 'events': sched.events, 'delivered': delivered, 'end': end,
                'alive': len(alive), 'deadlock': bool(sched.deadlock), 'nback': nev,
                'len_ok': bool(len_ok), 'backend': 't', 'controlled': True,
                'shape': 'pipeline', 'seq': seq, 'seq_out': seq_out})
    return rec, sched
