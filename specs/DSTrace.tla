------------------------------- MODULE DSTrace -------------------------------
(***************************************************************************)
(* TRACE VALIDATION at the dataset level: ds.prefetch(w, b, backend,       *)
(* catch_filter_exception) and ds.map(fn, num_workers=w, buffer_size=b,    *)
(* backend) - controlled executions with the thread back end and sampled   *)
(* real runs of all five back ends.  Only the property-level machine       *)
(* (PrefetchAbs.tla) is used here: the log holds the user-code events      *)
(* (call / ret of the mapped function), the consumer's events and `back`.  *)
(* The "source" of the pool path is range(len): there is no pull event, so *)
(* read-ahead is measured on function starts.                              *)
(***************************************************************************)
EXTENDS PrefetchAbs, Json, IOUtils

TraceLog == ndJsonDeserialize(IOEnv.TRACE_FILE)
NRec == Len(TraceLog)
VARIABLE l
TInit == l = 1
TNext == \E c \in {2 * l, 2 * l + 1} : c <= NRec /\ l' = c
TSpec == TInit /\ [][TNext]_l

FailSet(rec) == {rec.fn_fail[j] : j \in 1..Len(rec.fn_fail)}
Caught(rec) == IF rec.cfe = 1 /\ rec.fail_kind = "filter" THEN FailSet(rec) ELSE {}
\* shape "range": the workload is map(fn) over range(n), its sequential meaning
\* is computed here; shape "pipeline": the pool workers index a structured
\* pipeline they share, the record carries what the plain sequential pipeline
\* delivered (coded values, taken without any pool before the run)
ExpOf(rec) == IF rec.shape = "pipeline" THEN [items |-> rec.seq, out |-> rec.seq_out]
              ELSE SeqExpect(rec.n, rec.n + 1, "none", FailSet(rec), Caught(rec))

\* C04 also demands the same len() (when the dataset offers one)
DS_C04(rec) ==
  LET v == V_C04(rec.events, rec.end, ExpOf(rec)) IN
  IF v[1] # "viol" /\ ~rec.len_ok THEN VViol("len-differs-from-the-sequential-pipeline") ELSE v

\* C07 at this level: function starts beyond the delivered examples.  The
\* single-thread path may be buffer + 2 ahead (queue + one in the worker's
\* hand + one in the consumer's hand); the pool path at most buffer.  The
\* stdlib PROCESS pool marks up to workers + 1 queued calls as running, which
\* does not change how many are STARTED beyond the buffer.
DS_C07(rec) ==
  LET bound == IF rec.api = "prefetch" /\ rec.w = 1 THEN rec.buf + 2 ELSE rec.buf
      ahead == MaxAheadCaught(rec.events, IsStart, Caught(rec))
  IN IF ahead > bound THEN VViol("started-more-than-the-buffer-allows-ahead")
     ELSE IF Count(rec.events, IsStart) <= bound THEN VTriv("workload-too-small-to-exceed-the-bound")
     ELSE VOk

Judge ==
  l <= NRec =>
    LET rec == TraceLog[l] IN
    PrintT(<<"VERDICT", ToJson(
      [id |-> rec.id,
       C04 |-> DS_C04(rec),
       C05 |-> V_C05(rec.events, rec.end, rec.deadlock, rec.alive, FALSE),
       C06 |-> V_C06(rec.events, rec.end, ExpOf(rec), FALSE),
       C07 |-> DS_C07(rec),
       conf |-> 0])>>)
=============================================================================
