------------------------------- MODULE Bucket -------------------------------
(***************************************************************************)
(* DYNAMIC BUCKET BATCHING  (property C17)                                 *)
(*                                                                         *)
(* lazy_dataset/core.py: DynamicBucket, DynamicTimeSeriesBucket,           *)
(* DynamicBucketDataset.__iter__, written as the loop it is:               *)
(*                                                                         *)
(*   for i, example in enumerate(input):                  pc = "pull"      *)
(*       first-fit maybe_append, else new bucket          action Pull      *)
(*       if bucket.is_completed(): yield; pop(j)          action Complete  *)
(*       if expiration: first expired bucket: yield/drop; break            *)
(*                                                        action Expire    *)
(*       while buffered > max_buffered: pop(0) yield/drop action Overflow  *)
(*   for bucket in buckets: yield (or nothing)            action Flush     *)
(*                                                                         *)
(* Every action is a total function on a state RECORD (DoPull, DoComplete, *)
(* DoExpire, DoOverflow, DoFlush); the state machine below installs them   *)
(* into the variables, and Run(p, lens) iterates the very same functions,  *)
(* which is what the trace spec (BucketTrace.tla) uses as the model's      *)
(* prediction for a recorded real execution.                               *)
(*                                                                         *)
(* An example is a pair <<id, len>>; id is its 0-based input position (the *)
(* harness feeds {'id': i, 'len': L}), so duplicates of a length stay      *)
(* distinguishable.  Rationals are pairs <<num, den>>, den > 0, compared   *)
(* by cross-multiplication (the harness runs the real code with            *)
(* fractions.Fraction, so the real arithmetic is exact as well).           *)
(* None is NONE (= 99, Values.tla) for max_total_size / expiration /       *)
(* max_buffered_examples.                                                  *)
(*                                                                         *)
(* Parameter record  p = [bs, rate, mts, exp, mbuf, drop, sort]:           *)
(*   bs   batch_size            rate  max_padding_rate <<num, den>> in [0,1)*)
(*   mts  max_total_size|NONE   exp   expiration|NONE                      *)
(*   mbuf max_buffered_examples|NONE                                       *)
(*   drop drop_incomplete       sort  "none" | "asc" | "desc"              *)
(*        (sort_key = the length; "desc" = reverse_sort=True)              *)
(*                                                                         *)
(* DEFECT S13 (original behaviour behind "S13" \in Unfixed):               *)
(* DynamicTimeSeriesBucket.assess looks at the padding bounds only and     *)
(* is_completed tests (len+1)*max_len with the max_len BEFORE the next     *)
(* example, so a longer example can push len*max_len over max_total_size.  *)
(* Repaired behaviour: assess also rejects an example for which            *)
(* (len(data)+1) * max(max_len, seq_len) > max_total_size.                 *)
(***************************************************************************)
EXTENDS Values, Json, Defects

-----------------------------------------------------------------------------
(* Exact rationals                                                         *)
RatLe(a, b)  == a[1] * b[2] <= b[1] * a[2]
RatMax(a, b) == IF RatLe(b, a) THEN a ELSE b        \* Python max(a, b)
RatMin(a, b) == IF RatLe(a, b) THEN a ELSE b        \* Python min(a, b)
IntR(n)      == <<n, 1>>
\* seq_len * (1 - rate)   and   seq_len / (1 - rate)
LowerOf(n, r) == <<n * (r[2] - r[1]), r[2]>>
UpperOf(n, r) == <<n * r[2], r[2] - r[1]>>

ExId(e)  == e[1]
ExLen(e) == e[2]
LensOf(ex)  == [k \in 1..Len(ex) |-> ExLen(ex[k])]
IdSet(ex)   == {ExId(ex[k]) : k \in 1..Len(ex)}
MaxOfSeq(s) == CHOOSE x \in {s[k] : k \in 1..Len(s)} : \A k \in 1..Len(s) : s[k] <= x
MinOfSeq(s) == CHOOSE x \in {s[k] : k \in 1..Len(s)} : \A k \in 1..Len(s) : x <= s[k]
MinOfSet(Z) == CHOOSE x \in Z : \A y \in Z : x <= y
RemoveAt(s, k) == SubSeq(s, 1, k - 1) \o SubSeq(s, k + 1, Len(s))

-----------------------------------------------------------------------------
(* DynamicTimeSeriesBucket                                                 *)

\* __init__
NewBucket(p, e, idx) ==
  [data |-> <<e>>, cidx |-> idx,
   lo |-> LowerOf(ExLen(e), p.rate), hi |-> UpperOf(ExLen(e), p.rate),
   maxlen |-> ExLen(e)]

\* is_completed
IsCompleted(p, b) ==
  \/ Len(b.data) >= p.bs
  \/ p.mts # NONE /\ (Len(b.data) + 1) * b.maxlen > p.mts

\* assess
Assess(p, b, n) ==
  /\ RatLe(b.lo, IntR(n))
  /\ RatLe(IntR(n), b.hi)
  /\ \/ "S13" \in Unfixed                       \* original: total never looked at
     \/ p.mts = NONE
     \/ (Len(b.data) + 1) * Max2(b.maxlen, n) <= p.mts

\* _append
AppendTo(p, b, e) ==
  [b EXCEPT !.data = Append(@, e),
            !.lo = RatMax(@, LowerOf(ExLen(e), p.rate)),
            !.hi = RatMin(@, UpperOf(ExLen(e), p.rate)),
            !.maxlen = Max2(@, ExLen(e))]

\* sorted(data, key=len, reverse=...): Python's sort is stable in both
\* directions
SortData(p, data) ==
  CASE p.sort = "asc"  -> StableSort(data, LAMBDA x, y : ExLen(x) < ExLen(y))
    [] p.sort = "desc" -> StableSort(data, LAMBDA x, y : ExLen(x) > ExLen(y))
    [] OTHER           -> data

-----------------------------------------------------------------------------
(* DynamicBucketDataset.__iter__ : the state record and its step functions *)
(*   pc        "pull" | "complete" | "expire" | "overflow" | "flush" |     *)
(*             "done" | "crash"                                            *)
(*   i         index of the example being processed (-1 before the first)  *)
(*   j         position (1-based) of the bucket the example went into      *)
(*   f         position of the final-flush loop                            *)
(*   buckets   the list `buckets` [data, cidx, lo, hi, maxlen]             *)
(*   buffered  buffered_count                                              *)
(*   emitted   what was yielded: [ex, pulls, why, cidx]; pulls = number of *)
(*             source examples pulled when the batch was yielded           *)
(*   dropped   what was discarded (drop_incomplete), same shape            *)
(*   exc       "none" or the exception the loop dies with                  *)
(*   y         TRUE iff the step that led here was a `yield` (the consumer *)
(*             holds the batch emitted[Len(emitted)] and has control)      *)

S0 == [pc |-> "pull", i |-> 0 - 1, j |-> 0, f |-> 0, buckets |-> <<>>, buffered |-> 0,
       emitted |-> <<>>, dropped |-> <<>>, exc |-> "none", y |-> FALSE]

Out(p, s, b, why) == [ex |-> SortData(p, b.data), pulls |-> s.i + 1, why |-> why,
                      cidx |-> b.cidx]

\* `yield data; buffered_count -= len(data); buckets.pop(k)`  or the
\* drop_incomplete branch `dropped_count += len(data); ...`
Retire(p, s, k, why, mayDrop) ==
  LET b == s.buckets[k]
      r == Out(p, s, b, why)
  IN [s EXCEPT !.emitted  = IF mayDrop /\ p.drop THEN @ ELSE Append(@, r),
               !.dropped  = IF mayDrop /\ p.drop THEN Append(@, r) ELSE @,
               !.buffered = @ - Len(b.data),
               !.buckets  = RemoveAt(@, k),
               !.y        = ~(mayDrop /\ p.drop)]

Crash(s, c) == [s EXCEPT !.pc = "crash", !.exc = c, !.y = FALSE]

\* one pass of `for i, example in enumerate(...)` up to `buffered_count += 1`
\* maybe_append asserts `not self.is_completed()` on every bucket it visits
DoPull(p, s, e) ==
  LET n == ExLen(e)
      c == FirstPos(s.buckets, LAMBDA b : IsCompleted(p, b) \/ Assess(p, b, n))
  IN IF c # 0 /\ IsCompleted(p, s.buckets[c]) THEN Crash(s, "AssertionError")
     ELSE IF c # 0
     THEN [s EXCEPT !.buckets[c] = AppendTo(p, @, e), !.i = ExId(e), !.j = c,
                    !.buffered = @ + 1, !.pc = "complete", !.y = FALSE]
     ELSE [s EXCEPT !.buckets = Append(@, NewBucket(p, e, ExId(e))), !.i = ExId(e),
                    !.j = Len(s.buckets) + 1, !.buffered = @ + 1, !.pc = "complete",
                    !.y = FALSE]

\* `if bucket.is_completed(): yield ...; buckets.pop(j)`
DoComplete(p, s) ==
  IF IsCompleted(p, s.buckets[s.j])
  THEN [Retire(p, s, s.j, "complete", FALSE) EXCEPT !.pc = "expire"]
  ELSE [s EXCEPT !.pc = "expire", !.y = FALSE]

\* `for j, (bucket, creation_idx) in enumerate(buckets): if i - creation_idx
\*  >= expiration: ...; buckets.pop(j); break`  -- ONE bucket per example
DoExpire(p, s) ==
  LET k == IF p.exp = NONE THEN 0
           ELSE FirstPos(s.buckets, LAMBDA b : s.i - b.cidx >= p.exp)
  IN IF k # 0 THEN [Retire(p, s, k, "expired", TRUE) EXCEPT !.pc = "overflow"]
     ELSE [s EXCEPT !.pc = "overflow", !.y = FALSE]

\* one turn of `while buffered_count > max_buffered_examples: buckets.pop(0)`
DoOverflow(p, s) ==
  IF p.mbuf # NONE /\ s.buffered > p.mbuf
  THEN IF s.buckets = <<>> THEN Crash(s, "IndexError")
       ELSE Retire(p, s, 1, "overflow", TRUE)              \* pc stays "overflow"
  ELSE [s EXCEPT !.pc = "pull", !.y = FALSE]

\* the input is exhausted
DoEnd(s) == [s EXCEPT !.pc = "flush", !.f = 1, !.y = FALSE]

\* one turn of the final `for bucket, _ in buckets:` (nothing is popped and
\* buffered_count is not touched any more)
DoFlush(p, s) ==
  IF s.f > Len(s.buckets) THEN [s EXCEPT !.pc = "done", !.y = FALSE]
  ELSE LET r == Out(p, s, s.buckets[s.f], "final")
       IN [s EXCEPT !.emitted = IF p.drop THEN @ ELSE Append(@, r),
                    !.dropped = IF p.drop THEN Append(@, r) ELSE @,
                    !.f = @ + 1, !.y = ~p.drop]

Internal(p, s) ==
  CASE s.pc = "complete" -> DoComplete(p, s)
    [] s.pc = "expire"   -> DoExpire(p, s)
    [] s.pc = "overflow" -> DoOverflow(p, s)
    [] s.pc = "flush"    -> DoFlush(p, s)
    [] OTHER             -> s

Halted(s) == s.pc \in {"done", "crash"}

\* the whole iteration over a given input
Run(p, lens) ==
  LET RECURSIVE Go(_, _)
      Go(s, k) ==
        IF Halted(s) THEN s
        ELSE IF s.pc = "pull"
        THEN IF k > Len(lens) THEN Go(DoEnd(s), k)
             ELSE Go(DoPull(p, s, <<k - 1, lens[k]>>), k + 1)
        ELSE Go(Internal(p, s), k)
  IN Go(S0, 1)

\* buckets that are still open (the flush loop does not pop)
OpenBuckets(s) == IF s.pc \in {"flush", "done"} THEN SubSeq(s.buckets, s.f, Len(s.buckets))
                  ELSE s.buckets

-----------------------------------------------------------------------------
(* OBSERVATION and VERDICT                                                 *)
(*                                                                         *)
(* An observation o of one iteration (the model's or the real one):        *)
(*   o.batches  the yielded batches, each a sequence of <<id, len>>        *)
(*   o.pulls    o.pulls[k] = number of source examples that had been       *)
(*              pulled when batch k was yielded (instrumented source)      *)
(*   o.exc      "none" or the class of the exception that ended it         *)
(*   o.ref      drop_incomplete=True only: batches and                     *)
(*   o.refpulls pulls of the SAME setting iterated with                    *)
(*              drop_incomplete=False (a second real run); <<>> otherwise  *)
(*                                                                         *)
(* Readings chosen where the statement leaves room (documented choices):   *)
(*  - ExpiryBound.  The bucket of a batch is created by its earliest       *)
(*    example c (= the smallest id in the batch).  "No bucket outlives     *)
(*    `expiration` further examples": when the batch is yielded at most    *)
(*    `expiration` examples after c have been pulled, i.e.                 *)
(*    (pulls - 1) - c <= expiration.  (The code tests i - c >= expiration  *)
(*    AFTER example i was placed, so a bucket can still receive the        *)
(*    example c + expiration; it cannot see example c + expiration + 1.    *)
(*    The bound is tight: the strict version is refuted by the doctest of  *)
(*    DynamicBucketDataset itself, expiration=4 yields [1] at pulls = 5.)  *)
(*    That the smallest id of a batch is its creation index is InvShape.   *)
(*    Dropped buckets are unobservable from outside; for them the bound    *)
(*    is the state invariant InvExpiry of the model.                       *)
(*  - BufferedBound.  "Withheld" = pulled - yielded - discarded, read at   *)
(*    every point where control is OUTSIDE the generator: after each yield *)
(*    (the yielded batch counts as delivered) and at each pull of the      *)
(*    source (incl. the pull that finds it exhausted).  Inside one loop    *)
(*    pass the count is transiently max_buffered_examples + 1; nobody can  *)
(*    observe that.  With drop_incomplete=True the instant of a discard is *)
(*    not observable; the verdict then assumes every finally missing       *)
(*    example was discarded as early as possible (no false alarm); the     *)
(*    exact count is the state invariant InvBuffered of the model.         *)
(*  - DropExact.  A batch "completed" iff it is full (batch_size) or no    *)
(*    further example fits under max_total_size ((len+1)*max_len > mts),   *)
(*    the definition in the docstring.  The reference for WHICH batches    *)
(*    exist is the same setting iterated with drop_incomplete=False: the   *)
(*    drop run must yield exactly the completed ones of those, at the same *)
(*    instants, and nothing else.                                          *)
(*  - TotalSizeBound.  len(batch) * longest <= max_total_size for batches  *)
(*    of more than one example (a single example longer than the limit     *)
(*    has to go somewhere; the statement exempts it).                      *)
(*  - PaddingBound.  shortest >= longest * (1 - rate), exact rationals;    *)
(*    with tol = 1 (float rates) a relative slack of 1e-4.                 *)
(*  - Raised.  An exception out of the iteration loses examples; it is     *)
(*    reported under its own clause name.                                  *)

VOk == <<"ok", "">>
VTriv(w) == <<"trivial", w>>
VViol(w) == <<"viol", w>>
IsViol(v) == v[1] = "viol"

TolK == 10000

SizeComplete(p, ex) ==
  \/ Len(ex) >= p.bs
  \/ p.mts # NONE /\ (Len(ex) + 1) * MaxOfSeq(LensOf(ex)) > p.mts

SizesOf(B) == [k \in 1..Len(B) |-> Len(B[k])]
SumUpTo(s, k) == SumSeq(SubSeq(s, 1, k))

\* every yielded example is an input example, with its own length
C_Genuine(lens, all) ==
  \A k \in 1..Len(all) : /\ ExId(all[k]) \in 0..(Len(lens) - 1)
                         /\ lens[ExId(all[k]) + 1] = ExLen(all[k])
C_AtMostOnce(all) == NoDup([k \in 1..Len(all) |-> ExId(all[k])])
C_All(lens, all) == \A x \in 0..(Len(lens) - 1) : \E k \in 1..Len(all) : ExId(all[k]) = x

C_NonEmpty(B) == \A k \in 1..Len(B) : Len(B[k]) >= 1
C_AtMostBatchSize(p, B) == \A k \in 1..Len(B) : Len(B[k]) <= p.bs
C_Padding(p, B, tol) ==
  \A k \in 1..Len(B) :
    LET mn == MinOfSeq(LensOf(B[k]))
        mx == MaxOfSeq(LensOf(B[k]))
        num == p.rate[1]
        den == p.rate[2]
    IN IF tol = 0 THEN mn * den >= mx * (den - num)
       ELSE mn * den * TolK + mx * den >= mx * (den - num) * TolK
C_TotalSize(p, B) ==
  p.mts # NONE =>
    \A k \in 1..Len(B) : Len(B[k]) > 1 => Len(B[k]) * MaxOfSeq(LensOf(B[k])) <= p.mts
C_Expiry(p, B, pulls) ==
  p.exp # NONE =>
    \A k \in 1..Len(B) : (pulls[k] - 1) - MinOfSet(IdSet(B[k])) <= p.exp
C_Buffered(p, lens, B, pulls, all) ==
  p.mbuf # NONE =>
    LET n     == Len(lens)
        sz    == SizesOf(B)
        got   == {ExId(all[k]) : k \in 1..Len(all)}
        \* drop mode: finally missing examples among the first m pulled
        Gone(m) == IF p.drop THEN Cardinality({x \in 0..(m - 1) : x \notin got}) ELSE 0
        \* batches yielded before the pull that takes (0-based) example m
        Before(m) == SumSeq([k \in 1..Len(B) |-> IF pulls[k] <= m THEN sz[k] ELSE 0])
    IN /\ \A k \in 1..Len(B) : pulls[k] - SumUpTo(sz, k) - Gone(pulls[k]) <= p.mbuf
       /\ \A m \in 0..n : m - Before(m) - Gone(m) <= p.mbuf
C_DropExact(p, o) ==
  p.drop =>
    LET keep == SelectIdx(o.ref, LAMBDA ex : SizeComplete(p, ex), 1)
    IN /\ \A k \in 1..Len(o.batches) : SizeComplete(p, o.batches[k])
       /\ o.batches = [k \in 1..Len(keep) |-> o.ref[keep[k]]]
       /\ o.pulls = [k \in 1..Len(keep) |-> o.refpulls[keep[k]]]

V_C17(p, lens, o, tol) ==
  LET B   == o.batches
      all == FlatSeq(B)
  IN IF o.exc # "none" THEN VViol("Raised")
     ELSE IF Len(o.pulls) # Len(B) THEN VViol("Observation")
     ELSE IF ~C_Genuine(lens, all) THEN VViol("Conservation:invented")
     ELSE IF ~C_AtMostOnce(all) THEN VViol("Conservation:duplicated")
     ELSE IF ~p.drop /\ ~C_All(lens, all) THEN VViol("Conservation:lost")
     ELSE IF ~C_NonEmpty(B) THEN VViol("NonEmpty")
     ELSE IF ~C_AtMostBatchSize(p, B) THEN VViol("AtMostBatchSize")
     ELSE IF ~C_Padding(p, B, tol) THEN VViol("PaddingBound")
     ELSE IF ~C_TotalSize(p, B) THEN VViol("TotalSizeBound")
     ELSE IF ~C_Expiry(p, B, o.pulls) THEN VViol("ExpiryBound")
     ELSE IF ~C_Buffered(p, lens, B, o.pulls, all) THEN VViol("BufferedBound")
     ELSE IF ~C_DropExact(p, o) THEN VViol("DropExact")
     ELSE IF lens = <<>> THEN VTriv("empty-input")
     ELSE VOk

\* which clauses had something to decide on this case (vacuity accounting)
Applicable(p, lens, o) ==
  LET B == o.batches IN
  (IF ~p.drop /\ lens # <<>> THEN <<"Conservation">> ELSE <<>>)
  \o (IF B # <<>> THEN <<"NonEmpty", "AtMostBatchSize">> ELSE <<>>)
  \o (IF \E k \in 1..Len(B) : Len(B[k]) > 1 THEN <<"PaddingBound">> ELSE <<>>)
  \o (IF p.mts # NONE /\ \E k \in 1..Len(B) : Len(B[k]) > 1 THEN <<"TotalSizeBound">> ELSE <<>>)
  \o (IF p.exp # NONE /\ B # <<>> THEN <<"ExpiryBound">> ELSE <<>>)
  \o (IF p.mbuf # NONE /\ lens # <<>> THEN <<"BufferedBound">> ELSE <<>>)
  \o (IF p.drop /\ o.ref # <<>> THEN <<"DropExact">> ELSE <<>>)

BatchesOf(s) == [k \in 1..Len(s.emitted) |-> s.emitted[k].ex]
PullsOf(s)   == [k \in 1..Len(s.emitted) |-> s.emitted[k].pulls]

\* the observation the model predicts from a final state s of setting p
ModelObs(p, lens, s) ==
  LET r == IF p.drop THEN Run([p EXCEPT !.drop = FALSE], lens) ELSE S0
  IN [batches |-> BatchesOf(s), pulls |-> PullsOf(s), exc |-> s.exc,
      ref |-> BatchesOf(r), refpulls |-> PullsOf(r)]

\* conformance of an observation with the model's prediction
Conforms(o, m) == o.batches = m.batches /\ o.pulls = m.pulls /\ o.exc = m.exc
DriftWhere(o, m) ==
  IF o.exc # m.exc THEN "exception"
  ELSE IF o.batches # m.batches THEN "batches"
  ELSE IF o.pulls # m.pulls THEN "pulls"
  ELSE "conforms"

-----------------------------------------------------------------------------
(* THE STATE MACHINE (exhaustive exploration, spec -> code)                *)
(* Init chooses a parameter setting; Pull chooses the next length, so the  *)
(* behaviours are all settings x all length sequences up to MaxLen.        *)

CONSTANTS Alphabet,      \* lengths an example may have
          MaxLen,        \* longest input sequence
          BatchSizes, RateTenths, MaxTotals, Expirations, MaxBuffered,
          DropModes, SortModes

VARIABLES par, lens, pc, i, j, f, buckets, buffered, emitted, dropped, exc, yielded
vars == <<par, lens, pc, i, j, f, buckets, buffered, emitted, dropped, exc, yielded>>

St == [pc |-> pc, i |-> i, j |-> j, f |-> f, buckets |-> buckets, buffered |-> buffered,
       emitted |-> emitted, dropped |-> dropped, exc |-> exc, y |-> yielded]
Install(s) ==
  /\ pc' = s.pc /\ i' = s.i /\ j' = s.j /\ f' = s.f /\ buckets' = s.buckets
  /\ buffered' = s.buffered /\ emitted' = s.emitted /\ dropped' = s.dropped
  /\ exc' = s.exc /\ yielded' = s.y

ParamSpace ==
  {[bs |-> b, rate |-> <<t, 10>>, mts |-> m, exp |-> e, mbuf |-> u, drop |-> d, sort |-> o] :
     b \in BatchSizes, t \in RateTenths, m \in MaxTotals, e \in Expirations,
     u \in MaxBuffered, d \in DropModes, o \in SortModes}

Init ==
  /\ par \in ParamSpace
  /\ lens = <<>>
  /\ pc = S0.pc /\ i = S0.i /\ j = S0.j /\ f = S0.f /\ buckets = S0.buckets
  /\ buffered = S0.buffered /\ emitted = S0.emitted /\ dropped = S0.dropped
  /\ exc = S0.exc /\ yielded = S0.y

Pull(n) ==
  /\ pc = "pull" /\ Len(lens) < MaxLen
  /\ lens' = Append(lens, n)
  /\ Install(DoPull(par, St, <<Len(lens), n>>))
  /\ UNCHANGED par
EndInput  == pc = "pull" /\ Install(DoEnd(St)) /\ UNCHANGED <<par, lens>>
Complete  == pc = "complete" /\ Install(DoComplete(par, St)) /\ UNCHANGED <<par, lens>>
Expire    == pc = "expire" /\ Install(DoExpire(par, St)) /\ UNCHANGED <<par, lens>>
Overflow  == pc = "overflow" /\ Install(DoOverflow(par, St)) /\ UNCHANGED <<par, lens>>
Flush     == pc = "flush" /\ Install(DoFlush(par, St)) /\ UNCHANGED <<par, lens>>

Next == (\E n \in Alphabet : Pull(n)) \/ EndInput \/ Complete \/ Expire \/ Overflow \/ Flush
Spec == Init /\ [][Next]_vars

-----------------------------------------------------------------------------
(* DESIGN-LEVEL INVARIANTS (every reachable state of the model)            *)

Retired == emitted \o dropped
Pulled == i + 1
Withheld == Pulled - SumSeq([k \in 1..Len(Retired) |-> Len(Retired[k].ex)])

\* buffered_count is the number of examples in the open buckets
InvBufferedCount ==
  pc \notin {"flush", "done", "crash"} =>
    buffered = SumSeq([k \in 1..Len(buckets) |-> Len(buckets[k].data)])
\* neither `assert not self.is_completed()` nor `buckets.pop(0)` of an empty
\* list can fire
InvNoCrash == pc # "crash"
\* an open bucket is never completed (only the bucket just touched may be,
\* until Complete has looked at it)
InvOpenIncomplete ==
  \A k \in 1..Len(OpenBuckets(St)) :
    (pc = "complete" /\ k = j) \/ ~IsCompleted(par, OpenBuckets(St)[k])
\* every pulled example is in exactly one place
InvPartition ==
  LET open == OpenBuckets(St)
      where == FlatSeq([k \in 1..Len(open) |-> open[k].data])
               \o FlatSeq([k \in 1..Len(Retired) |-> Retired[k].ex])
  IN /\ NoDup(where)
     /\ {where[k] : k \in 1..Len(where)} = {<<x, lens[x + 1]>> : x \in 0..(Pulled - 1)}
InvShape ==
  /\ \A k \in 1..Len(Retired) : Len(Retired[k].ex) >= 1 /\ Len(Retired[k].ex) <= par.bs
  /\ C_Padding(par, BatchesOf(St), 0)
  /\ \A k \in 1..Len(buckets) : buckets[k].cidx = MinOfSet(IdSet(buckets[k].data))
\* TotalSizeBound as a state invariant: expected to FAIL while S13 is
\* modelled as original (that is how TLC rediscovers S13: configuration
\* MC with INVARIANT InvTotalSize); the enumeration runs leave it to the
\* verdict in the emitted VEC so that the search goes on.
InvTotalSize == C_TotalSize(par, BatchesOf(St))
\* between two loop passes no open bucket is `expiration` examples old, and
\* nothing was retired later than that
InvExpiry ==
  par.exp # NONE =>
    /\ pc \in {"pull", "flush", "done"} =>
         \A k \in 1..Len(OpenBuckets(St)) : i - OpenBuckets(St)[k].cidx < par.exp
    /\ \A k \in 1..Len(Retired) : (Retired[k].pulls - 1) - Retired[k].cidx <= par.exp
\* exact withheld count wherever control is outside the generator: at a
\* pull of the source (also the one that finds it exhausted) and right
\* after every yield
InvBuffered ==
  par.mbuf # NONE /\ (yielded \/ pc = "pull" \/ (pc = "flush" /\ f = 1)) =>
    Withheld <= par.mbuf
\* drop_incomplete: what is yielded completed, what is discarded did not
InvDropExact ==
  /\ ~par.drop => dropped = <<>>
  /\ par.drop => /\ \A k \in 1..Len(emitted) :
                      emitted[k].why = "complete" /\ SizeComplete(par, emitted[k].ex)
                 /\ \A k \in 1..Len(dropped) :
                      dropped[k].why # "complete" /\ ~SizeComplete(par, dropped[k].ex)
  /\ \A k \in 1..Len(emitted) :
       (emitted[k].why = "complete") <=> SizeComplete(par, emitted[k].ex)

\* emission of every finished behaviour with the model's observation and
\* the model's own verdict (always true)
EmitCase ==
  Halted(St) =>
    LET m == ModelObs(par, lens, St)
    IN PrintT(<<"VEC", ToJson([par |-> par, lens |-> lens, batches |-> m.batches,
                               pulls |-> m.pulls, exc |-> m.exc,
                               ref |-> m.ref, refpulls |-> m.refpulls,
                               why |-> [k \in 1..Len(emitted) |-> emitted[k].why],
                               ndrop |-> Len(dropped),
                               mv |-> V_C17(par, lens, m, 0)])>>)
=============================================================================
