--------------------------------- MODULE Impl --------------------------------
(***************************************************************************)
(* IMPLEMENTATION-SHAPED MODEL of lazy_dataset/core.py.                    *)
(*                                                                         *)
(* One operator group per Dataset class, transcribing the METHOD BODIES    *)
(* (quirks included): indexable / ordered / __len__ / keys / __getitem__   *)
(* by int and by str / __iter__(with_key) / copy, and the factory methods  *)
(* of `Dataset` (filter, sort, split, shuffle, tile, cache, groupby, ...)  *)
(* as the function Build from API programs to object graphs.               *)
(*                                                                         *)
(* An object term is a record with field `cl` (the class):                 *)
(*   List(vals, wu)  Dict(ks, vals)  Map(fn, sub)  Filter(p, sub)          *)
(*   Slice(sidx, sub)  Concat(subs)  Inter(subs, order)  Zip(subs)         *)
(*   KeyZip(subs)  Items(sub)  Batch(b, drop, sub)  Unbatch(sub)           *)
(*   Catch(E, sub)  Prefetch(w, bs, cfe, sub)  Cache(sub)  Cycle(sub,take) *)
(* (new()/from_dict/from_list put a MapDataset(pickle.loads) on top of the *)
(*  storage; it is transparent for everything modelled here and is folded  *)
(*  into List / Dict.  Storage modes are the business of Isolation.tla.)   *)
(*                                                                         *)
(* Every operator returns an OUTCOME (Values.tla): a Python exception is a *)
(* value here, and is propagated exactly where the code would propagate.   *)
(* Class names are the real ones, so that model and code can be compared.  *)
(***************************************************************************)
EXTENDS Ref, Defects

OList(vals, wu)    == [cl |-> "List", vals |-> vals, wu |-> wu]
ODict(ks, vals)    == [cl |-> "Dict", ks |-> ks, vals |-> vals]
OMap(fn, sub)      == [cl |-> "Map", fn |-> fn, sub |-> sub, par |-> 0]
\* ParMapDataset: map through lazy_parallel_map with buffer_size = par >= 1
OPMap(fn, sub, bs) == [cl |-> "Map", fn |-> fn, sub |-> sub, par |-> bs]
OFilter(p, sub)    == [cl |-> "Filter", p |-> p, sub |-> sub]
OSlice(sidx, sub)  == [cl |-> "Slice", sidx |-> sidx, sub |-> sub]
OConcat(subs)      == [cl |-> "Concat", subs |-> subs]
OInter(subs, ord)  == [cl |-> "Inter", subs |-> subs, order |-> ord]
OZip(subs)         == [cl |-> "Zip", subs |-> subs]
OKeyZip(subs)      == [cl |-> "KeyZip", subs |-> subs]
OItems(sub)        == [cl |-> "Items", sub |-> sub]
OBatch(b, dr, sub) == [cl |-> "Batch", b |-> b, drop |-> dr, sub |-> sub]
OUnbatch(sub)      == [cl |-> "Unbatch", sub |-> sub]
OCatch(E, sub)     == [cl |-> "Catch", E |-> E, sub |-> sub]
\* ApplyDataset(apply_function, input): ag is the API term of the function
OApply(ag, sub) == [cl |-> "Apply", ag |-> ag, sub |-> sub]
OPrefetch(w, bs, cfe, sub) ==
  [cl |-> "Prefetch", w |-> w, bs |-> bs, cfe |-> cfe, sub |-> sub]
OCache(sub)        == [cl |-> "Cache", sub |-> sub]
OCycle(sub, take)  == [cl |-> "Cycle", sub |-> sub, take |-> take]

\* user function records: [nm |-> "inc" | "wrap" | "pair"] or
\* [nm |-> "fail", p |-> pred, cls |-> class] or [nm |-> "key", kf |-> name]
CallFn(fn, x) ==
  CASE fn.nm = "fail" -> IF Pred(fn.p, x) THEN ErrV(fn.cls) ELSE OkV(x)
    [] fn.nm = "key"  -> OkV(I(KeyFn(fn.kf, x)))
    [] OTHER          -> OkV(ApplyFn(fn.nm, x))

\* `except Exception` / catch(Exception): everything but BaseException-only
BaseOnly == {"UserBaseException", "_ItemsNotDefined"}
CatchesAny(E, c) ==
  IF c \in UserExc THEN Catches(E, c)
  ELSE E = "Exception" /\ c \notin BaseOnly

PairV(k, v) == T(<<S(k), v>>)          \* what with_key iteration yields

\* deliver a sequence of outcomes until the first failure
DeliverOutcomes(rs) ==
  LET p == FirstPos(rs, LAMBDA r : ~r.ok) IN
  IF p = 0 THEN ItR([j \in 1..Len(rs) |-> rs[j].v], "none")
  ELSE ItR([j \in 1..(p - 1) |-> rs[j].v], rs[p].exc)
\* the same, but failures caught by E are skipped (catch / catcher wrapper)
RECURSIVE DeliverCatching(_, _)
DeliverCatching(rs, E) ==
  IF rs = <<>> THEN ItR(<<>>, "none")
  ELSE LET r == Head(rs) IN
       IF r.ok THEN LET rest == DeliverCatching(Tail(rs), E)
                    IN ItR(<<r.v>> \o rest.items, rest.exc)
       ELSE IF CatchesAny(E, r.exc) THEN DeliverCatching(Tail(rs), E)
       ELSE ItR(<<>>, r.exc)

LastIndexOf(x, s) == CHOOSE j \in 1..Len(s) : s[j] = x /\ \A m \in (j+1)..Len(s) : s[m] # x

-----------------------------------------------------------------------------
RECURSIVE Idx(_), Ord(_), LenO(_), KeysO(_), Gi(_, _), Gs(_, _), It(_, _)
RECURSIVE BuildUnary(_, _), FreezeB(_)

\* all([ds.X for ds in input_datasets]) over "T"/"F"/exception strings: the
\* list comprehension evaluates every element first (an exception wins)
AllList(flags) ==
  LET p == FirstPos(flags, LAMBDA f : f \notin {"T", "F"}) IN
  IF p # 0 THEN flags[p]
  ELSE IF \A j \in 1..Len(flags) : flags[j] = "T" THEN "T" ELSE "F"
\* all(ds.X for ds in input_datasets): generator, short-circuits
AllGen(flags) ==
  LET p == FirstPos(flags, LAMBDA f : f # "T") IN
  IF p = 0 THEN "T" ELSE flags[p]

Idx(t) ==
  CASE t.cl \in {"List", "Dict"} -> "T"
    [] t.cl \in {"Map", "Items", "Batch", "Cache", "Cycle"} -> Idx(t.sub)
    [] t.cl \in {"Filter", "Unbatch", "Catch", "Prefetch", "Apply"} -> "F"
    [] t.cl = "Slice" ->    \* asserts that the input is indexable
         LET f == Idx(t.sub) IN IF f = "F" THEN "AssertionError" ELSE f
    [] t.cl \in {"Concat", "Inter", "Zip", "KeyZip"} ->
         AllList([d \in 1..Len(t.subs) |-> Idx(t.subs[d])])
    [] OTHER -> "NotImplementedError"

Ord(t) ==
  CASE t.cl \in {"List", "Dict", "KeyZip"} -> "T"
    [] t.cl \in {"Map", "Items", "Batch", "Cache", "Cycle", "Filter", "Unbatch",
                 "Catch", "Prefetch", "Slice"} -> Ord(t.sub)
    [] t.cl \in {"Concat", "Inter", "Zip"} ->
         AllGen([d \in 1..Len(t.subs) |-> Ord(t.subs[d])])
    [] t.cl = "Apply" -> "F"
    [] OTHER -> "NotImplementedError"

LenO(t) ==
  CASE t.cl \in {"List", "Dict"} -> OkN(Len(t.vals))
    [] t.cl \in {"Map", "Items", "Cache"} -> LenO(t.sub)
    [] t.cl \in {"Filter", "Unbatch", "Catch"} -> ErrN("TypeErrorLazyMessage")
    [] t.cl = "Cycle" -> ErrN("TypeError")
    [] t.cl = "Slice" -> OkN(Len(t.sidx))
    [] t.cl = "Concat" ->
         LET ls == [d \in 1..Len(t.subs) |-> LenO(t.subs[d])]
             p  == FirstPos(ls, LAMBDA r : ~r.ok)
         IN IF p # 0 THEN ls[p] ELSE OkN(SumSeq([d \in 1..Len(ls) |-> ls[d].n]))
    [] t.cl = "Inter" -> OkN(Len(t.order))
    [] t.cl \in {"Zip", "KeyZip"} -> LenO(t.subs[1])
    [] t.cl = "Batch" ->
         LET l == LenO(t.sub) IN
         IF ~l.ok THEN l
         ELSE IF t.drop THEN OkN(l.n \div t.b) ELSE OkN(CeilDiv(l.n, t.b))
    [] t.cl = "Prefetch" ->
         IF t.cfe # "none" THEN ErrN("TypeErrorLazyMessage") ELSE LenO(t.sub)
    [] OTHER -> ErrN("TypeErrorLazyMessage")

KeysO(t) ==
  CASE t.cl = "Dict" -> OkK(t.ks)
    [] t.cl \in {"Map", "Items", "Cache", "Cycle"} -> KeysO(t.sub)
    [] t.cl = "KeyZip" -> KeysO(t.subs[1])
    [] t.cl = "Slice" ->
         LET k == KeysO(t.sub) IN
         IF ~k.ok THEN k
         \* itemgetter(*self.slice)(keys); single element special-cased;
         \* [S1] original code: no empty case -> itemgetter() raises TypeError
         ELSE IF "S1" \in Unfixed /\ t.sidx = <<>> THEN ErrK("TypeError")
         ELSE OkK([j \in 1..Len(t.sidx) |-> k.ks[t.sidx[j] + 1]])
    [] t.cl = "Concat" ->
         LET kk == [d \in 1..Len(t.subs) |-> KeysO(t.subs[d])]
             p  == FirstPos(kk, LAMBDA r : ~r.ok)
             all == FlatSeq([d \in 1..Len(kk) |-> kk[d].ks])
         IN IF p # 0 THEN kk[p]
            ELSE IF ~NoDup(all) THEN ErrK("AssertionError") ELSE OkK(all)
    [] t.cl = "Inter" ->
         LET kk == [d \in 1..Len(t.subs) |-> KeysO(t.subs[d])]
             p  == FirstPos(kk, LAMBDA r : ~r.ok)
             all == [j \in 1..Len(t.order) |-> kk[t.order[j][1]].ks[t.order[j][2]]]
         IN IF p # 0 THEN kk[p]
            ELSE IF ~NoDup(all) THEN ErrK("AssertionError") ELSE OkK(all)
    [] OTHER -> ErrK("NotImplementedError")

\* NumpySerializedList.__getitem__ (immutable_warranty='wu'):
\*   start = 0 if idx == 0 else _addr[idx - 1];  end = _addr[idx]
\* [S5] original code: idx = -len evaluates _addr[-len - 1] -> IndexError
WuPos(n, i) ==
  IF "S5" \in Unfixed
  THEN IF i = 0 THEN (IF n >= 1 THEN 1 ELSE 0)
       ELSE IF i > 0 THEN (IF i < n THEN i + 1 ELSE 0)
       ELSE (IF i >= 1 - n THEN n + i + 1 ELSE 0)
  ELSE PyPos(n, i)

BatchGet(t, i) ==
  LET l   == LenO(t)
      neg == i < 0
      it0 == IF neg THEN i + l.n ELSE i
  IN IF neg /\ ~l.ok THEN ErrV(l.exc)
     ELSE IF it0 < 0 THEN ErrV("IndexError")
     ELSE LET base == it0 * t.b
              rs   == [m \in 1..t.b |-> Gi(t.sub, base + m - 1)]
              \* the first outcome that makes the loop raise
              \* `except IndexError: if i == 0 or drop_last: raise; else: pass` - the
              \* loop goes on with the next member.
              \* [S23] original code: ANY IndexError is passed over - also the one a
              \* user function raised for an example that exists; repaired: only an
              \* index beyond the input's len() is (no len(): as before)
              ln   == LenO(t.sub)
              Skipped(m) == /\ ~rs[m].ok /\ IsIndexErr(rs[m].exc) /\ m # 1 /\ ~t.drop
                            /\ ("S23" \in Unfixed \/ ~ln.ok \/ base + m - 1 >= ln.n)
              Raises(m) == ~rs[m].ok /\ ~Skipped(m)
              p    == IF \E m \in 1..t.b : Raises(m)
                      THEN CHOOSE m \in 1..t.b : Raises(m) /\ \A z \in 1..(m-1) : ~Raises(z)
                      ELSE 0
              oks  == SelectIdx(rs, LAMBDA r : r.ok, 1)
          IN IF p # 0 THEN ErrV(rs[p].exc)
             ELSE OkV(L([j \in 1..Len(oks) |-> rs[oks[j]].v]))

RECURSIVE ConcatWalk(_, _, _)
ConcatWalk(subs, d, item) ==
  IF d > Len(subs) THEN ErrV("IndexError")
  ELSE LET l == LenO(subs[d]) IN
       IF ~l.ok THEN ErrV(l.exc)
       ELSE IF l.n <= item THEN ConcatWalk(subs, d + 1, item - l.n)
       ELSE Gi(subs[d], item)

TupleOf(rs) ==
  LET p == FirstPos(rs, LAMBDA r : ~r.ok) IN
  IF p # 0 THEN ErrV(rs[p].exc) ELSE OkV(T([j \in 1..Len(rs) |-> rs[j].v]))

Gi(t, i) ==
  CASE t.cl = "List" ->
         LET p == IF t.wu THEN WuPos(Len(t.vals), i) ELSE PyPos(Len(t.vals), i)
         IN IF p = 0 THEN ErrV("IndexError") ELSE OkV(t.vals[p])
    [] t.cl = "Dict" ->
         LET p == PyPos(Len(t.vals), i)
         IN IF p = 0 THEN ErrV("IndexError") ELSE OkV(t.vals[p])
    [] t.cl = "Map" ->
         LET r == Gi(t.sub, i) IN IF r.ok THEN CallFn(t.fn, r.v) ELSE r
    [] t.cl = "Filter" -> ErrV("AssertionError")
    [] t.cl = "Slice" ->
         LET p == PyPos(Len(t.sidx), i)
         IN IF p = 0 THEN ErrV("IndexError") ELSE Gi(t.sub, t.sidx[p])
    [] t.cl = "Concat" ->
         IF i < 0 THEN
           LET l == LenO(t) IN
           IF ~l.ok THEN ErrV(l.exc)
           ELSE IF i + l.n < 0 THEN ErrV("IndexError")
           ELSE ConcatWalk(t.subs, 1, i + l.n)
         ELSE ConcatWalk(t.subs, 1, i)
    [] t.cl = "Inter" ->
         LET p == PyPos(Len(t.order), i)
         IN IF p = 0 THEN ErrV("IndexError")
            ELSE Gi(t.subs[t.order[p][1]], t.order[p][2] - 1)
    [] t.cl = "Zip" -> TupleOf([d \in 1..Len(t.subs) |-> Gi(t.subs[d], i)])
    [] t.cl = "KeyZip" ->
         LET k == KeysO(t) IN
         IF ~k.ok THEN ErrV(k.exc)
         ELSE LET p == PyPos(Len(k.ks), i)
              IN IF p = 0 THEN ErrV("IndexError") ELSE Gs(t, k.ks[p])
    [] t.cl = "Items" ->
         LET k == KeysO(t) IN
         IF ~k.ok THEN ErrV(k.exc)
         ELSE LET p == PyPos(Len(k.ks), i)
              IN IF p = 0 THEN ErrV("IndexError")
                 ELSE LET r == Gi(t.sub, i)
                      IN IF r.ok THEN OkV(PairV(k.ks[p], r.v)) ELSE r
    [] t.cl = "Batch" -> BatchGet(t, i)
    [] t.cl = "Cache" ->
         \* [S6] original code uses the raw index (values agree; the call
         \* counts differ, see Cache.tla); repaired code normalises first
         LET l == LenO(t) IN
         IF "S6" \in Unfixed THEN Gi(t.sub, i)
         ELSE IF i < 0 /\ ~l.ok THEN ErrV(l.exc)
         ELSE IF i < 0 /\ i + l.n < 0 THEN ErrV("IndexError")
         ELSE Gi(t.sub, IF i < 0 THEN i + l.n ELSE i)
    [] t.cl = "Cycle" ->
         LET o == Ord(t) IN
         IF o = "T" THEN
           LET l == LenO(t.sub) IN
           IF ~l.ok THEN ErrV(l.exc)
           ELSE IF l.n = 0 THEN ErrV("ZeroDivisionError")
           ELSE Gi(t.sub, i % l.n)
         ELSE ErrV("NotImplementedError")
    [] OTHER -> ErrV("NotImplementedError")     \* Unbatch, Catch, Prefetch

RECURSIVE FirstPartWith(_, _, _)
\* for dataset in input_datasets: if item in dataset.keys(): return dataset[item]
FirstPartWith(subs, d, k) ==
  IF d > Len(subs) THEN 0
  ELSE IF InSeq(k, KeysO(subs[d]).ks) THEN d
  ELSE FirstPartWith(subs, d + 1, k)

Gs(t, k) ==
  CASE t.cl = "Dict" ->
         IF InSeq(k, t.ks) THEN OkV(t.vals[IndexOf(k, t.ks)])
         ELSE ErrV("KeyErrorCloseMatches")
    [] t.cl = "Map" ->
         LET r == Gs(t.sub, k) IN IF r.ok THEN CallFn(t.fn, r.v) ELSE r
    [] t.cl = "Filter" ->
         LET r == Gs(t.sub, k) IN
         IF r.ok /\ ~Pred(t.p, r.v) THEN ErrV("IndexError") ELSE r
    [] t.cl = "Slice" ->
         \* [S2] original code: return self.input_dataset[item] (blindly)
         LET ks == KeysO(t) IN
         IF "S2" \in Unfixed THEN Gs(t.sub, k)
         ELSE IF ~ks.ok THEN ErrV(ks.exc)
         ELSE IF ~InSeq(k, ks.ks) THEN ErrV("KeyErrorCloseMatches")
         ELSE Gs(t.sub, k)
    [] t.cl \in {"Catch", "Cycle"} -> Gs(t.sub, k)
    [] t.cl = "Concat" ->
         LET ks == KeysO(t) IN
         IF ~ks.ok THEN ErrV(ks.exc)
         ELSE LET d == FirstPartWith(t.subs, 1, k)
              IN IF d = 0 THEN ErrV("KeyErrorCloseMatches") ELSE Gs(t.subs[d], k)
    [] t.cl = "Inter" ->
         LET ks == KeysO(t) IN
         IF ~ks.ok THEN ErrV(ks.exc)
         ELSE LET d == FirstPartWith(t.subs, 1, k)
              \* [S3] original code: the loop falls through -> returns None
              IN IF d = 0 THEN (IF "S3" \in Unfixed THEN OkV(NoneV)
                                ELSE ErrV("KeyErrorCloseMatches"))
                 ELSE Gs(t.subs[d], k)
    [] t.cl = "KeyZip" -> TupleOf([d \in 1..Len(t.subs) |-> Gs(t.subs[d], k)])
    [] t.cl = "Items" ->
         LET ks == KeysO(t) IN
         IF ~ks.ok THEN ErrV(ks.exc)
         ELSE IF ~InSeq(k, ks.ks) THEN ErrV("ValueError")
         ELSE LET r == Gi(t.sub, IndexOf(k, ks.ks) - 1)
              IN IF r.ok THEN OkV(PairV(k, r.v)) ELSE r
    [] t.cl = "Cache" ->
         LET ks == KeysO(t) IN
         IF ~ks.ok THEN ErrV(ks.exc)
         ELSE IF ~InSeq(k, ks.ks) THEN ErrV("ValueError")
         ELSE Gi(t, IndexOf(k, ks.ks) - 1)
    [] OTHER -> ErrV("NotImplementedError")  \* List, Zip, Batch, Unbatch, Prefetch

\* value of an iteration item: the example itself or the 2nd half of a pair
IsPairV(x) == x.t = "T" /\ Len(x.tp) = 2
ItemVal(x, wk) == IF wk THEN x.tp[2] ELSE x
ReVal(x, wk, v) == IF wk THEN T(<<x.tp[1], v>>) ELSE v
\* `for k, v in ...` over something that is not a pair raises (only
\* reachable while S4 is unfixed); the iteration is cut there
CutNonPairs(r, wk) ==
  IF ~wk THEN r
  ELSE LET p == FirstPos(r.items, LAMBDA x : ~IsPairV(x))
       IN IF p = 0 THEN r ELSE ItR(SubSeq(r.items, 1, p - 1), "TypeError")

MapIt(r0, fn, wk) ==
  LET r  == CutNonPairs(r0, wk)
      rs == [j \in 1..Len(r.items) |-> CallFn(fn, ItemVal(r.items[j], wk))]
      p  == FirstPos(rs, LAMBDA o : ~o.ok)
      upto == IF p = 0 THEN Len(rs) ELSE p - 1
  IN ItR([j \in 1..upto |-> ReVal(r.items[j], wk, rs[j].v)],
         IF p = 0 THEN r.exc ELSE rs[p].exc)

RECURSIVE ConcatIt(_, _, _)
ConcatIt(subs, d, wk) ==
  IF d > Len(subs) THEN ItR(<<>>, "none")
  ELSE LET r == It(subs[d], wk) IN
       IF r.exc # "none" THEN r
       ELSE LET rest == ConcatIt(subs, d + 1, wk)
            IN ItR(r.items \o rest.items, rest.exc)

InterIt(t, wk) ==
  LET its == [d \in 1..Len(t.subs) |-> It(t.subs[d], wk)]
      Has(e)  == e[2] <= Len(its[e[1]].items)
      p       == FirstPos(t.order, LAMBDA e : ~Has(e))
      upto    == IF p = 0 THEN Len(t.order) ELSE p - 1
      Why(e)  == IF its[e[1]].exc = "none" THEN "RuntimeError" ELSE its[e[1]].exc
  IN ItR([j \in 1..upto |-> its[t.order[j][1]].items[t.order[j][2]]],
         IF p = 0 THEN "none" ELSE Why(t.order[p]))

ZipIt(t) ==
  LET its == [d \in 1..Len(t.subs) |-> It(t.subs[d], FALSE)]
      m   == CHOOSE x \in {Len(its[d].items) : d \in 1..Len(its)} :
               \A d \in 1..Len(its) : x <= Len(its[d].items)
      \* the first input (in argument order) that cannot deliver row m+1
      dd  == CHOOSE d \in 1..Len(its) : Len(its[d].items) = m
               /\ \A q \in 1..(d-1) : Len(its[q].items) > m
  IN ItR([j \in 1..m |-> T([d \in 1..Len(its) |-> its[d].items[j]])], its[dd].exc)

BatchIt(t) ==
  LET r   == It(t.sub, FALSE)
      nf  == Len(r.items) \div t.b
      rem == Len(r.items) % t.b
      full == [j \in 1..nf |-> L(SubSeq(r.items, (j-1) * t.b + 1, j * t.b))]
  IN IF r.exc # "none" THEN ItR(full, r.exc)
     ELSE IF rem > 0 /\ ~t.drop
     THEN ItR(full \o <<L(SubSeq(r.items, nf * t.b + 1, Len(r.items)))>>, "none")
     ELSE ItR(full, "none")

UnbatchIt(t) ==
  LET r   == It(t.sub, FALSE)
      bad == FirstPos(r.items, LAMBDA x : x.t \notin {"L", "T"})
      upto == IF bad = 0 THEN Len(r.items) ELSE bad - 1
      Mem(x) == IF x.t = "L" THEN x.xs ELSE x.tp
  IN ItR(FlatSeq([j \in 1..upto |-> Mem(r.items[j])]),
         IF bad = 0 THEN r.exc ELSE "AssertionError")

\* copy(freeze): every class rebuilds itself around copies of its inputs;
\* CycleDataset has no copy() (the base class raises NotImplementedError)
RECURSIVE CopyOk(_)
CopyOk(t) ==
  CASE t.cl \in {"List", "Dict"} -> TRUE
    [] t.cl = "Cycle" -> FALSE
    [] t.cl \in {"Concat", "Inter", "Zip", "KeyZip"} ->
         \A d \in 1..Len(t.subs) : CopyOk(t.subs[d])
    [] OTHER -> CopyOk(t.sub)

\* input_dataset = self.input_dataset.copy(freeze=True); keys / len / items of THAT
CatchIt(E, sub0, wk) ==
  IF ~CopyOk(sub0) THEN ItR(<<>>, "NotImplementedError")
  ELSE LET fz == FreezeB(sub0) IN
  IF ~fz.ok THEN ItR(<<>>, fz.exc)
  ELSE LET sub == fz.obj IN
  IF wk THEN
    LET ks == KeysO(sub) IN
    IF ~ks.ok THEN ItR(<<>>, ks.exc)
    ELSE DeliverCatching([j \in 1..Len(ks.ks) |->
           LET r == Gs(sub, ks.ks[j])
           IN IF r.ok THEN OkV(PairV(ks.ks[j], r.v)) ELSE r], E)
  ELSE
    LET l == LenO(sub) IN
    IF ~l.ok THEN ItR(<<>>, l.exc)
    ELSE DeliverCatching([j \in 1..l.n |-> Gi(sub, j - 1)], E)

PrefetchIt(t, wk) ==
  IF t.w = 1 THEN
    \* single_thread_prefetch(input or CatchExceptionDataset(input)):
    \* [S4] original code ignores with_key; [S9] original worker has
    \* `except Exception`: a BaseException ends the stream silently
    LET wk2 == IF "S4" \in Unfixed THEN FALSE ELSE wk
        r   == IF t.cfe # "none" THEN CatchIt(t.cfe, t.sub, wk2) ELSE It(t.sub, wk2)
    IN IF "S9" \in Unfixed /\ r.exc \in BaseOnly THEN ItR(r.items, "none") ELSE r
  ELSE IF ~CopyOk(t.sub) THEN ItR(<<>>, "NotImplementedError")
  ELSE IF wk THEN ItR(<<>>, "NotImplementedError")      \* self.keys()
  \* input_dataset = self.input_dataset.copy(freeze=True); range(len(self.input_dataset))
  ELSE LET l == LenO(t.sub)
           fz == FreezeB(t.sub) IN
       IF ~fz.ok THEN ItR(<<>>, fz.exc)
       ELSE IF ~l.ok THEN ItR(<<>>, l.exc)
       ELSE LET rs == [j \in 1..l.n |-> Gi(fz.obj, j - 1)]
            IN IF t.cfe # "none" THEN DeliverCatching(rs, t.cfe)
               ELSE DeliverOutcomes(rs)

It(t, wk) ==
  CASE t.cl = "List" ->
         IF wk THEN ItR(<<>>, "_ItemsNotDefined") ELSE ItR(t.vals, "none")
    [] t.cl = "Dict" ->
         IF wk THEN ItR([j \in 1..Len(t.vals) |-> PairV(t.ks[j], t.vals[j])], "none")
         ELSE ItR(t.vals, "none")
    [] t.cl = "Map" ->
         LET r == It(t.sub, wk) IN
         IF t.par = 0 \/ r.exc = "none" THEN MapIt(r, t.fn, wk)
         \* lazy_parallel_map iterates its input in the consumer's thread and
         \* keeps `buffer_size` results queued: when the INPUT raises, the
         \* exception propagates at once and the queued results are lost
         ELSE LET lim == IF Len(r.items) > t.par THEN Len(r.items) - t.par ELSE 0
              IN MapIt(ItR(SubSeq(r.items, 1, lim), r.exc), t.fn, wk)
    [] t.cl = "Filter" ->
         LET r  == CutNonPairs(It(t.sub, wk), wk)
             ps == SelectIdx(r.items, LAMBDA x : Pred(t.p, ItemVal(x, wk)), 1)
         IN ItR([j \in 1..Len(ps) |-> r.items[ps[j]]], r.exc)
    [] t.cl = "Slice" ->
         IF wk THEN
           LET ks == KeysO(t.sub) IN
           IF ~ks.ok THEN ItR(<<>>, ks.exc)
           ELSE DeliverOutcomes([j \in 1..Len(t.sidx) |->
                  LET r == Gi(t.sub, t.sidx[j])
                  IN IF r.ok THEN OkV(PairV(ks.ks[t.sidx[j] + 1], r.v)) ELSE r])
         ELSE DeliverOutcomes([j \in 1..Len(t.sidx) |-> Gi(t.sub, t.sidx[j])])
    [] t.cl = "Concat" -> ConcatIt(t.subs, 1, wk)
    [] t.cl = "Inter"  -> InterIt(t, wk)
    [] t.cl = "Zip" -> IF wk THEN ItR(<<>>, "_ItemsNotDefined") ELSE ZipIt(t)
    [] t.cl = "KeyZip" ->
         LET ks == KeysO(t) IN
         IF ~ks.ok THEN ItR(<<>>, ks.exc)
         ELSE DeliverOutcomes([j \in 1..Len(ks.ks) |->
                LET r == Gs(t, ks.ks[j])
                IN IF wk /\ r.ok THEN OkV(PairV(ks.ks[j], r.v)) ELSE r])
    [] t.cl = "Items" ->
         IF wk THEN
           LET r == CutNonPairs(It(t, FALSE), TRUE)
           IN ItR([j \in 1..Len(r.items) |-> T(<<r.items[j].tp[1], r.items[j]>>)], r.exc)
         ELSE LET r == It(t.sub, TRUE)
              IN ItR(r.items, IF r.exc = "_ItemsNotDefined" THEN "ItemsNotDefined"
                              ELSE r.exc)
    [] t.cl = "Batch"   -> IF wk THEN ItR(<<>>, "_ItemsNotDefined") ELSE BatchIt(t)
    [] t.cl = "Unbatch" -> IF wk THEN ItR(<<>>, "_ItemsNotDefined") ELSE UnbatchIt(t)
    [] t.cl = "Catch"   -> CatchIt(t.E, t.sub, wk)
    [] t.cl = "Prefetch" -> PrefetchIt(t, wk)
    [] t.cl = "Cache" ->
         LET l == LenO(t) IN
         IF wk THEN
           LET ks == KeysO(t) IN
           IF ~ks.ok THEN ItR(<<>>, ks.exc)
           ELSE IF ~l.ok THEN ItR(<<>>, l.exc)
           ELSE DeliverOutcomes([j \in 1..l.n |->
                  LET r == Gi(t, j - 1)
                  IN IF r.ok THEN OkV(PairV(ks.ks[j], r.v)) ELSE r])
         ELSE IF ~l.ok THEN ItR(<<>>, l.exc)
         ELSE DeliverOutcomes([j \in 1..l.n |-> Gi(t, j - 1)])
    \* frozen = self.copy(freeze=True) = apply_function(input).copy(freeze=True);
    \* a generator: whatever the function or the copy refuses shows at the first next()
    [] t.cl = "Apply" ->
         LET b == BuildUnary(t.ag, t.sub) IN
         IF ~b.ok THEN ItR(<<>>, b.exc)
         ELSE LET f == FreezeB(b.obj) IN
              IF ~f.ok THEN ItR(<<>>, f.exc) ELSE It(f.obj, wk)
    [] t.cl = "Cycle" ->
         LET r == It(t.sub, wk)
             n == Len(r.items)
         IN IF r.exc # "none"
            THEN (IF n >= t.take THEN ItR(Take(r.items, t.take), "none") ELSE r)
            ELSE IF n = 0 THEN ItR(<<>>, "HANG")
            ELSE ItR([j \in 1..t.take |-> r.items[((j - 1) % n) + 1]], "none")
    [] OTHER -> ItR(<<>>, "NotImplementedError")

-----------------------------------------------------------------------------
(* Construction: the factory methods of Dataset, API program -> object     *)

BOk(obj) == [ok |-> TRUE,  obj |-> obj, exc |-> "none"]

\* copy(freeze=True): every class rebuilds itself around frozen copies of its
\* inputs - the same object for this model - except ApplyDataset, whose frozen
\* copy is the APPLIED dataset: apply_function(input).copy(freeze=True)
HasApply(t) ==
  LET RECURSIVE H(_)
      H(x) == CASE x.cl \in {"List", "Dict"} -> FALSE
                [] x.cl = "Apply" -> TRUE
                [] x.cl \in {"Concat", "Inter", "Zip", "KeyZip"} -> \E d \in 1..Len(x.subs) : H(x.subs[d])
                [] OTHER -> H(x.sub)
  IN H(t)
FreezeB(t) ==
  IF ~HasApply(t) THEN BOk(t)
  ELSE CASE t.cl = "Apply" ->
              LET b == BuildUnary(t.ag, t.sub) IN IF ~b.ok THEN b ELSE FreezeB(b.obj)
         [] t.cl \in {"Concat", "Inter", "Zip", "KeyZip"} ->
              LET bs == [d \in 1..Len(t.subs) |-> FreezeB(t.subs[d])]
                  p  == FirstPos(bs, LAMBDA b : ~b.ok)
              IN IF p # 0 THEN bs[p]
                 ELSE BOk([t EXCEPT !.subs = [d \in 1..Len(bs) |-> bs[d].obj]])
         [] OTHER -> LET b == FreezeB(t.sub) IN
                     IF ~b.ok THEN b ELSE BOk([t EXCEPT !.sub = b.obj])
BErr(c)  == [ok |-> FALSE, obj |-> OList(<<>>, FALSE), exc |-> c]

\* SliceDataset.__init__
MkSlice(form, sub) ==
  LET ix == Idx(sub) IN
  IF ix = "F" THEN BErr("RuntimeError")
  ELSE IF ix # "T" THEN BErr(ix)
  ELSE LET l == LenO(sub) IN
  IF ~l.ok THEN BErr(l.exc)
  ELSE LET n == l.n IN
  CASE form.fk = "sl" ->
         IF form.c = 0 THEN BErr("ValueError")
         ELSE BOk(OSlice(SliceIdx(n, form.a, form.b, form.c), sub))
    [] form.fk = "il" ->
         IF \E j \in 1..Len(form.idx) : PyPos(n, form.idx[j]) = 0
         THEN BErr("IndexError")
         ELSE BOk(OSlice([j \in 1..Len(form.idx) |-> PyPos(n, form.idx[j]) - 1], sub))
    [] form.fk = "bm" ->
         IF Len(form.mask) # n THEN BErr("IndexError")
         ELSE LET ps == SelectIdx(form.mask, LAMBDA m : m, 1)
              IN BOk(OSlice([j \in 1..Len(ps) |-> ps[j] - 1], sub))
    [] form.fk = "kl" ->
         IF form.kl = <<>> THEN BOk(OSlice(<<>>, sub))
         ELSE \* np.arange(n)[keys,] raises IndexError -> sequence of str
              LET ks == KeysO(sub) IN
              IF ~ks.ok THEN BErr(ks.exc)
              ELSE IF \E j \in 1..Len(form.kl) : ~InSeq(form.kl[j], ks.ks)
              THEN BErr("KeyError")
              ELSE BOk(OSlice([j \in 1..Len(form.kl) |->
                                 LastIndexOf(form.kl[j], ks.ks) - 1], sub))
    [] OTHER -> BErr("NotImplementedError")

\* Dataset.__getitem__(slice / tuple / list / ndarray): FilterDataset has
\* its own __getitem__ that asserts str
GetSlice(form, t) ==
  IF t.cl = "Filter" THEN BErr("AssertionError") ELSE MkSlice(form, t)

ILForm(idx, as) == [fk |-> "il", idx |-> idx, as |-> as]
KLForm(kl, as)  == [fk |-> "kl", kl |-> kl, as |-> as]

\* groupby: consecutive runs merged per id = all positions per id, ascending
GroupPositions(gids, sel) == SelectIdx(gids, LAMBDA g : g = sel, 1)

RECURSIVE Build(_)
BuildUnary(a, t) ==
  CASE a.op = "map"  -> BOk(OMap([nm |-> a.f], t))
    \* ParMapDataset(MapDataset): indexable / len / keys / __getitem__ inherited;
    \* __iter__ = lazy_parallel_map(fn, input or input.__iter__(with_key=True)):
    \* results in submission order (PoolMap.tla), so the same model object
    [] a.op = "pmap" -> IF a.w < 1 THEN BErr("AssertionError") ELSE BOk(OPMap([nm |-> a.f], t, a.bs))
    [] a.op = "fmap" -> BOk(OMap([nm |-> "fail", p |-> a.p, cls |-> a.cls], t))
    [] a.op = "filter" ->
         IF a.lazy THEN BOk(OFilter(a.p, t))
         ELSE LET ix == Idx(t) IN
              IF ix = "F" THEN BErr("RuntimeError")
              ELSE IF ix # "T" THEN BErr(ix)
              ELSE LET r == It(t, FALSE) IN
              IF r.exc # "none" THEN BErr(r.exc)
              ELSE LET ps == SelectIdx(r.items, LAMBDA x : Pred(a.p, x), 1)
                       l  == LenO(t)
                   IN IF ~l.ok THEN BErr(l.exc)
                      ELSE GetSlice(ILForm([j \in 1..Len(ps) |-> ps[j] - 1], "list"), t)
    [] a.op = "slice"   -> GetSlice(a.form, t)
    [] a.op = "batch"   -> BOk(OBatch(a.b, a.drop, t))
    [] a.op = "unbatch" -> BOk(OUnbatch(t))
    [] a.op = "items"   -> BOk(OItems(t))
    [] a.op = "tile"    ->
         IF a.reps = 1 THEN BOk(t)
         ELSE IF a.reps < 1 THEN BErr("TypeError")
         ELSE BOk(OConcat([j \in 1..a.reps |-> t]))
    [] a.op = "cycle"   -> BOk(OCycle(t, a.take))
    [] a.op = "shuffle" ->
         LET l == LenO(t) IN
         IF ~l.ok THEN BErr(l.exc)
         \* the harness' scripted rng refuses a permutation of the wrong length
         ELSE IF Len(a.perm) # l.n THEN BErr("AssertionError")
         ELSE GetSlice(ILForm(a.perm, "np"), t)
    [] a.op = "sort" ->
         IF a.key = "none" THEN
           LET ks == KeysO(t) IN
           IF ~ks.ok THEN
             BErr(IF ks.exc = "NotImplementedError" THEN "RuntimeError" ELSE ks.exc)
           \* [S10] original code: sort_fn(keys) - `reverse` is ignored
           ELSE LET rv == a.rev /\ "S10" \notin Unfixed
                    Less(x, y) == IF rv THEN StrLessBy(Sfn(a), y, x) ELSE StrLessBy(Sfn(a), x, y)
                    so == StableSort(ks.ks, Less)
                IN IF so = <<>> THEN GetSlice(ILForm(<<>>, "list"), t)
                   ELSE GetSlice(KLForm(so, "list"), t)
         ELSE
           LET r == It(OMap([nm |-> "key", kf |-> a.key], t), FALSE) IN
           IF r.exc # "none" THEN BErr(r.exc)
           ELSE LET prs == [j \in 1..Len(r.items) |-> <<r.items[j].n, j>>]
                    Lt(x, y) == IntLessBy(Sfn(a), x[1], y[1]) \/ (x[1] = y[1] /\ x[2] < y[2])
                    Less(x, y) == IF a.rev THEN Lt(y, x) ELSE Lt(x, y)
                    srt == StableSort(prs, Less)
                IN GetSlice(ILForm([j \in 1..Len(srt) |-> srt[j][2] - 1], "list"), t)
    [] a.op \in {"split", "shard"} ->
         IF a.sk < 1 THEN BErr("ValueError")
         ELSE LET l == LenO(t) IN
         IF ~l.ok THEN BErr(l.exc)
         ELSE IF a.sk > l.n THEN BErr("ValueError")
         ELSE LET probe == GetSlice(ILForm(SplitSection(l.n, a.sk, 1), "np"), t) IN
         IF ~probe.ok THEN probe      \* [self[s] for s in slices]
         ELSE IF PyPos(a.sk, a.si) = 0 THEN BErr("IndexError")
         ELSE GetSlice(ILForm(SplitSection(l.n, a.sk, PyPos(a.sk, a.si)), "np"), t)
    [] a.op = "cache" ->
         IF a.lazy THEN
           LET ix == Idx(t) IN
           IF ix = "T" THEN BOk(OCache(t))
           ELSE IF ix = "F" THEN BErr("AssertionError") ELSE BErr(ix)
         ELSE
           LET ix == Idx(t)
               od == IF ix = "F" THEN Ord(t) ELSE "T"
           IN IF ix \notin {"T", "F"} THEN BErr(ix)
              ELSE IF od = "F" THEN BErr("AssertionError")
              ELSE IF od # "T" THEN BErr(od)
              ELSE \* new(self) -> from_dataset
                LET r == It(OItems(t), FALSE) IN
                IF r.exc = "ItemsNotDefined" THEN
                  LET q == It(t, FALSE) IN
                  IF q.exc # "none" THEN BErr(q.exc) ELSE BOk(OList(q.items, FALSE))
                ELSE IF r.exc # "none" THEN BErr(r.exc)
                ELSE IF \E j \in 1..Len(r.items) :
                          ~IsPairV(r.items[j]) \/ r.items[j].tp[1].t # "s"
                THEN BErr("TypeError")     \* only while S4 is unfixed
                ELSE LET ks == [j \in 1..Len(r.items) |-> r.items[j].tp[1].s]
                         vs == [j \in 1..Len(r.items) |-> r.items[j].tp[2]]
                     IN IF NoDup(ks) THEN BOk(ODict(ks, vs)) ELSE BOk(OList(vs, FALSE))
    [] a.op = "catch" -> BOk(OCatch(a.E, t))
    [] a.op = "copy"  -> IF ~CopyOk(t) THEN BErr("NotImplementedError")
                         ELSE IF a.freeze THEN FreezeB(t) ELSE BOk(t)
    [] a.op = "apply" -> IF a.lazy THEN BOk(OApply(a.ag, t)) ELSE BuildUnary(a.ag, t)
    [] a.op = "prefetch" ->
         LET l == LenO(t) IN
         IF a.w # 1 /\ ~l.ok THEN BErr("RuntimeError")
         ELSE IF a.w < 1 \/ a.bs < a.w THEN BErr("AssertionError")
         ELSE BOk(OPrefetch(a.w, a.bs, a.cfe, t))
    [] a.op = "group" ->
         LET r == It(OMap([nm |-> "key", kf |-> a.g], t), FALSE) IN
         IF r.exc # "none" THEN BErr(r.exc)
         ELSE LET gids == [j \in 1..Len(r.items) |-> r.items[j].n]
                  probe == IF gids = <<>> THEN BOk(t)
                           ELSE GetSlice(ILForm(
                                  [j \in 1..Len(GroupPositions(gids, gids[1])) |->
                                     GroupPositions(gids, gids[1])[j] - 1], "list"), t)
              IN IF ~probe.ok THEN probe
                 ELSE IF ~InSeq(a.sel, gids) THEN BErr("KeyError")
                 ELSE LET ps == GroupPositions(gids, a.sel)
                      IN GetSlice(ILForm([j \in 1..Len(ps) |-> ps[j] - 1], "list"), t)
    [] OTHER -> BErr("NotImplementedError")

BuildBinary(a, ta, tb) ==
  CASE a.op = "concat" -> BOk(OConcat(<<ta, tb>>))
    [] a.op = "intersperse" ->
         LET la == LenO(ta)
             lb == LenO(tb)
         IN IF ~la.ok THEN BErr(la.exc)
            ELSE IF ~lb.ok THEN BErr(lb.exc)
            ELSE IF la.n = 0 \/ lb.n = 0 THEN BErr("AssertionError")
            ELSE BOk(OInter(<<ta, tb>>, InterOrder(<<la.n, lb.n>>)))
    [] a.op = "zip" ->
         LET la == LenO(ta)
             lb == LenO(tb)
         IN IF ~la.ok THEN BErr(la.exc)
            ELSE IF ~lb.ok THEN BErr(lb.exc)
            ELSE IF la.n # lb.n THEN BErr("AssertionError")
            ELSE BOk(OZip(<<ta, tb>>))
    [] a.op = "keyzip" ->
         LET ka == KeysO(ta)
             kb == KeysO(tb)
         IN IF ~ka.ok THEN BErr(ka.exc)
            ELSE IF ~kb.ok THEN BErr(kb.exc)
            ELSE IF {ka.ks[j] : j \in 1..Len(ka.ks)} # {kb.ks[j] : j \in 1..Len(kb.ks)}
            THEN BErr("AssertionError")
            ELSE BOk(OKeyZip(<<ta, tb>>))
    [] OTHER -> BErr("NotImplementedError")

Build(a) ==
  CASE a.op = "list" ->
         BOk(OList([j \in 1..Len(a.src) |-> Payload(a.pl, a.src[j])], a.iw = "wu"))
    [] a.op = "dict" ->
         BOk(ODict(a.ks, [j \in 1..Len(a.src) |-> Payload(a.pl, a.src[j])]))
    [] a.op \in {"concat", "intersperse", "zip", "keyzip"} ->
         LET ba == Build(a.in)
             bb == Build(a.in2)
         IN IF ~ba.ok THEN ba ELSE IF ~bb.ok THEN bb
            ELSE BuildBinary(a, ba.obj, bb.obj)
    [] OTHER ->
         LET bi == Build(a.in) IN
         IF ~bi.ok THEN bi ELSE BuildUnary(a, bi.obj)
=============================================================================
