--------------------------------- MODULE Laws ---------------------------------
(***************************************************************************)
(* C16  ALGEBRAIC LAWS of the combinators.                                 *)
(*                                                                         *)
(* A law takes a program t (every program Pipeline.tla enumerates) and     *)
(* parameters and produces two structurally different programs that denote *)
(* the same computation.  LawInstances(t) lists them.  For every instance  *)
(* TLC checks AT DESIGN LEVEL that the law is correctly stated (the two    *)
(* references are equal - otherwise a mis-stated law would become a false  *)
(* alarm) and that the implementation-shaped model satisfies it; the       *)
(* harness executes both sides on the real library and TLC judges the two  *)
(* REAL observations (LawsTrace.tla): an oracle independent of Ref.        *)
(*                                                                         *)
(*  L1  t.batch(b).unbatch()            ~  t                 (iteration)   *)
(*  L2  concatenate(t.split(k))         ~  t                               *)
(*  L3  t[s1][s2]                       ~  t[s1 o s2]  (list-slice compose)*)
(*  L4  map distributes over slicing, one-time shuffle, concatenation,     *)
(*      caching, batching (batch_map) and order-preserving sort            *)
(*  L5  t.map(f).map(g)                 ~  t.map(g o f)                    *)
(*  L6  lazy filter ~ eager filter ~ raising FilterException under catch;  *)
(*      filter commutes with an order-preserving selection                 *)
(*  L7  t.tile(r)                       ~  r-fold concatenation            *)
(***************************************************************************)
EXTENDS Pipeline

Un(desc, a) == Apply(desc, a)
Cat(a, b) == Apply2([op |-> "concat"], a, b)
RECURSIVE CatAll(_)
CatAll(ts) == IF Len(ts) = 1 THEN ts[1] ELSE Cat(CatAll(SubSeq(ts, 1, Len(ts) - 1)), ts[Len(ts)])
Inst(law, lhs, rhs, level) == [law |-> law, lhs |-> lhs, rhs |-> rhs, level |-> level]

MapInc == [op |-> "map", f |-> "inc"]
\* composition of two list slices over a dataset of length n, as index list
ComposeIdx(n, s1, s2) ==
  LET i1 == SliceIdx(n, s1.a, s1.b, s1.c)
      i2 == SliceIdx(Len(i1), s2.a, s2.b, s2.c)
  IN [j \in 1..Len(i2) |-> i1[i2[j] + 1]]

SomeSlices == <<[a |-> 1, b |-> NONE, c |-> NONE], [a |-> NONE, b |-> NONE, c |-> 0 - 1],
                [a |-> NONE, b |-> 0 - 1, c |-> 2], [a |-> 0 - 2, b |-> NONE, c |-> NONE],
                [a |-> 0, b |-> 2, c |-> 1]>>
SLd(s) == SL(s.a, s.b, s.c)

LawInstances(t, m) ==
  LET n == NOf(m)
      sized == m.build = "ok" /\ m.len.ok
      idx == m.build = "ok" /\ m.idx = "T"
  IN
  \* L1
  [b \in 1..3 |-> Inst("L1-batch-unbatch", Un([op |-> "unbatch"], Un([op |-> "batch", b |-> b, drop |-> FALSE], t)), t, "iter")]
  \* L2
  \o (IF sized /\ idx THEN
        [k \in 1..n |-> Inst("L2-concat-split",
              CatAll([i \in 1..k |-> Un([op |-> "split", sk |-> k, si |-> i - 1], t)]), t, "full")]
      ELSE <<>>)
  \* L3
  \o (IF sized /\ idx THEN
        FlatSeq([x \in 1..Len(SomeSlices) |-> [y \in 1..Len(SomeSlices) |->
           Inst("L3-slice-of-slice", Un(SLd(SomeSlices[y]), Un(SLd(SomeSlices[x]), t)),
                Un(IL(ComposeIdx(n, SomeSlices[x], SomeSlices[y]), "list"), t), "full")]])
      ELSE <<>>)
  \* L4
  \o (IF sized /\ idx THEN
        [x \in 1..Len(SomeSlices) |->
           Inst("L4-map-slice", Un(SLd(SomeSlices[x]), Un(MapInc, t)), Un(MapInc, Un(SLd(SomeSlices[x]), t)), "full")]
        \o (IF n <= 3 THEN LET ps == SetToSeq(PermsOf(n)) IN
              [j \in 1..Len(ps) |-> Inst("L4-map-shuffle",
                  Un([op |-> "shuffle", perm |-> ps[j]], Un(MapInc, t)),
                  Un(MapInc, Un([op |-> "shuffle", perm |-> ps[j]], t)), "full")]
            ELSE <<>>)
        \o <<Inst("L4-map-cache", Un([op |-> "cache", lazy |-> TRUE], Un(MapInc, t)),
                  Un(MapInc, Un([op |-> "cache", lazy |-> TRUE], t)), "full"),
             Inst("L4-map-sort", Un([op |-> "sort", key |-> "id", rev |-> FALSE], Un(MapInc, t)),
                  Un(MapInc, Un([op |-> "sort", key |-> "id", rev |-> FALSE], t)), "full"),
             Inst("L4-map-sort-rev", Un([op |-> "sort", key |-> "id", rev |-> TRUE], Un(MapInc, t)),
                  Un(MapInc, Un([op |-> "sort", key |-> "id", rev |-> TRUE], t)), "full")>>
      ELSE <<>>)
  \o <<Inst("L4-map-concat", Un(MapInc, Cat(t, DictPQ)), Cat(Un(MapInc, t), Un(MapInc, DictPQ)), "full"),
       Inst("L4-map-concat-self", Un(MapInc, Cat(t, t)), Cat(Un(MapInc, t), Un(MapInc, t)), "full"),
       Inst("L4-map-batch", Un([op |-> "batch", b |-> 2, drop |-> FALSE], Un(MapInc, t)),
            Un([op |-> "map", f |-> "bmap_inc"], Un([op |-> "batch", b |-> 2, drop |-> FALSE], t)), "full"),
       Inst("L4-map-batch-drop", Un([op |-> "batch", b |-> 3, drop |-> TRUE], Un(MapInc, t)),
            Un([op |-> "map", f |-> "bmap_inc"], Un([op |-> "batch", b |-> 3, drop |-> TRUE], t)), "full"),
  \* L5
       Inst("L5-map-map", Un(MapInc, Un(MapInc, t)), Un([op |-> "map", f |-> "incinc"], t), "full"),
       Inst("L5-map-map-wrap", Un([op |-> "map", f |-> "wrap"], Un(MapInc, t)),
            Un([op |-> "map", f |-> "incwrap"], t), "full")>>
  \* L6
  \o FlatSeq([q \in 1..3 |->
       LET p == <<P("even"), P("gt1"), P("never")>>[q] IN
       <<Inst("L6-lazy-eager-filter", Un([op |-> "filter", p |-> p, lazy |-> TRUE], t),
              Un([op |-> "filter", p |-> p, lazy |-> FALSE], t), "iter"),
         Inst("L6-filter-vs-catch", Un([op |-> "filter", p |-> p, lazy |-> TRUE], t),
              Un([op |-> "catch", E |-> "Filter"],
                 Un([op |-> "fmap", p |-> NegPred(p), cls |-> "FilterException"], t)), "iter")>>
       \o (IF sized /\ idx THEN
             <<Inst("L6-filter-selection", Un([op |-> "filter", p |-> p, lazy |-> TRUE], Un(SL(1, NONE, NONE), t)),
                    Un(SL(IF Len(m.it1.items) >= 1 /\ Pred(p, m.it1.items[1]) THEN 1 ELSE 0, NONE, NONE),
                       Un([op |-> "filter", p |-> p, lazy |-> FALSE], t)), "iter")>>
           ELSE <<>>)])
  \* L7
  \o [r \in 1..2 |-> Inst("L7-tile", Un([op |-> "tile", reps |-> r + 1], t),
                            CatAll([i \in 1..(r + 1) |-> t]), "full")]

-----------------------------------------------------------------------------
(* Verdict: observational equality of the two sides                        *)
EqIter(x, y) == x.items = y.items /\ NormExc(x.exc) = NormExc(y.exc)
EqOut(x, y) == x.ok = y.ok /\ (x.ok => x.v = y.v) /\ (~x.ok => NormExc(x.exc) = NormExc(y.exc))

V_C16(level, ol, or) ==
  IF ol.build # "ok" /\ or.build # "ok" THEN VTriv("both-sides-refused")
  ELSE IF ol.build # "ok" \/ or.build # "ok" THEN VViol("one-side-refused")
  ELSE IF Refusal(ol.it1) /\ Refusal(or.it1) THEN VTriv("both-iterations-refused")
  ELSE IF ~EqIter(ol.it1, or.it1) THEN VViol("iteration-differs")
  ELSE IF ol.it2 # ol.it1 \/ or.it2 # or.it1 THEN VViol("second-iteration-differs")
  ELSE IF level = "iter" THEN VOk
  \* level "index": + indexable, len, ds[i] for all i;  "full": + keys, items, ds[k]
  ELSE IF ol.idx # or.idx THEN VViol("indexable-differs")
  ELSE IF ol.len.ok # or.len.ok \/ ol.len.n # or.len.n THEN VViol("len-differs")
  ELSE IF Len(ol.gi) # Len(or.gi) \/ \E j \in 1..Len(ol.gi) : ~EqOut(ol.gi[j].r, or.gi[j].r)
       THEN VViol("integer-indexing-differs")
  ELSE IF level = "index" THEN VOk
  ELSE IF ol.keys.ok # or.keys.ok \/ ol.keys.ks # or.keys.ks THEN VViol("keys-differ")
  ELSE IF ~EqIter(ol.itk, or.itk) THEN VViol("items-differ")
  ELSE IF \E j \in 1..Len(ol.gs) : ~EqOut(ol.gs[j].r, or.gs[j].r) THEN VViol("key-lookup-differs")
  ELSE VOk

\* is the instance a proper instance (both references defined and equal)?
RefEq(x, y) ==
  /\ x.refuse = "none" /\ y.refuse = "none"
  /\ Deliver(x) = Deliver(y)
ProperInstance(i) == RefEq(Ref(i.lhs), Ref(i.rhs))

\* The level at which an instance is compared is the strongest one at which
\* the implementation-shaped MODEL satisfies the law: the two sides of a law
\* denote the same examples, but their capabilities may legitimately differ
\* (keys() of a concatenation asserts uniqueness, keys() of a selection with
\* repeated indices does not; an eager filter needs an indexable input).
\* An instance one side of which the model refuses is not an instance.
ModelLevel(i) ==
  LET ml == ModelObs(i.lhs)
      mr == ModelObs(i.rhs)
  IN IF ml.build # "ok" \/ mr.build # "ok" \/ Refusal(ml.it1) \/ Refusal(mr.it1) THEN "none"
     ELSE IF i.level = "full" /\ V_C16("full", ml, mr)[1] = "ok" THEN "full"
     ELSE IF i.level # "iter" /\ V_C16("index", ml, mr)[1] = "ok" THEN "index"
     ELSE "iter"

\* always-true invariant: emits the proper instances of every law for `prog`
\* together with the model's verdict on them
EmitLaws ==
  LET m == MO
      \* (cycle() is only ever the outermost operation of a program)
      is == IF prog.op = "cycle" THEN <<>> ELSE LawInstances(prog, m)
  IN \A j \in 1..Len(is) :
       LET lv == IF ProperInstance(is[j]) THEN ModelLevel(is[j]) ELSE "none" IN
       lv # "none" =>
         PrintT(<<"VEC", ToJson([law |-> is[j].law, level |-> lv,
                                 lhs |-> is[j].lhs, rhs |-> is[j].rhs,
                                 mv |-> V_C16(lv, ModelObs(is[j].lhs), ModelObs(is[j].rhs))])>>)
=============================================================================
