------------------------------ MODULE STPCount ------------------------------
(***************************************************************************)
(* COUNTING ABSTRACTION of SingleThreadPrefetch.tla, for an UNBOUNDED      *)
(* source and an ARBITRARY buffer size.                                    *)
(*                                                                         *)
(* Same program counters, same actions, but                                *)
(*   - the queue is two counters (examples in it, sentinel in it),         *)
(*   - the source may end or raise at ANY pull (nondeterministic), so the  *)
(*     dataset length does not occur,                                      *)
(*   - the consumer may stop (close / throw) after ANY example.            *)
(* Two things are done with it:                                            *)
(*   1. TLC checks that SingleThreadPrefetch.tla IMPLEMENTS this module    *)
(*      under the refinement mapping  pos <- st.pos, nd <- Len(delivered), *)
(*      qn <- examples in st.q, ...  (PROPERTY CountSpec in the            *)
(*      model-checking configuration of SingleThreadPrefetch.tla), for     *)
(*      the small constants of that configuration;                         *)
(*   2. Apalache proves IndInv inductive (Init => IndInv at length 0,      *)
(*      IndInv /\ Next => IndInv' at length 1) and IndInv => ReadAhead,    *)
(*      with pos, nd, qn and buf UNBOUNDED integers: property C07's bound  *)
(*      pulled - delivered <= buffer + 2 then holds for every dataset      *)
(*      length and every buffer size, not only the ones TLC enumerates.    *)
(* TLC also explores the module itself (bounded) and must REFUTE the bound *)
(* buffer + 1 (vacuity guard).                                             *)
(***************************************************************************)
EXTENDS Integers

VARIABLES
  \* @type: Int;
  buf,        \* buffer_size (>= 1), constant along a behaviour
  \* @type: Int;
  pos,        \* examples pulled from the source
  \* @type: Int;
  nd,         \* examples handed to the user
  \* @type: Int;
  qn,         \* examples in the queue
  \* @type: Bool;
  sent,       \* the end sentinel is in the queue
  \* @type: Bool;
  sd,         \* the shutdown flag
  \* @type: Str;
  wpc,
  \* @type: Str;
  cpc

vars == <<buf, pos, nd, qn, sent, sd, wpc, cpc>>

WPC == {"w_none", "w_begin", "w_chk0", "w_pull", "w_chkA", "w_put", "w_chkB", "w_wrexc",
        "w_fin", "w_putend", "w_exit", "w_done"}
CPC == {"c_closed0", "c_start", "c_get", "c_yield", "c_wrsd", "c_drain", "c_join",
        "c_rdexc", "c_raise", "c_done"}

QLen == qn + (IF sent THEN 1 ELSE 0)
HW == IF wpc \in {"w_chkA", "w_put"} THEN 1 ELSE 0       \* example in the worker's hand
HC == IF cpc = "c_yield" THEN 1 ELSE 0                    \* example in the consumer's hand

Init ==
  /\ buf \in Nat \ {0}
  /\ pos = 0 /\ nd = 0 /\ qn = 0 /\ sent = FALSE /\ sd = FALSE
  /\ wpc = "w_none"
  /\ cpc \in {"c_start", "c_closed0"}

\* ---- worker ---------------------------------------------------------------
WBegin == wpc = "w_begin" /\ wpc' = "w_chk0" /\ UNCHANGED <<buf, pos, nd, qn, sent, sd, cpc>>
WChk0  == wpc = "w_chk0" /\ wpc' = (IF sd THEN "w_exit" ELSE "w_pull")
          /\ UNCHANGED <<buf, pos, nd, qn, sent, sd, cpc>>
WPull  == /\ wpc = "w_pull"
          /\ \/ wpc' = "w_chkA" /\ pos' = pos + 1          \* the source yields
             \/ wpc' = "w_fin" /\ pos' = pos               \* ... ends / raises a BaseException
             \/ wpc' = "w_wrexc" /\ pos' = pos             \* ... raises
          /\ UNCHANGED <<buf, nd, qn, sent, sd, cpc>>
WChkA  == wpc = "w_chkA" /\ wpc' = (IF sd THEN "w_fin" ELSE "w_put")
          /\ UNCHANGED <<buf, pos, nd, qn, sent, sd, cpc>>
WPut   == wpc = "w_put" /\ QLen < buf /\ qn' = qn + 1 /\ wpc' = "w_chkB"
          /\ UNCHANGED <<buf, pos, nd, sent, sd, cpc>>
WChkB  == wpc = "w_chkB" /\ wpc' = (IF sd THEN "w_fin" ELSE "w_pull")
          /\ UNCHANGED <<buf, pos, nd, qn, sent, sd, cpc>>
WWrExc == wpc = "w_wrexc" /\ wpc' = "w_fin" /\ UNCHANGED <<buf, pos, nd, qn, sent, sd, cpc>>
WFin   == wpc = "w_fin" /\ wpc' = (IF sd THEN "w_exit" ELSE "w_putend")
          /\ UNCHANGED <<buf, pos, nd, qn, sent, sd, cpc>>
WPutEnd == wpc = "w_putend" /\ QLen < buf /\ sent' = TRUE /\ wpc' = "w_exit"
          /\ UNCHANGED <<buf, pos, nd, qn, sd, cpc>>
WExit  == wpc = "w_exit" /\ wpc' = "w_done" /\ UNCHANGED <<buf, pos, nd, qn, sent, sd, cpc>>

\* ---- consumer -------------------------------------------------------------
CClosed0 == cpc = "c_closed0" /\ cpc' = "c_done" /\ UNCHANGED <<buf, pos, nd, qn, sent, sd, wpc>>
CStart == cpc = "c_start" /\ cpc' = "c_get" /\ wpc' = "w_begin"
          /\ UNCHANGED <<buf, pos, nd, qn, sent, sd>>
\* FIFO: the sentinel is put last, so it comes out only when no example is left
CGet   == /\ cpc = "c_get" /\ QLen > 0
          /\ IF qn > 0 THEN qn' = qn - 1 /\ sent' = sent /\ cpc' = "c_yield"
             ELSE qn' = qn /\ sent' = FALSE /\ cpc' = "c_wrsd"
          /\ UNCHANGED <<buf, pos, nd, sd, wpc>>
CYield == cpc = "c_yield" /\ nd' = nd + 1
          /\ cpc' \in {"c_get", "c_wrsd"}                   \* go on / close or throw here
          /\ UNCHANGED <<buf, pos, qn, sent, sd, wpc>>
CWrSd  == cpc = "c_wrsd" /\ sd' = TRUE /\ cpc' = "c_drain"
          /\ UNCHANGED <<buf, pos, nd, qn, sent, wpc>>
CDrain == /\ cpc = "c_drain"
          /\ IF QLen = 0 THEN cpc' = "c_join" /\ qn' = qn /\ sent' = sent
             ELSE IF qn > 0 THEN qn' = qn - 1 /\ sent' = sent /\ cpc' = cpc
             ELSE qn' = qn /\ sent' = FALSE /\ cpc' = cpc
          /\ UNCHANGED <<buf, pos, nd, sd, wpc>>
CJoin  == cpc = "c_join" /\ wpc = "w_done" /\ cpc' \in {"c_rdexc", "c_done"}
          /\ UNCHANGED <<buf, pos, nd, qn, sent, sd, wpc>>
CRdExc == cpc = "c_rdexc" /\ cpc' \in {"c_done", "c_raise"}
          /\ UNCHANGED <<buf, pos, nd, qn, sent, sd, wpc>>
CRaise == cpc = "c_raise" /\ cpc' = "c_done"
          /\ UNCHANGED <<buf, pos, nd, qn, sent, sd, wpc>>

Next == \/ WBegin \/ WChk0 \/ WPull \/ WChkA \/ WPut \/ WChkB \/ WWrExc \/ WFin \/ WPutEnd \/ WExit
        \/ CClosed0 \/ CStart \/ CGet \/ CYield \/ CWrSd \/ CDrain \/ CJoin \/ CRdExc \/ CRaise

Spec == Init /\ [][Next]_vars

-----------------------------------------------------------------------------
\* C07: read-ahead bound in every state, for every buffer size and source
ReadAhead == pos - nd <= buf + 2
\* must be refuted (the bound is tight)
TightBound == pos - nd <= buf + 1

TypeOK ==
  /\ buf \in Nat \ {0} /\ pos \in Nat /\ nd \in Nat /\ qn \in Nat
  /\ sent \in BOOLEAN /\ sd \in BOOLEAN /\ wpc \in WPC /\ cpc \in CPC

\* the worker will not pull again
NoMorePulls == wpc \in {"w_wrexc", "w_fin", "w_putend", "w_exit", "w_done"}

IndInv ==
  /\ TypeOK
  /\ QLen <= buf
  \* the sentinel is put by a worker that stops, after its last example
  /\ sent => wpc \in {"w_exit", "w_done"}
  \* before the consumer started nothing has happened
  /\ cpc \in {"c_start", "c_closed0"} => (wpc = "w_none" /\ pos = 0 /\ nd = 0 /\ QLen = 0 /\ ~sd)
  /\ wpc = "w_none" => cpc \in {"c_start", "c_closed0", "c_done"}
  /\ (cpc = "c_done" /\ wpc = "w_none") => (pos = 0 /\ nd = 0 /\ ~sd)
  \* the flag is written exactly between c_wrsd and c_drain
  /\ sd <=> (cpc \in {"c_drain", "c_join", "c_rdexc", "c_raise"} \/ (cpc = "c_done" /\ wpc # "w_none"))
  \* conservation while nothing is discarded: every pulled example is in
  \* exactly one place
  /\ ~sd => pos - nd = HC + qn + HW
  \* after shutdown: delivered is frozen, the queue is drained, and the
  \* worker can pull at most once more (only if it stands at w_pull, having
  \* read the flag before it was written)
  /\ sd => pos - nd + (IF wpc = "w_pull" THEN 1 ELSE 0) <= buf + 1

\* Apalache: the inductive step starts from an arbitrary state satisfying IndInv
IndInit == IndInv
=============================================================================
