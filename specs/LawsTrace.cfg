CONSTANTS
  MaxLen = 0
  Depth = 0
  Family = "core"
  RichBudget = 0
  BigLen = 0
  SliceGrid <- GridS
SPECIFICATION TSpec
INVARIANT Judge
CHECK_DEADLOCK FALSE
