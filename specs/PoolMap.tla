------------------------------- MODULE PoolMap -------------------------------
(***************************************************************************)
(* lazy_dataset.parallel_utils.lazy_parallel_map with the thread back end, *)
(* one action per scheduling point of the real code:                       *)
(*                                                                         *)
(*   with PoolExecutor(max_workers) as executor:                           *)
(*     try:                                                                *)
(*       for ele in generator:                         pull                *)
(*           if q.qsize() >= buffer_size:                                  *)
(*               yield result(q.get())                 result, yield       *)
(*           q.put(submit(executor, function, ele))    submit (, start)    *)
(*       while not q.empty():                                              *)
(*           yield result(q.get())                     result, yield       *)
(*     except GeneratorExit:                                               *)
(*       terminate(executor, q)                        cancel ...          *)
(*       raise                                                             *)
(*   (leaving the `with` block)                        exec_exit, join ... *)
(*                                                                         *)
(* The executor is the stdlib ThreadPoolExecutor as harness/detsched.py    *)
(* models it: FIFO work queue, at most max_workers threads T1..Tw, each    *)
(* looping  take -> (skip a cancelled future | call, ret, done);           *)
(* cancel() succeeds only on a pending future; leaving the `with` block is *)
(* shutdown(wait=True): queued work still runs, then the threads exit.     *)
(* q (the FIFO of futures) is private to the generator's thread.           *)
(*                                                                         *)
(* Same structure as SingleThreadPrefetch.tla: one state record, actions   *)
(* as a function Do(thread, state) with Enabled, log-producing, so that    *)
(* TLC explores all interleavings / completion orders and the same         *)
(* definitions replay recorded event logs of the real threads.             *)
(***************************************************************************)
EXTENDS PrefetchAbs, Defects, Json

CONSTANTS MaxN, Bufs, Workers, KeepLog

Ev(th, op, a, b) == [th |-> th, op |-> op, a |-> a, b |-> b]
TName(k) == CASE k = 1 -> "T1" [] k = 2 -> "T2" [] k = 3 -> "T3" [] OTHER -> "T4"
TIndex(th) == CASE th = "T1" -> 1 [] th = "T2" -> 2 [] th = "T3" -> 3 [] OTHER -> 4

Fut(st, item, ok) == [fs |-> st, item |-> item, ok |-> ok]   \* fs: "P" "R" "F" "X"

InitState(cfg) ==
  [cfg |-> cfg,
   cpc |-> IF cfg.stop = "close" /\ cfg.stop_k = 0 THEN "c_closed0" ELSE "c_pull",
   pos |-> 0, dead |-> FALSE, cur |-> 0,
   qf |-> <<>>, fut |-> <<>>, work |-> <<>>, shut |-> FALSE,
   tpc |-> <<>>, tfid |-> <<>>, joink |-> 1,
   rfid |-> 0, got |-> 0, phase |-> "loop", mode |-> "iter", end |-> "running",
   delivered |-> <<>>, started |-> 0, pendAtStop |-> {},
   mv |-> "-", log |-> <<>>]

NThr(s) == Len(s.tpc)
ThreadsOf(s) == {"C"} \cup {TName(k) : k \in 1..NThr(s)}
TFinished(s, k) == s.tpc[k] = "t_finished"

Lg(s, th, evs) == [s EXCEPT !.mv = th, !.log = IF KeepLog THEN s.log \o evs ELSE s.log]

FnFails(s, item) == \E j \in 1..Len(s.cfg.fn_fail) : s.cfg.fn_fail[j] = item

Enabled(th, s) ==
  IF th = "C" THEN
    CASE s.cpc = "c_result" -> s.fut[s.rfid].fs \in {"F", "X"}
      [] s.cpc = "c_join"   -> TFinished(s, s.joink)
      [] s.cpc = "c_done"   -> FALSE
      [] OTHER -> TRUE
  ELSE LET k == TIndex(th) IN
    /\ k <= NThr(s)
    /\ CASE s.tpc[k] = "t_finished" -> FALSE
         [] s.tpc[k] = "t_take" -> s.work # <<>> \/ s.shut
         [] OTHER -> TRUE

\* leave the generator body with an exception / normally: the `with` block
BeginExit(s, mode) == [s EXCEPT !.cpc = "c_execexit", !.mode = mode]
Back(s, end) == [s EXCEPT !.cpc = "c_done", !.end = end]
\* `while not q.empty(): yield result(q.get())` - q is private, not a
\* scheduling point: folded into the step that reaches it
Flush(s) == IF s.qf = <<>> THEN BeginExit([s EXCEPT !.phase = "flush"], "returned")
            ELSE [s EXCEPT !.phase = "flush", !.cpc = "c_result", !.rfid = Head(s.qf), !.qf = Tail(s.qf)]
\* terminate(): `while True: q.get(block=False).cancel()` until queue.Empty
CancelNext(s) == IF s.qf = <<>> THEN BeginExit(s, "closed") ELSE [s EXCEPT !.cpc = "c_cancel"]
BackEv == Ev("C", "back", 0 - 1, 0 - 1)

AfterYield(s) ==
  LET item == s.got
      got  == Len(s.delivered) + 1
      stop == s.cfg.stop \in {"close", "throw"} /\ got = s.cfg.stop_k
      s1   == [s EXCEPT !.delivered = Append(s.delivered, item)]
      pend == {f \in 1..Len(s.fut) : s.fut[f].fs = "P"}
  IN IF stop /\ s.cfg.stop = "close"
     THEN Lg(CancelNext([s1 EXCEPT !.mode = "closed", !.pendAtStop = pend]), "C",
             <<Ev("C", "yield", item, 0 - 1), Ev("C", "close", 0 - 1, 0 - 1)>>)
     ELSE IF stop
     \* an exception thrown INTO the generator is not GeneratorExit: nothing
     \* is cancelled, the pool runs what was queued (not C05's "stops early")
     THEN Lg(BeginExit(s1, "thrown"), "C",
             <<Ev("C", "yield", item, 0 - 1), Ev("C", "throw", 0 - 1, 0 - 1)>>)
     ELSE Lg(IF s.phase = "loop" THEN [s1 EXCEPT !.cpc = "c_submit"] ELSE Flush(s1), "C",
             <<Ev("C", "yield", item, 0 - 1)>>)

DoC(s) ==
  CASE s.cpc = "c_closed0" -> Lg(Back(s, "closed"), "C", <<BackEv>>)
    [] s.cpc = "c_pull" ->
         IF s.dead \/ (s.pos >= s.cfg.n /\ ~(s.cfg.fail_cls # "none" /\ s.pos = s.cfg.fail_at))
         THEN Lg(Flush([s EXCEPT !.dead = TRUE]), "C", <<Ev("C", "pull", END, 0 - 1)>>)
         ELSE IF s.cfg.fail_cls # "none" /\ s.pos = s.cfg.fail_at
         \* the source is iterated by the generator's own thread: its failure
         \* propagates at once (results already computed are not delivered)
         THEN Lg(BeginExit([s EXCEPT !.dead = TRUE], "raised_" \o s.cfg.fail_cls), "C",
                 <<Ev("C", "pull", RAISE, 0 - 1)>>)
         ELSE Lg([s EXCEPT !.pos = s.pos + 1, !.cur = s.pos + 1,
                           !.cpc = IF Len(s.qf) >= s.cfg.buf THEN "c_result" ELSE "c_submit",
                           !.rfid = IF Len(s.qf) >= s.cfg.buf THEN Head(s.qf) ELSE 0,
                           !.qf = IF Len(s.qf) >= s.cfg.buf THEN Tail(s.qf) ELSE s.qf,
                           !.phase = "loop"], "C",
                 <<Ev("C", "pull", s.pos + 1, 0 - 1)>>)
    [] s.cpc = "c_result" ->
         LET f == s.fut[s.rfid] IN
         IF f.fs = "F" /\ f.ok
         THEN Lg([s EXCEPT !.got = f.item, !.cpc = "c_yield"], "C", <<Ev("C", "result", s.rfid, 1)>>)
         ELSE Lg(BeginExit(s, "raised_fn"), "C", <<Ev("C", "result", s.rfid, 0)>>)
    [] s.cpc = "c_yield" -> AfterYield(s)
    [] s.cpc = "c_submit" ->
         LET fid == Len(s.fut) + 1
             spawn == NThr(s) < s.cfg.w
         IN Lg([s EXCEPT !.fut = Append(s.fut, Fut("P", s.cur, TRUE)),
                         !.work = Append(s.work, fid), !.qf = Append(s.qf, fid),
                         !.cpc = IF spawn THEN "c_start" ELSE "c_pull"], "C",
               <<Ev("C", "submit", fid, Len(s.work) + 1)>>)
    [] s.cpc = "c_start" ->
         Lg([s EXCEPT !.tpc = Append(s.tpc, "t_begin"), !.tfid = Append(s.tfid, 0),
                      !.cpc = "c_pull"], "C", <<Ev("C", "start", 0 - 1, 0 - 1)>>)
    [] s.cpc = "c_cancel" ->
         LET fid == Head(s.qf)
             ok  == s.fut[fid].fs = "P"
         IN Lg(CancelNext([s EXCEPT !.qf = Tail(s.qf),
                                    !.fut[fid].fs = IF ok THEN "X" ELSE s.fut[fid].fs]), "C",
               <<Ev("C", "cancel", fid, IF ok THEN 1 ELSE 0)>>)
    [] s.cpc = "c_execexit" ->
         LET s1 == [s EXCEPT !.shut = TRUE, !.joink = 1] IN
         IF NThr(s) = 0
         THEN Lg(Back(s1, s.mode), "C", <<Ev("C", "exec_exit", 0 - 1, 0 - 1), BackEv>>)
         ELSE Lg([s1 EXCEPT !.cpc = "c_join"], "C", <<Ev("C", "exec_exit", 0 - 1, 0 - 1)>>)
    [] s.cpc = "c_join" ->
         IF s.joink >= NThr(s)
         THEN Lg(Back(s, s.mode), "C", <<Ev("C", "join", 0 - 1, 0 - 1), BackEv>>)
         ELSE Lg([s EXCEPT !.joink = s.joink + 1], "C", <<Ev("C", "join", 0 - 1, 0 - 1)>>)
    [] OTHER -> s

DoT(th, s) ==
  LET k == TIndex(th) IN
  CASE s.tpc[k] = "t_begin" -> [s EXCEPT !.tpc[k] = "t_take", !.mv = th]        \* silent
    [] s.tpc[k] = "t_take" ->
         IF s.work = <<>> THEN Lg([s EXCEPT !.tpc[k] = "t_finished"], th, <<Ev(th, "exit", 0 - 1, 0 - 1)>>)
         ELSE LET fid == Head(s.work) IN
              IF s.fut[fid].fs = "X"
              THEN Lg([s EXCEPT !.work = Tail(s.work)], th, <<Ev(th, "skip", fid, 0 - 1)>>)
              ELSE Lg([s EXCEPT !.work = Tail(s.work), !.fut[fid].fs = "R",
                                !.tpc[k] = "t_call", !.tfid[k] = fid], th,
                      <<Ev(th, "take", fid, 0 - 1)>>)
    [] s.tpc[k] = "t_call" ->
         Lg([s EXCEPT !.tpc[k] = "t_ret", !.started = s.started + 1], th,
            <<Ev(th, "call", s.fut[s.tfid[k]].item, 0 - 1)>>)
    [] s.tpc[k] = "t_ret" ->
         LET item == s.fut[s.tfid[k]].item
             ok   == ~FnFails(s, item)
         IN Lg([s EXCEPT !.tpc[k] = "t_done", !.fut[s.tfid[k]].ok = ok], th,
               <<Ev(th, "ret", item, IF ok THEN 1 ELSE 0)>>)
    [] s.tpc[k] = "t_done" ->
         Lg([s EXCEPT !.tpc[k] = "t_take", !.fut[s.tfid[k]].fs = "F"], th,
            <<Ev(th, "done", s.tfid[k], IF s.fut[s.tfid[k]].ok THEN 1 ELSE 0)>>)
    [] OTHER -> s

Do(th, s) == IF th = "C" THEN DoC(s) ELSE DoT(th, s)

-----------------------------------------------------------------------------
(* Model checking                                                          *)
FnFailSets(n) == {<<>>} \cup {<<i>> : i \in 1..n}
Configs ==
  {[n |-> n, buf |-> b, w |-> w, fail_at |-> fa, fail_cls |-> fc, fn_fail |-> ff,
    stop |-> sp, stop_k |-> k] :
     n \in 0..MaxN, b \in Bufs, w \in Workers, fa \in (0 - 1)..MaxN, fc \in {"none", "exc"},
     ff \in FnFailSets(MaxN), sp \in {"exhaust", "close", "throw"}, k \in 0..MaxN}
Valid(c) ==
  /\ c.buf >= c.w
  /\ (c.fail_cls = "none") <=> (c.fail_at = 0 - 1)
  /\ c.fail_at <= c.n
  /\ \A j \in 1..Len(c.fn_fail) : c.fn_fail[j] <= c.n
  /\ (c.fail_cls # "none") => c.fn_fail = <<>>
  /\ c.stop = "exhaust" => c.stop_k = 0
  /\ c.stop = "close" => c.stop_k <= c.n
  /\ c.stop = "throw" => (1 <= c.stop_k /\ c.stop_k <= c.n)

VARIABLE st
Init == \E c \in Configs : Valid(c) /\ st = InitState(c)
Next == \E th \in ThreadsOf(st) : Enabled(th, st) /\ st' = Do(th, st)
AllThreadsDone == \A k \in 1..NThr(st) : TFinished(st, k)
Finished == st.cpc = "c_done" /\ AllThreadsDone
Spec == Init /\ [][Next]_st /\ WF_st(Next)

NoDeadlock == Finished \/ \E th \in ThreadsOf(st) : Enabled(th, st)
Termination == <>Finished
Backed == st.cpc = "c_done"

FnFailSet(c) == {c.fn_fail[j] : j \in 1..Len(c.fn_fail)}
Exp(c) == SeqExpect(c.n, IF c.fail_cls = "none" THEN c.n + 1 ELSE c.fail_at, c.fail_cls,
                    FnFailSet(c), {})
\* C04
InvC04 == /\ IsPrefix(st.delivered, Exp(st.cfg).items)
          /\ (st.end = "returned" /\ Exp(st.cfg).out = "returned") => st.delivered = Exp(st.cfg).items
\* C05: control is back only after every pool thread has exited.  Early stop
\* (close): cancellation cannot be atomic with the consumer's decision - a
\* worker may take a pending task between close() and cancel() - so the
\* checkable content of "not yet started computations are cancelled rather
\* than executed" is: once terminate() has walked the queue NOTHING is left
\* pending (every future is running, finished or cancelled), and a
\* cancelled future is never run (structural here: `take` skips it; checked
\* on real traces by V_C05's cancelThenRun).
InvC05 == /\ Backed => AllThreadsDone
          /\ (st.mode = "closed" /\ st.cpc \in {"c_execexit", "c_join", "c_done"})
               => \A f \in 1..Len(st.fut) : st.fut[f].fs # "P"
\* C06: a failure of the mapped function surfaces after exactly the examples
\* before it.  (A failure of the SOURCE happens in the foreground, in the
\* consumer's own thread: it propagates at once and the <= buffer_size
\* results already computed are not delivered - outside C06's antecedent
\* "evaluated in the background"; only that the error is not swallowed.)
InvC06 == (Backed /\ st.end \notin {"closed", "thrown"}) =>
            LET e == Exp(st.cfg) IN
            CASE e.out = "returned"  -> st.end = "returned"
              [] e.out = "raised_fn" -> st.end = "raised_fn" /\ st.delivered = e.items
              [] OTHER               -> st.end = "raised_exc" \/ st.end = "raised_fn"
\* C07
InvC07 == /\ st.pos - Len(st.delivered) <= st.cfg.buf + 2
          /\ st.started - Len(st.delivered) <= st.cfg.buf
TightStart == st.started - Len(st.delivered) <= st.cfg.buf - 1      \* must be refuted
TightPull  == st.pos - Len(st.delivered) <= st.cfg.buf               \* must be refuted

\* refinement: this spec implements the counting abstraction PoolCount.tla, whose
\* inductive invariant Apalache proves for unbounded sources / buffers / pools
CountAbs == INSTANCE PoolCount WITH
  buf <- st.cfg.buf, pos <- st.pos, sub <- Len(st.fut), started <- st.started,
  nd <- Len(st.delivered), ql <- Len(st.qf), cpc <- st.cpc, phase <- st.phase
CountSpec == CountAbs!Spec
CountIndInv == CountAbs!IndInv

EdgeOut == PrintT(<<"EDGE", ToJson([f |-> st, t |-> st', th |-> st'.mv])>>)
=============================================================================
