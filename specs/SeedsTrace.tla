----------------------------- MODULE SeedsTrace -----------------------------
(***************************************************************************)
(* TRACE VALIDATION for property C13: code -> spec.                        *)
(*                                                                         *)
(* ndjson records (env TRACE_FILE), two kinds:                             *)
(*  rt = "run"    [id, prog, wrap, adv, seed, obs]: one scenario executed  *)
(*                on the real library - twins A and B (equal seeds, equal  *)
(*                global history), A2 (other global history), W (the copy  *)
(*                / frozen copy / prefetch of a fresh twin, other global    *)
(*                history); obs.X = [orders, exc, ord, log]                *)
(*  rt = "params" [id, cls, freeze, params, kept, lost]: vars() of a stage *)
(*                built with non-default arguments compared with vars() of *)
(*                its copy(freeze)                                         *)
(* TLC evaluates V_C13 / V_Params on the REAL observation and the          *)
(* conformance with the model (same refusals, same `ordered`, the same     *)
(* generators serving the same calls; the parameter table of the class).   *)
(***************************************************************************)
EXTENDS Seeds, IOUtils

TraceLog == ndJsonDeserialize(IOEnv.TRACE_FILE)
NRec == Len(TraceLog)

VARIABLE l
TInit == l = 1 /\ scn = 0 /\ phase = 0
TNext == /\ \E c \in {2 * l, 2 * l + 1} : c <= NRec /\ l' = c
         /\ UNCHANGED <<scn, phase>>
TSpec == TInit /\ [][TNext]_<<l, scn, phase>>

Judge ==
  l <= NRec =>
    LET rec == TraceLog[l] IN
    IF rec.rt = "params"
    THEN PrintT(<<"VERDICT", ToJson([id |-> rec.id, C13 |-> V_Params(rec),
                                     conf |-> ConformsParams(rec)])>>)
    ELSE LET s == Scenario(rec.prog, rec.wrap, {rec.adv[j] : j \in 1..Len(rec.adv)}, rec.seed)
             m == ModelObs(s)
             conf == ConformsC13(rec.obs, m)
         IN PrintT(<<"VERDICT", ToJson([id |-> rec.id, C13 |-> V_C13(s, rec.obs), conf |-> conf,
                      model |-> IF conf = "conforms" THEN <<>>
                                ELSE <<m.A.log, m.A2.log, m.W.log>>])>>)
=============================================================================
