----------------------------- MODULE ShardsTrace -----------------------------
(* Trace validation for C15: records [id, n, k, ok, shards, shardeq] taken  *)
(* from the real split / shard (see Shards.tla).                            *)
EXTENDS Values, Json, IOUtils
CONSTANT N
TraceLog == ndJsonDeserialize(IOEnv.TRACE_FILE)
NRec == Len(TraceLog)
VARIABLES n, k, l
SH == INSTANCE Shards
TInit == l = 1 /\ n = 0 /\ k = 0
TNext == \E c \in {2 * l, 2 * l + 1} : c <= NRec /\ l' = c /\ UNCHANGED <<n, k>>
TSpec == TInit /\ [][TNext]_<<n, k, l>>
Judge ==
  l <= NRec =>
    LET r == TraceLog[l] IN
    PrintT(<<"VERDICT", ToJson(
      [id |-> r.id, C15 |-> SH!V_C15(r.n, r.k, r.ok, r.shards, r.shardeq, r.stable),
       conf |-> IF r.ok /\ SH!Valid(r.n, r.k) /\ r.shards # SH!ModelShards(r.n, r.k)
                THEN "shards-differ-from-array_split" ELSE "conforms"])>>)
=============================================================================
