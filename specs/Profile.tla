-------------------------------- MODULE Profile --------------------------------
(***************************************************************************)
(* C20  THE PROFILING WRAPPER is transparent and counts truthfully.        *)
(*                                                                         *)
(* ProfilingDataset(ds) copies the pipeline and puts one counting wrapper  *)
(* around EVERY stage.  For the chain programs of Demand.tla (stage s = 0  *)
(* is the source, s = d the top) the number of examples fetched from stage *)
(* s is exactly the size of the request the demand-propagation machine     *)
(* sends to stage s - the same machine that C08 validates against the real *)
(* call logs.  So:                                                         *)
(*   hits(s) = | request reaching stage s |     (failed fetches apart)     *)
(* for a full iteration, for taking the first k results, and for ds[i].    *)
(* Transparency: the wrapped pipeline delivers the same examples, order,   *)
(* length and errors as the plain one (iteration twice, len, ds[i] for all *)
(* i); the original object is untouched.                                   *)
(***************************************************************************)
EXTENDS Demand

\* the request that reaches the OUTPUT of every stage, top first:
\* <<rq_d, rq_{d-1}, ..., rq_0>>
RECURSIVE Requests(_, _)
Requests(a, rq) ==
  IF a.op \in {"list", "dict"} THEN <<rq>>
  ELSE IF a.op = "copy" THEN Requests(a.in, rq)        \* copy() adds no stage
  ELSE <<rq>> \o Requests(a.in, IF a.op = "concat" THEN DownConcat(a, rq) ELSE Down(a, rq))

\* BatchDataset.__getitem__ probes batch_size inputs; a probe past the end of
\* an input that is itself a batch stage fetches deeper examples before it
\* fails.  The wrapper counts those fetches (truthfully); the demand machine
\* speaks of NEEDED examples.  Chains with two batch stages are therefore
\* judged for transparency only.
RECURSIVE NBatch(_)
NBatch(a) == IF a.op \in {"list", "dict"} THEN 0
             ELSE NBatch(a.in) + (IF a.op = "batch" THEN 1 ELSE 0)

\* hits of every wrapper, top first: [lo, hi] = fetches that must / may happen
\* (new() builds the source as TWO stages: the storage and a MapDataset that
\*  deserialises; both are wrapped and see the same fetches)
HitBounds(a, rq) ==
  LET rs0 == Requests(a, rq)
      rs == rs0 \o <<rs0[Len(rs0)]>>
  IN [j \in 1..Len(rs) |-> [lo |-> Len(rs[j].pos), hi |-> Len(rs[j].pos) + Len(rs[j].may)]]

EqIt(x, y) == x.items = y.items /\ x.exc = y.exc

\* rec: [prog, plain, prof (observations: it1, it2, len, gi), untouched,
\*       full (hits top first), takes [k, hits], gets [i, hits]]
V_C20(a, rec) ==
  LET n == Len(Vals(a))
      InBounds(h, b) == /\ Len(h) = Len(b)
                        /\ \A j \in 1..Len(h) : b[j].lo <= h[j].total - h[j].failed
                                                 /\ h[j].total - h[j].failed <= b[j].hi
  IN
  IF rec.plain.build # "ok" THEN <<"trivial", "plain-pipeline-refused">>
  ELSE IF rec.prof.build # "ok" THEN <<"viol", "wrapping-refused">>
  ELSE IF ~EqIt(rec.prof.it1, rec.plain.it1) THEN <<"viol", "iteration-differs-under-the-wrapper">>
  ELSE IF ~EqIt(rec.prof.it2, rec.plain.it2) THEN <<"viol", "second-iteration-differs-under-the-wrapper">>
  ELSE IF rec.prof.len # rec.plain.len THEN <<"viol", "len-differs-under-the-wrapper">>
  ELSE IF rec.prof.gi # rec.plain.gi THEN <<"viol", "indexing-differs-under-the-wrapper">>
  ELSE IF ~rec.untouched THEN <<"viol", "wrapped-pipeline-object-was-modified">>
  ELSE IF rec.plain.it1.exc # "none" THEN <<"trivial", "pipeline-raises">>
  ELSE IF NBatch(a) >= 2 THEN <<"trivial", "nested-batches-transparency-only">>
  ELSE IF ~InBounds(rec.full, HitBounds(a, ReqAll(n)))
       THEN <<"viol", "hit-counts-of-a-full-iteration-differ-from-the-fetches">>
  ELSE IF \E j \in 1..Len(rec.takes) :
            LET k == rec.takes[j].k IN
            k <= n /\ ~InBounds(rec.takes[j].hits, HitBounds(a, Req(Range(1, k), <<>>)))
       THEN <<"viol", "hit-counts-of-a-partial-iteration-differ-from-the-fetches">>
  ELSE IF \E j \in 1..Len(rec.gets) :
            /\ Indexable(a) /\ rec.gets[j].i < n
            /\ ~InBounds(rec.gets[j].hits, HitBounds(a, IdxReq(<<rec.gets[j].i + 1>>, <<>>)))
       THEN <<"viol", "hit-counts-of-an-indexed-access-differ-from-the-fetches">>
  ELSE IF n = 0 THEN <<"trivial", "empty">> ELSE <<"ok", "">>
=============================================================================
