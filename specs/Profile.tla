-------------------------------- MODULE Profile --------------------------------
(***************************************************************************)
(* C20  THE PROFILING WRAPPER is transparent and counts truthfully.        *)
(*                                                                         *)
(* ProfilingDataset(ds) copies the pipeline and puts one counting wrapper  *)
(* around EVERY stage.  For the chain programs of Demand.tla (stage s = 0  *)
(* is the source, s = d the top) the number of examples fetched from stage *)
(* s is exactly the size of the request the demand-propagation machine     *)
(* sends to stage s - the same machine that C08 validates against the real *)
(* call logs.  So:                                                         *)
(*   hits(s) = | request reaching stage s |     (failed fetches apart)     *)
(* for a full iteration, for taking the first k results, and for ds[i].    *)
(* Transparency: the wrapped pipeline delivers the same examples, order,   *)
(* length and errors as the plain one (iteration twice, len, ds[i] for all *)
(* i); the original object is untouched.                                   *)
(***************************************************************************)
EXTENDS Demand

\* the request that reaches the OUTPUT of every stage, top first:
\* <<rq_d, rq_{d-1}, ..., rq_0>>
RECURSIVE Requests(_, _)
Requests(a, rq) ==
  IF a.op \in {"list", "dict"} THEN <<rq>>
  ELSE IF a.op = "copy" THEN Requests(a.in, rq)        \* copy() adds no stage
  ELSE <<rq>> \o Requests(a.in, IF a.op = "concat" THEN DownConcat(a, rq) ELSE Down(a, rq))

\* BatchDataset.__getitem__ probes batch_size inputs; a probe past the end of
\* an input that is itself a batch stage fetches deeper examples before it
\* fails.  The wrapper counts those fetches (truthfully); the demand machine
\* speaks of NEEDED examples.  Chains with two batch stages are therefore
\* judged for transparency only.
RECURSIVE NBatch(_)
NBatch(a) == IF a.op \in {"list", "dict"} THEN 0
             ELSE NBatch(a.in) + (IF a.op = "batch" THEN 1 ELSE 0)

\* the program whose OUTPUT each request of Requests(a, rq) refers to, top first
RECURSIVE Nodes(_)
Nodes(a) ==
  IF a.op \in {"list", "dict"} THEN <<a>>
  ELSE IF a.op = "copy" THEN Nodes(a.in)
  ELSE <<a>> \o Nodes(a.in)

\* hits of every wrapper, top first.  A fetch of an example whose evaluation
\* raises is a FAILED fetch of every wrapper at or above the raising stage
\* (counted in `total` and in `failed`); lo / hi bound the successful ones.
\* (new() builds the source as TWO stages: the storage and a MapDataset that
\*  deserialises; both are wrapped and see the same fetches)
HitBounds(a, rq) ==
  LET rs0 == Requests(a, rq)
      ns0 == Nodes(a)
      rs == rs0 \o <<rs0[Len(rs0)]>>
      ns == ns0 \o <<ns0[Len(ns0)]>>
      OkAt(nd, ps) == Len(SelectIdx(ps, LAMBDA q : Els(nd)[q].ok, 1))
  IN [j \in 1..Len(rs) |->
        [lo |-> OkAt(ns[j], rs[j].pos),
         hi |-> OkAt(ns[j], rs[j].pos) + OkAt(ns[j], rs[j].may),
         flo |-> Len(rs[j].pos) - OkAt(ns[j], rs[j].pos),
         fhi |-> Len(rs[j].pos) - OkAt(ns[j], rs[j].pos) + Len(rs[j].may) - OkAt(ns[j], rs[j].may)]]

RECURSIVE HasOp(_, _)
HasOp(a, op) == IF a.op \in {"list", "dict"} THEN FALSE ELSE a.op = op \/ HasOp(a.in, op)

EqIt(x, y) == x.items = y.items /\ x.exc = y.exc

\* rec: [prog, plain, prof (observations: it1, it2, len, gi), untouched,
\*       full (hits top first), takes [k, hits], gets [i, hits]]
V_C20(a, rec) ==
  LET n == Len(Vals(a))
      InBounds(h, b) == /\ Len(h) = Len(b)
                        /\ \A j \in 1..Len(h) : /\ b[j].lo <= h[j].total - h[j].failed
                                                 /\ h[j].total - h[j].failed <= b[j].hi
                                                 \* (index-mode batches also PROBE past the
                                                 \*  end: extra failed fetches are legitimate)
                                                 /\ b[j].flo <= h[j].failed
      fe == FirstErr(Els(a))
      avail == IF fe = 0 THEN n ELSE fe - 1
      IterReq(k) == IF k <= avail THEN Req(Range(1, k), <<>>)
                    ELSE IF fe = 0 THEN ReqAll(n) ELSE Req(Range(1, fe), <<>>)
  IN
  IF rec.plain.build # "ok" THEN <<"trivial", "plain-pipeline-refused">>
  ELSE IF rec.prof.build # "ok" THEN <<"viol", "wrapping-refused">>
  ELSE IF ~EqIt(rec.prof.it1, rec.plain.it1) THEN <<"viol", "iteration-differs-under-the-wrapper">>
  ELSE IF ~EqIt(rec.prof.it2, rec.plain.it2) THEN <<"viol", "second-iteration-differs-under-the-wrapper">>
  ELSE IF rec.prof.len # rec.plain.len THEN <<"viol", "len-differs-under-the-wrapper">>
  ELSE IF rec.prof.gi # rec.plain.gi THEN <<"viol", "indexing-differs-under-the-wrapper">>
  ELSE IF ~rec.untouched THEN <<"viol", "wrapped-pipeline-object-was-modified">>
  ELSE IF NBatch(a) >= 2 THEN <<"trivial", "nested-batches-transparency-only">>
  \* (the order of a seeded reshuffle is not modelled: transparency only -
  \*  the plain twin and the wrapped twin are seeded alike, two epochs each)
  ELSE IF HasOp(a, "rshuffle") THEN <<"ok", "">>
  ELSE IF ~InBounds(rec.full, HitBounds(a, IterReq(n + 1)))
       THEN <<"viol", "hit-counts-of-a-full-iteration-differ-from-the-fetches">>
  ELSE IF \E j \in 1..Len(rec.takes) :
            LET k == rec.takes[j].k IN
            k <= n /\ ~InBounds(rec.takes[j].hits, HitBounds(a, IterReq(k)))
       THEN <<"viol", "hit-counts-of-a-partial-iteration-differ-from-the-fetches">>
  ELSE IF \E j \in 1..Len(rec.gets) :
            /\ Indexable(a) /\ rec.gets[j].i < n
            /\ ~InBounds(rec.gets[j].hits, HitBounds(a, IdxReq(<<rec.gets[j].i + 1>>, <<>>)))
       THEN <<"viol", "hit-counts-of-an-indexed-access-differ-from-the-fetches">>
  ELSE IF n = 0 THEN <<"trivial", "empty">> ELSE <<"ok", "">>
=============================================================================
