-------------------------------- MODULE Cache --------------------------------
(***************************************************************************)
(* C10  MEMORY CACHE: transparent, computes each example once, freezes it. *)
(*                                                                         *)
(* State machine over ACCESS HISTORIES on `ds.cache()`, transcribing       *)
(* lazy_dataset/core.py  CacheDataset / _CacheWrapper / Dataset.cache /    *)
(* from_dataset:                                                           *)
(*                                                                         *)
(*   st.mem    the shared `_cache.cache` dict: RAW key -> frozen value     *)
(*             (one object, shared by all copies: `copy._cache = _cache`)  *)
(*   st.latch  per INSTANCE `_do_cache`; a copy is made with __new__ and   *)
(*             never gets the attribute, so it starts with the class       *)
(*             default True (the latch is NOT copied)                      *)
(*   st.calls  per example: how often the upstream pipeline computed it    *)
(*   st.low    psutil.virtual_memory().available <= keep_mem_free;         *)
(*             monotone (the scope C10's quantifier states)                *)
(*   st.snap   lazy=False: the new(self) snapshot (from_dataset)           *)
(*                                                                         *)
(* The upstream value of example e (0-based) at its k-th computation is    *)
(* Val(e, k) for a "freshly random per call" pipeline (par.ups = "rand")   *)
(* and Val(e, 0) for a deterministic one ("det").                          *)
(*                                                                         *)
(* A history is a sequence of step records (uniform shape, one type per    *)
(* field name):  [op, inst, i, key, s, w, b]                               *)
(*   "gi"    insts[inst][i]                 i of either sign, any range    *)
(*   "gs"    insts[inst][key]                                              *)
(*   "sg"    insts[inst][s:][i]             SliceDataset over the cache    *)
(*   "si"    list(insts[inst][s:])                                         *)
(*   "it"    list(insts[inst])              index loop  self[i]            *)
(*   "items" list(insts[inst].items())                                     *)
(*   "pf"    list(insts[inst].prefetch(w, b))   thread back end            *)
(*   "pft"   list(insts[inst].tile(2).prefetch(w, b))          w >= 2      *)
(*   "pfd"   list(insts[inst][[0,0,1,1,..]].prefetch(w, b))    w >= 2      *)
(*           pool workers that request EVERY example TWICE, possibly at    *)
(*           the same time (defect S21, see below)                         *)
(*   "copy"  insts.append(insts[inst].copy(freeze = (i = 1)))              *)
(*   "drop"  available memory falls below the threshold (MemDrop)          *)
(*   "up"    upstream[i] read directly, not through the cache              *)
(* ApplyStep is a FUNCTION of (parameters, state, step); the state machine *)
(* below (BFS = all histories) and the trace spec CacheTrace.tla (fold     *)
(* over a recorded history) use the same operator.                         *)
(*                                                                         *)
(* Defect S6 (original code): the cache is keyed by the RAW int, so c[-1]  *)
(* and c[len-1] are different slots.  Modelled behind "S6" \in Unfixed;    *)
(* repaired = an in-range negative index is normalised before the lookup.  *)
(*                                                                         *)
(* Defect S21 (open): __getitem__ is check-then-act without a lock.  Two   *)
(* pool workers that ask for the SAME uncached example at the same time    *)
(* both miss, the upstream computes it twice and two different values are  *)
(* handed out.  ApplyStep is a function of the history, so the prediction  *)
(* for "pft" / "pfd" is the SEQUENTIALISED one (= the repaired design: an  *)
(* atomic get) whether or not "S21" \in Unfixed; the interleavings of the  *)
(* three sub-steps lookup / compute / store are the separate small module  *)
(* CacheRace.tla (constant Atomic).  "S21" \in Unfixed only enables the    *)
(* RELAXED verdict V_C10x(.., TRUE) with which the harness recognises a    *)
(* violation that is this race and nothing else (known finding).           *)
(***************************************************************************)
EXTENDS Integers, Sequences, FiniteSets, TLC, Json, Defects

CONSTANTS
  Pars,        \* set of parameter records [lazy, ups, keep, pre]
  Depth,       \* length of the histories
  IdxGrid,     \* raw ints used by "gi"
  KeyProbe,    \* keys used by "gs" (present and absent ones)
  SliceStarts, \* s of ds[s:]
  SubIdx,      \* ints used to index the slice dataset
  UpIdx,       \* examples read directly from the upstream
  FreezeVals,  \* subset of {0, 1}: copy(freeze=..)
  MaxInst,     \* original + copies
  PfForms,     \* set of <<workers, buffer>>
  PftForms,    \* set of <<"pft" | "pfd", workers >= 2, buffer>>
  MaxUp, MaxPf \* budgets per history (MaxPf: pf + pft + pfd)

KeyNames == <<"a", "b", "c", "d", "e">>

\* named constant values (a cfg file holds neither negatives nor records)
Par(lazy, ups, keep, pre) == [lazy |-> lazy, ups |-> ups, keep |-> keep, pre |-> pre]
ParsLazy3  == {Par(TRUE, u, "thr", <<0, 0, 0>>) : u \in {"rand", "det"}}
ParsLazy3x == {Par(TRUE, u, k, p) : u \in {"rand", "det"}, k \in {"thr", "none"},
                                    p \in {<<0, 0, 0>>, <<1, 0, 2>>}}
ParsLazy3m == {Par(TRUE, "rand", "thr", <<1, 0, 2>>), Par(TRUE, "det", "thr", <<0, 0, 0>>),
               Par(TRUE, "rand", "none", <<0, 0, 0>>), Par(TRUE, "det", "none", <<1, 0, 2>>)}
ParsEager3 == {Par(FALSE, u, "thr", p) : u \in {"rand", "det"},
                                         p \in {<<0, 0, 0>>, <<1, 0, 2>>}}
ParsLazy2  == {Par(TRUE, u, "thr", <<0, 0>>) : u \in {"rand", "det"}}
ParsLazy4  == {Par(TRUE, "rand", "thr", <<0, 0, 0, 0>>)}
ParsLazy3r == {Par(TRUE, "rand", "thr", <<0, 0, 0>>)}
ParsEager3r == {Par(FALSE, "rand", "thr", <<1, 0, 2>>), Par(FALSE, "det", "thr", <<0, 0, 0>>)}
IdxQ3 == {0 - 4, 0 - 3, 0 - 1, 0, 2, 3}       \* -len-1, -len, -1, 0, len-1, len
IdxC3 == {0 - 1, 0, 2, 3}
IdxS3 == {0 - 1, 2, 3}                        \* -1, len-1, len
IdxF3 == (0 - 4)..3
IdxF2 == (0 - 3)..2
IdxS2 == {0 - 1, 1, 2}                        \* -1, len-1, len  (n = 2)
IdxF4 == (0 - 5)..4
SubQ  == {0 - 1, 0}
SubZ  == {0}
SubF  == {0 - 3, 0 - 2, 0 - 1, 0, 1, 2}
Pf12  == {<<1, 2>>, <<2, 2>>}
Pf2   == {<<2, 2>>}
Pf123 == {<<1, 1>>, <<1, 3>>, <<2, 2>>, <<2, 3>>, <<3, 3>>}
\* tile(2) over n examples: the two requests for one example are n tasks apart,
\* they can only be in flight together when the buffer holds more than n tasks
PftNone == {}
PftQ3 == {<<"pft", 2, 4>>, <<"pfd", 2, 2>>}
PftF3 == {<<"pft", 2, 4>>, <<"pft", 3, 4>>, <<"pft", 2, 2>>, <<"pfd", 2, 2>>, <<"pfd", 3, 3>>}
PftF2 == {<<"pft", 2, 3>>, <<"pft", 3, 3>>, <<"pfd", 2, 2>>, <<"pfd", 3, 4>>}

-----------------------------------------------------------------------------
(* Values, Python indexing                                                 *)

Val(e, k) == [i |-> e, k |-> k]
NoVal     == Val(0 - 1, 0 - 1)

PyPos(n, i) == IF 0 <= i /\ i < n THEN i + 1
               ELSE IF 0 - n <= i /\ i < 0 THEN n + i + 1
               ELSE 0
Range(a, b) == IF b < a THEN <<>> ELSE [j \in 1..(b - a + 1) |-> a + j - 1]
KeyPos(ks, k) == IF \E j \in 1..Len(ks) : ks[j] = k
                 THEN CHOOSE j \in 1..Len(ks) : ks[j] = k ELSE 0
SumSeq(s) == LET RECURSIVE Go(_)
                 Go(j) == IF j > Len(s) THEN 0 ELSE s[j] + Go(j + 1)
             IN Go(1)

NOf(par)    == Len(par.pre)
KeysOf(par) == SubSeq(KeyNames, 1, NOf(par))

Stp(op, inst, i, key, s, w, b) ==
  [op |-> op, inst |-> inst, i |-> i, key |-> key, s |-> s, w |-> w, b |-> b]

-----------------------------------------------------------------------------
(* The upstream pipeline  new({'a': 0, 'b': 1, ..}).map(fn)                *)

\* one more computation of the example at 1-based position pos
Compute(par, calls, pos) ==
  LET c2 == [calls EXCEPT ![pos] = @ + 1]
  IN [calls |-> c2, v |-> Val(pos - 1, IF par.ups = "rand" THEN c2[pos] ELSE 0)]

-----------------------------------------------------------------------------
(* Construction.  lazy: CacheDataset(self, keep_mem_free or "8 GB") does   *)
(* not touch the upstream.  lazy=False: new(self) -> from_dataset ->       *)
(* list(examples.items()): every example computed once, in order, pickled. *)

InitState(par) ==
  LET n == NOf(par) IN
  IF par.lazy
  THEN [mem |-> <<>>, latch |-> <<TRUE>>, calls |-> par.pre, low |-> FALSE, snap |-> <<>>]
  ELSE [mem |-> <<>>, latch |-> <<TRUE>>,
        calls |-> [e \in 1..n |-> par.pre[e] + 1], low |-> FALSE,
        snap |-> [e \in 1..n |-> Compute(par, par.pre, e).v]]

-----------------------------------------------------------------------------
(* CacheDataset.check()                                                    *)
(*   if self._keep_mem_free is None: return True                           *)
(*   if not self._do_cache: return False                                   *)
(*   if psutil.virtual_memory().available <= self._keep_mem_free:          *)
(*       self._do_cache = False; return False                              *)
(*   return True                                                           *)
Check(par, st, inst) ==
  IF par.keep = "none" THEN [c |-> TRUE, latch |-> st.latch]
  ELSE IF ~st.latch[inst] THEN [c |-> FALSE, latch |-> st.latch]
  ELSE IF st.low THEN [c |-> FALSE, latch |-> [st.latch EXCEPT ![inst] = FALSE]]
  ELSE [c |-> TRUE, latch |-> st.latch]

Res(st, ok, v, exc) == [st |-> st, ok |-> ok, v |-> v, exc |-> exc]

(* CacheDataset.__getitem__(int):                                          *)
(*   try: return self._cache[item]            # loads(pickled copy)        *)
(*   except KeyError:                                                      *)
(*       value = self.input_dataset[item]     # IndexError propagates      *)
(*       if self.check(): self._cache[item] = value                        *)
(*       return value                                                      *)
GetIntLazy(par, st, inst, i) ==
  LET n    == NOf(par)
      orig == "S6" \in Unfixed
      \* repaired (commit 88bb9e3):  if item < 0 and -len(self) <= item: item += len(self)
      \* (an index below -len stays raw: never stored, the upstream raises IndexError)
      slot == IF ~orig /\ i < 0 /\ 0 - n <= i THEN i + n ELSE i
  IN IF slot \in DOMAIN st.mem THEN Res(st, TRUE, st.mem[slot], "none")
     ELSE LET pos == PyPos(n, i) IN
          IF pos = 0 THEN Res(st, FALSE, NoVal, "IndexError")
          ELSE LET cv  == Compute(par, st.calls, pos)
                   chk == Check(par, st, inst)
                   m2  == IF chk.c
                          THEN [x \in (DOMAIN st.mem) \cup {slot} |->
                                  IF x = slot THEN cv.v ELSE st.mem[x]]
                          ELSE st.mem
               IN Res([st EXCEPT !.mem = m2, !.latch = chk.latch, !.calls = cv.calls],
                      TRUE, cv.v, "none")

\* lazy=False: DictDataset of pickled examples . map(loads)
GetIntEager(par, st, i) ==
  LET pos == PyPos(NOf(par), i)
  IN IF pos = 0 THEN Res(st, FALSE, NoVal, "IndexError")
     ELSE Res(st, TRUE, st.snap[pos], "none")

GetInt(par, st, inst, i) ==
  IF par.lazy THEN GetIntLazy(par, st, inst, i) ELSE GetIntEager(par, st, i)

\* str: lazy  item = self.keys().index(item)  (tuple.index -> ValueError);
\*      eager DictDataset.__getitem__(str)    (KeyErrorCloseMatches)
GetStr(par, st, inst, key) ==
  LET p == KeyPos(KeysOf(par), key)
  IN IF p = 0
     THEN Res(st, FALSE, NoVal, IF par.lazy THEN "ValueError" ELSE "KeyErrorCloseMatches")
     ELSE GetInt(par, st, inst, p - 1)

\* self[i] for i in idxs, in order (CacheDataset.__iter__, SliceDataset.__iter__)
Loop(par, st, inst, idxs) ==
  LET RECURSIVE Go(_, _, _)
      Go(s, j, acc) ==
        IF j > Len(idxs) THEN [st |-> s, vs |-> acc, exc |-> "none"]
        ELSE LET r == GetInt(par, s, inst, idxs[j])      \* (r.ok forces the step)
             IN IF r.ok THEN Go(r.st, j + 1, Append(acc, r.v))
                ELSE [st |-> r.st, vs |-> <<>>, exc |-> r.exc]
  IN Go(st, 1, <<>>)

-----------------------------------------------------------------------------
(* One step of a history                                                   *)

\* steps whose pool workers request every example twice
RaceOps == {"pft", "pfd"}

Out(st, exc, vs, ks) ==
  [st |-> st, o |-> [exc |-> exc, vs |-> vs, ks |-> ks, calls |-> st.calls]]
One(r) == Out(r.st, r.exc, IF r.ok THEN <<r.v>> ELSE <<>>, <<>>)

ApplyStep(par, st, step) ==
  LET n == NOf(par) IN
  CASE step.op = "gi" -> One(GetInt(par, st, step.inst, step.i))
    [] step.op = "gs" -> One(GetStr(par, st, step.inst, step.key))
    [] step.op = "sg" ->
         \* SliceDataset: self.slice = np.arange(len)[s:];  self.input_dataset[self.slice[i]]
         LET p == PyPos(n - step.s, step.i)
         IN IF p = 0 THEN Out(st, "IndexError", <<>>, <<>>)
            ELSE One(GetInt(par, st, step.inst, step.s + p - 1))
    [] step.op = "si" ->
         LET r == Loop(par, st, step.inst, Range(step.s, n - 1))
         IN Out(r.st, r.exc, r.vs, <<>>)
    [] step.op = "it" ->
         LET r == Loop(par, st, step.inst, Range(0, n - 1))
         IN Out(r.st, r.exc, r.vs, <<>>)
    [] step.op = "items" ->
         \* __iter__(with_key=True): keys[i], self[i]
         LET r == Loop(par, st, step.inst, Range(0, n - 1))
         IN Out(r.st, r.exc, r.vs, IF r.exc = "none" THEN KeysOf(par) ELSE <<>>)
    [] step.op = "pf" ->
         IF step.w = 1
         THEN \* single_thread_prefetch(self.input_dataset, b): the worker
              \* thread iterates THIS instance
              LET r == Loop(par, st, step.inst, Range(0, n - 1))
              IN Out(r.st, r.exc, r.vs, <<>>)
         ELSE \* input_dataset = self.input_dataset.copy(freeze=True); the pool
              \* calls input_dataset.__getitem__(i), results delivered in
              \* order.  The temporary copy (latch = class default) dies with
              \* the iteration.  Sequentialised: the workers touch distinct
              \* examples and memory does not move inside a step.
              LET tmp == Len(st.latch) + 1
                  r   == Loop(par, [st EXCEPT !.latch = Append(st.latch, TRUE)], tmp,
                              Range(0, n - 1))
              IN Out([r.st EXCEPT !.latch = SubSeq(r.st.latch, 1, Len(st.latch))],
                     r.exc, r.vs, <<>>)
    [] step.op \in RaceOps ->
         \* PrefetchDataset: input_dataset = self.input_dataset.copy(freeze=True)
         \*   "pft" ConcatenateDataset(c, c).copy -> TWO temporary cache copies,
         \*         global index i < n goes to the first, n <= i to the second
         \*   "pfd" SliceDataset([0,0,1,1,..], c).copy -> ONE temporary copy
         \* the pool calls input_dataset[i]; results are delivered in order.
         \* Sequentialised (atomic get, the repaired design of S21).
         LET k  == Len(st.latch)
             s1 == [st EXCEPT !.latch = st.latch \o (IF step.op = "pft" THEN <<TRUE, TRUE>>
                                                     ELSE <<TRUE>>)]
             Trim(s) == [s EXCEPT !.latch = SubSeq(s.latch, 1, k)]
         IN IF step.op = "pft"
            THEN LET r1 == Loop(par, s1, k + 1, Range(0, n - 1)) IN
                 IF r1.exc # "none" THEN Out(Trim(r1.st), r1.exc, <<>>, <<>>)
                 ELSE LET r2 == Loop(par, r1.st, k + 2, Range(0, n - 1))
                      IN Out(Trim(r2.st), r2.exc,
                             IF r2.exc = "none" THEN r1.vs \o r2.vs ELSE <<>>, <<>>)
            ELSE LET r == Loop(par, s1, k + 1, [j \in 1..(2 * n) |-> (j - 1) \div 2])
                 IN Out(Trim(r.st), r.exc, r.vs, <<>>)
    [] step.op = "copy" ->
         \* copy = __new__; copy._cache = self._cache; _do_cache NOT set
         Out([st EXCEPT !.latch = Append(st.latch, TRUE)], "none", <<>>, <<>>)
    [] step.op = "drop" -> Out([st EXCEPT !.low = TRUE], "none", <<>>, <<>>)
    [] step.op = "up" ->
         LET cv == Compute(par, st.calls, step.i + 1)
         IN Out([st EXCEPT !.calls = cv.calls], "none", <<cv.v>>, <<>>)
    [] OTHER -> Out(st, "bad-step", <<>>, <<>>)

\* the model's observation of a whole history: [init, steps]
ModelRun(par, hist) ==
  LET RECURSIVE Go(_, _, _)
      Go(s, j, acc) == IF j > Len(hist) THEN acc
                       ELSE LET r == ApplyStep(par, s, hist[j])
                            \* TLC passes operator arguments lazily: force every
                            \* step, or a long history is one deeply nested thunk
                            IN IF r.o.exc = "" THEN acc
                               ELSE Go(r.st, j + 1, Append(acc, r.o))
      s0 == InitState(par)
  IN [init |-> s0.calls, steps |-> Go(s0, 1, <<>>)]

-----------------------------------------------------------------------------
(* THE PROPERTY, over (parameters, history, observation) only.             *)
(* obs = [init |-> calls after construction,                               *)
(*        steps |-> <<[exc, vs, ks, calls]>>]  one record per step          *)

CacheOps == {"gi", "gs", "sg", "si", "it", "items", "pf", "pft", "pfd"}

\* 1-based example positions a step has to return, in order; <<>> together
\* with MustRaise when the access is outside the dataset
Touch(par, step) ==
  LET n == NOf(par) IN
  CASE step.op = "gi" -> (IF PyPos(n, step.i) = 0 THEN <<>> ELSE <<PyPos(n, step.i)>>)
    [] step.op = "gs" -> (IF KeyPos(KeysOf(par), step.key) = 0 THEN <<>>
                          ELSE <<KeyPos(KeysOf(par), step.key)>>)
    [] step.op = "sg" -> (IF PyPos(n - step.s, step.i) = 0 THEN <<>>
                          ELSE <<step.s + PyPos(n - step.s, step.i)>>)
    [] step.op = "si" -> Range(step.s + 1, n)
    [] step.op \in {"it", "items", "pf"} -> Range(1, n)
    [] step.op = "pft" -> Range(1, n) \o Range(1, n)
    [] step.op = "pfd" -> [j \in 1..(2 * n) |-> ((j - 1) \div 2) + 1]
    [] OTHER -> <<>>
MustRaise(par, step) == step.op \in {"gi", "gs", "sg"} /\ Touch(par, step) = <<>>

\* relaxed = FALSE: the property as stated.
\* relaxed = TRUE (only while S21 is open): the examples of `race` - computed
\* exactly twice inside the pool step that is their first access through the
\* cache, which requests them twice - are judged "up to the race": both
\* values handed out by that step are ones computed in it, every later access
\* returns ONE of them (the same one for the rest of the history) and nothing
\* is computed again.  All other examples, and all other clauses, as stated.
\* <<"na", ..>> when no example raced.  A violation of V_C10 with
\* V_C10x(.., TRUE) = "ok" is S21 and nothing else.
V_C10x(par, hist, obs, relaxed) ==
  \* (functions, not operators: TLC evaluates a LET-bound value once)
  LET n    == NOf(par)
      T    == Len(hist)
      rand == par.ups = "rand"
      before == [t \in 1..T |-> IF t = 1 THEN obs.init ELSE obs.steps[t - 1].calls]
      delta  == [t \in 1..T |-> [e \in 1..n |-> obs.steps[t].calls[e] - before[t][e]]]
      isAcc  == [t \in 1..T |-> hist[t].op \in CacheOps]
      tch    == [t \in 1..T |-> Touch(par, hist[t])]
      Before(t) == before[t]
      Delta(t, e) == delta[t][e]
      IsAcc(t) == isAcc[t]
      Tch(t)   == tch[t]
      Touches(t, e) == \E p \in 1..Len(tch[t]) : tch[t][p] = e
      Drops == {t \in 1..T : hist[t].op = "drop" /\ par.keep = "thr"}
      dropAt == IF Drops = {} THEN T + 1 ELSE CHOOSE t \in Drops : \A u \in Drops : t <= u
      accOf  == [e \in 1..n |-> {t \in 1..T : isAcc[t] /\ Touches(t, e)}]
      AccOf(e) == accOf[e]
      firstT == [e \in 1..n |-> IF accOf[e] = {} THEN T + 1
                                ELSE CHOOSE t \in accOf[e] : \A u \in accOf[e] : t <= u]
      first(e) == firstT[e]
      \* the value the pipeline produced the first time the CACHE computed e
      firstVal == [e \in 1..n |-> IF firstT[e] > T THEN NoVal
                                  ELSE Val(e - 1, IF rand THEN before[firstT[e]][e] + 1 ELSE 0)]
      firstV(e) == firstVal[e]
      race == IF ~(relaxed /\ "S21" \in Unfixed /\ par.lazy) THEN {}
              ELSE {e \in 1..n : /\ firstT[e] <= T /\ firstT[e] < dropAt
                                  /\ hist[firstT[e]].op \in RaceOps /\ hist[firstT[e]].w >= 2
                                  /\ delta[firstT[e]][e] = 2}
      \* the computation numbers of the two racing computations
      cand == [e \in 1..n |-> IF e \notin race THEN {}
                               ELSE IF rand THEN {before[firstT[e]][e] + 1,
                                                  before[firstT[e]][e] + 2}
                               ELSE {0}]
      \* everything returned for e by the steps after the racing one
      later == [e \in 1..n |->
                 IF e \notin race THEN {}
                 ELSE UNION {{obs.steps[t].vs[p] : p \in {q \in 1..Len(tch[t]) : tch[t][q] = e}}
                             : t \in {u \in (firstT[e] + 1)..T : isAcc[u]}}]
      RaceStable ==
        \A e \in race :
          /\ \A p \in 1..Len(tch[firstT[e]]) :
               tch[firstT[e]][p] = e => obs.steps[firstT[e]].vs[p].k \in cand[e]
          /\ Cardinality(later[e]) <= 1
          /\ \A v \in later[e] : v.k \in cand[e]
      Shape(t) ==    \* transparent: the right examples, in order, or raises
        LET o == obs.steps[t] IN
        IF MustRaise(par, hist[t]) THEN o.exc # "none"
        ELSE /\ o.exc = "none"
             /\ Len(o.vs) = Len(Tch(t))
             /\ \A p \in 1..Len(Tch(t)) : o.vs[p].i = Tch(t)[p] - 1
             /\ hist[t].op = "items" =>
                  /\ Len(o.ks) = Len(Tch(t))
                  /\ \A p \in 1..Len(Tch(t)) : o.ks[p] = KeysOf(par)[Tch(t)[p]]
      Transparent == \A t \in 1..T : IsAcc(t) => Shape(t)
      Monotone == \A t \in 1..T : \A e \in 1..n : Delta(t, e) >= 0
      \* every (t, p): an access step and a position of its result
      ForAllRet(P(_, _, _)) ==
        \A t \in 1..T : IsAcc(t) =>
          \A p \in 1..Len(Tch(t)) : P(t, Tch(t)[p], obs.steps[t].vs[p])
      AlwaysProduced ==
        /\ Monotone
        /\ LET Q(t, e, v) == IF rand THEN 1 <= v.k /\ v.k <= obs.steps[t].calls[e]
                             ELSE v.k = 0
           IN ForAllRet(Q)
      FirstValue ==
        LET Q(t, e, v) == (t < dropAt /\ e \notin race) => v = firstV(e) IN ForAllRet(Q)
      ComputeOnce ==
        \A e \in 1..n :
          LET most == IF e \in race THEN 2 ELSE 1 IN    \* (race: the 2 of the racing step)
          /\ SumSeq([t \in 1..T |-> IF IsAcc(t) /\ t < dropAt THEN Delta(t, e) ELSE 0]) <= most
          \* cached before the drop: never computed again for the life of the cache
          /\ first(e) < dropAt =>
               SumSeq([t \in 1..T |-> IF IsAcc(t) THEN Delta(t, e) ELSE 0]) <= most
      \* "no further examples are cached": an example first needed after the
      \* crossing is computed anew on every access and the new value is returned
      \* (a pool step asks for e at several positions: one computation per
      \* position; concurrent workers deliver the new values in either order)
      NoCachingAfterDrop ==
        \A e \in 1..n : first(e) > dropAt =>
          \A t \in AccOf(e) :
            LET occ == {p \in 1..Len(Tch(t)) : Tch(t)[p] = e}
                m   == Cardinality(occ)
                c   == obs.steps[t].calls[e]
            IN /\ Delta(t, e) = m
               /\ IF rand THEN {obs.steps[t].vs[p].k : p \in occ} = (c - m + 1)..c
                  ELSE \A p \in occ : obs.steps[t].vs[p].k = 0
      FrozenBeforeDrop ==
        LET Q(t, e, v) == (t > dropAt /\ first(e) < dropAt /\ e \notin race) => v = firstV(e)
        IN ForAllRet(Q)
      \* lazy=False: content and order fixed at call time, upstream invisible later
      EagerSnapshot ==
        /\ \A e \in 1..n : obs.init[e] = par.pre[e] + 1
        /\ \A t \in 1..T : IsAcc(t) => \A e \in 1..n : Delta(t, e) = 0
        /\ LET Q(t, e, v) == v = Val(e - 1, IF rand THEN par.pre[e] + 1 ELSE 0)
           IN ForAllRet(Q)
  IN IF \A t \in 1..T : ~IsAcc(t) THEN <<"trivial", "no-cache-access">>
     ELSE IF relaxed /\ race = {} THEN <<"na", "no-race">>
     ELSE IF ~Transparent THEN <<"viol", "Transparent">>
     ELSE IF ~AlwaysProduced THEN <<"viol", "AlwaysProduced">>
     ELSE IF ~par.lazy
          THEN (IF EagerSnapshot THEN <<"ok", "eager">> ELSE <<"viol", "EagerSnapshot">>)
     ELSE IF ~FirstValue THEN <<"viol", "FirstValue">>
     ELSE IF ~RaceStable THEN <<"viol", "RaceStable">>
     ELSE IF ~ComputeOnce THEN <<"viol", "ComputeOnce">>
     ELSE IF ~NoCachingAfterDrop THEN <<"viol", "NoCachingAfterDrop">>
     ELSE IF ~FrozenBeforeDrop THEN <<"viol", "FrozenBeforeDrop">>
     ELSE <<"ok", IF dropAt <= T THEN "lazy-drop" ELSE "lazy">>

V_C10(par, hist, obs) == V_C10x(par, hist, obs, FALSE)

\* real observation vs the model's prediction
ConformsAt(o, m) ==
  IF o.init # m.init THEN "init"
  ELSE IF Len(o.steps) # Len(m.steps) THEN "length"
  ELSE IF \A t \in 1..Len(m.steps) : o.steps[t] = m.steps[t] THEN "conforms"
  ELSE LET t == CHOOSE u \in 1..Len(m.steps) :
                  o.steps[u] # m.steps[u] /\ \A w \in 1..(u - 1) : o.steps[w] = m.steps[w]
       IN IF o.steps[t].exc # m.steps[t].exc
          THEN "exc:" \o m.steps[t].exc \o "->" \o o.steps[t].exc
          ELSE IF o.steps[t].calls # m.steps[t].calls THEN "calls" ELSE "values"

-----------------------------------------------------------------------------
(* The state machine: BFS enumerates every history up to Depth.            *)

VARIABLES par, st, hist, mobs
vars == <<par, st, hist, mobs>>

CountOp(op) == Cardinality({t \in 1..Len(hist) : hist[t].op = op})

Steps ==
  LET I == 1..Len(st.latch) IN
  {Stp("gi", j, i, "", 0, 0, 0) : j \in I, i \in IdxGrid}
  \cup {Stp("gs", j, 0, k, 0, 0, 0) : j \in I, k \in KeyProbe}
  \cup {Stp("sg", j, i, "", s, 0, 0) : j \in I, i \in SubIdx, s \in SliceStarts}
  \cup {Stp("si", j, 0, "", s, 0, 0) : j \in I, s \in SliceStarts}
  \cup {Stp("it", j, 0, "", 0, 0, 0) : j \in I}
  \cup {Stp("items", j, 0, "", 0, 0, 0) : j \in I}
  \cup (IF CountOp("pf") + CountOp("pft") + CountOp("pfd") < MaxPf
        THEN {Stp("pf", j, 0, "", 0, f[1], f[2]) : j \in I, f \in PfForms}
             \cup {Stp(f[1], j, 0, "", 0, f[2], f[3]) : j \in I, f \in PftForms}
        ELSE {})
  \cup (IF Len(st.latch) < MaxInst
        THEN {Stp("copy", j, fr, "", 0, 0, 0) : j \in I, fr \in FreezeVals} ELSE {})
  \cup (IF par.lazy /\ par.keep = "thr" /\ ~st.low
        THEN {Stp("drop", 0, 0, "", 0, 0, 0)} ELSE {})
  \cup (IF CountOp("up") < MaxUp
        THEN {Stp("up", 0, i, "", 0, 0, 0) : i \in UpIdx} ELSE {})

Init == /\ par \in Pars
        /\ st = InitState(par)
        /\ hist = <<>>
        /\ mobs = <<>>

Next == /\ Len(hist) < Depth
        /\ \E step \in Steps :
             LET r == ApplyStep(par, st, step)
             IN /\ st' = r.st
                /\ hist' = Append(hist, step)
                /\ mobs' = Append(mobs, r.o)
                /\ par' = par

Spec == Init /\ [][Next]_vars

ModelObs == [init |-> InitState(par).calls, steps |-> mobs]
ModelVerdict == V_C10(par, hist, ModelObs)

\* spec -> code: one line per history (always TRUE)
EmitHistory ==
  PrintT(<<"VEC", ToJson([par |-> par, hist |-> hist, mobs |-> ModelObs,
                          mv |-> ModelVerdict])>>)

-----------------------------------------------------------------------------
(* Design-level invariants (checked on the REPAIRED model; the original    *)
(* model refutes DesignHolds / SlotCanonical through S6).                  *)

DesignHolds == ModelVerdict[1] # "viol"

\* every slot is the canonical index of the example it holds
SlotCanonical ==
  \A x \in DOMAIN st.mem : 0 <= x /\ x < NOf(par) /\ st.mem[x].i = x

\* a stored value never changes and is never evicted (frozen)
MemFrozen ==
  [][\A x \in DOMAIN st.mem : x \in DOMAIN st'.mem /\ st'.mem[x] = st.mem[x]]_vars

\* nothing is stored once memory is low
NoStoreWhenLow == [][(st.low /\ par.keep = "thr") => st'.mem = st.mem]_vars

\* the latch only ever goes off, and only when memory is low
LatchMonotone ==
  [][\A j \in 1..Len(st.latch) :
       (j <= Len(st'.latch) /\ st.latch[j] # st'.latch[j]) => (st.latch[j] /\ st.low)]_vars

\* calls[e] = upstream reads by "up" + pre + (1 if cached) while memory is high
OncePerExample ==
  (par.lazy /\ ~st.low) =>
    \A e \in 1..NOf(par) :
      st.calls[e] - par.pre[e]
        - Cardinality({t \in 1..Len(hist) : hist[t].op = "up" /\ hist[t].i = e - 1}) <= 1
=============================================================================
