---------------------------- MODULE DatabaseTrace ----------------------------
(***************************************************************************)
(* TRACE VALIDATION for the database layer: code -> spec (property C19).   *)
(*                                                                         *)
(* The trace file (ndjson, env TRACE_FILE) holds one record per EXECUTED   *)
(* history:                                                                *)
(*   id       record number                                                *)
(*   parts    the database description (Database.tla, `part`)             *)
(*   kind     "dict" (DictDatabase) | "json" (JsonDatabase over files)     *)
(*   history  the steps (Database.tla, `step`)                             *)
(*   obs      what the REAL library did: [bexc, bsrcn, bsrcs, steps]       *)
(*            (Database.tla PART 3), taken by harness/check_database.py    *)
(* For every record TLC                                                    *)
(*   - evaluates the verdict V_C19 on the REAL observation, with the very  *)
(*     operators the design-level check uses, and                          *)
(*   - folds the implementation-shaped step functions over the history     *)
(*     (Run) and compares the prediction with the real observation.        *)
(* Records are independent: the "behaviour" is a binary tree over record   *)
(* indices (state l has successors 2l and 2l+1), so TLC's workers validate *)
(* records in parallel and every record is one distinct state.  The        *)
(* variables of Database.tla are parked on constant values.                *)
(***************************************************************************)
EXTENDS Database, IOUtils

TraceLog == ndJsonDeserialize(IOEnv.TRACE_FILE)
NRec == Len(TraceLog)

VARIABLE l
Parked ==
  /\ parts = <<>> /\ kind = "none" /\ hist = <<>> /\ todo = <<>> /\ src = <<>> /\ loaded = FALSE
  /\ merged = EmptyPart /\ memo = {} /\ live = {} /\ epoch = 0
  /\ mobs = [bexc |-> "none", bsrcn |-> TRUE, bsrcs |-> TRUE, steps |-> <<>>]
TraceInit == l = 1 /\ Parked
TraceNext == /\ \E c \in {2 * l, 2 * l + 1} : c <= NRec /\ l' = c
             /\ UNCHANGED vars
TraceSpec == TraceInit /\ [][TraceNext]_<<l, vars>>

Judge ==
  l <= NRec =>
    LET rec == TraceLog[l]
        o   == rec.obs
        m   == Run(rec.parts, rec.kind, rec.history).ob
        f   == FailSeq(rec.parts, rec.kind, rec.history, o)
    IN PrintT(<<"VERDICT", ToJson(
         [id |-> rec.id,
          C19 |-> VerdictOf(rec.parts, rec.kind, rec.history, o, f),
          clauses |-> f,
          model |-> V_C19(rec.parts, rec.kind, rec.history, m),
          conf |-> ConfWhere(o, m)])>>)
=============================================================================
