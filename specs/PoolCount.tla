------------------------------ MODULE PoolCount ------------------------------
(***************************************************************************)
(* COUNTING ABSTRACTION of PoolMap.tla (lazy_parallel_map), for an         *)
(* UNBOUNDED source, ANY buffer size and ANY number of pool threads.       *)
(*                                                                         *)
(* The consumer's program counter and phase are kept; the FIFO of futures  *)
(* is its length, the futures are the number submitted, and the pool is    *)
(* one action: some submitted call that has not been started yet starts    *)
(* (whenever it likes - every worker count, every completion order).  The  *)
(* source may end or raise at any pull, a result may be a failure, the     *)
(* consumer may close / throw after any example.                           *)
(*   1. TLC checks PoolMap.tla IMPLEMENTS this module (PROPERTY CountSpec  *)
(*      in PoolMap's model-checking configuration);                        *)
(*   2. Apalache proves IndInv inductive and IndInv => ReadAhead with      *)
(*      unbounded integers: C07's bound  started - delivered <= buffer     *)
(*      (and pulled - delivered <= buffer + 1) for every dataset length,   *)
(*      buffer size and worker count.                                      *)
(***************************************************************************)
EXTENDS Integers

VARIABLES
  \* @type: Int;
  buf,
  \* @type: Int;
  pos,        \* examples pulled from the source
  \* @type: Int;
  sub,        \* calls submitted to the pool
  \* @type: Int;
  started,    \* calls a pool thread has begun
  \* @type: Int;
  nd,         \* examples handed to the user
  \* @type: Int;
  ql,         \* futures in the generator's FIFO
  \* @type: Str;
  cpc,
  \* @type: Str;
  phase

vars == <<buf, pos, sub, started, nd, ql, cpc, phase>>

CPC == {"c_closed0", "c_pull", "c_result", "c_yield", "c_submit", "c_start", "c_cancel",
        "c_execexit", "c_join", "c_done"}

Init ==
  /\ buf \in Nat \ {0}
  /\ pos = 0 /\ sub = 0 /\ started = 0 /\ nd = 0 /\ ql = 0
  /\ cpc \in {"c_pull", "c_closed0"} /\ phase = "loop"

\* `while not q.empty(): yield result(q.get())`, folded into the step reaching it
Flush == /\ phase' = "flush"
         /\ IF ql = 0 THEN cpc' = "c_execexit" /\ ql' = ql
            ELSE cpc' = "c_result" /\ ql' = ql - 1
CancelNext(q) == cpc' = (IF q = 0 THEN "c_execexit" ELSE "c_cancel")

CClosed0 == cpc = "c_closed0" /\ cpc' = "c_done" /\ UNCHANGED <<buf, pos, sub, started, nd, ql, phase>>
CPull ==
  /\ cpc = "c_pull"
  /\ \/ Flush /\ UNCHANGED <<pos>>                                   \* the source ends
     \/ cpc' = "c_execexit" /\ UNCHANGED <<pos, ql, phase>>          \* ... raises
     \/ /\ pos' = pos + 1 /\ phase' = "loop"                         \* ... yields
        /\ IF ql >= buf THEN cpc' = "c_result" /\ ql' = ql - 1
           ELSE cpc' = "c_submit" /\ ql' = ql
  /\ UNCHANGED <<buf, sub, started, nd>>
CResult == /\ cpc = "c_result" /\ cpc' \in {"c_yield", "c_execexit"}
           /\ UNCHANGED <<buf, pos, sub, started, nd, ql, phase>>
CYield ==
  /\ cpc = "c_yield" /\ nd' = nd + 1
  /\ \/ CancelNext(ql) /\ UNCHANGED <<ql, phase>>                    \* close()
     \/ cpc' = "c_execexit" /\ UNCHANGED <<ql, phase>>               \* throw()
     \/ phase = "loop" /\ cpc' = "c_submit" /\ UNCHANGED <<ql, phase>>
     \/ phase # "loop" /\ Flush
  /\ UNCHANGED <<buf, pos, sub, started>>
CSubmit == /\ cpc = "c_submit" /\ sub' = sub + 1 /\ ql' = ql + 1
           /\ cpc' \in {"c_start", "c_pull"}
           /\ UNCHANGED <<buf, pos, started, nd, phase>>
CStart == cpc = "c_start" /\ cpc' = "c_pull" /\ UNCHANGED <<buf, pos, sub, started, nd, ql, phase>>
CCancel == /\ cpc = "c_cancel" /\ ql > 0 /\ ql' = ql - 1 /\ CancelNext(ql - 1)
           /\ UNCHANGED <<buf, pos, sub, started, nd, phase>>
CExecExit == /\ cpc = "c_execexit" /\ cpc' \in {"c_join", "c_done"}
             /\ UNCHANGED <<buf, pos, sub, started, nd, ql, phase>>
CJoin == /\ cpc = "c_join" /\ cpc' \in {"c_join", "c_done"}
         /\ UNCHANGED <<buf, pos, sub, started, nd, ql, phase>>
\* some pool thread begins a submitted call
TStart == started < sub /\ started' = started + 1
          /\ UNCHANGED <<buf, pos, sub, nd, ql, cpc, phase>>

Next == CClosed0 \/ CPull \/ CResult \/ CYield \/ CSubmit \/ CStart \/ CCancel \/ CExecExit
        \/ CJoin \/ TStart
Spec == Init /\ [][Next]_vars

-----------------------------------------------------------------------------
ReadAhead == started - nd <= buf /\ pos - nd <= buf + 1
TightStart == started - nd <= buf - 1           \* must be refuted

TypeOK == /\ buf \in Nat \ {0} /\ pos \in Nat /\ sub \in Nat /\ started \in Nat /\ nd \in Nat
          /\ ql \in Nat /\ cpc \in CPC /\ phase \in {"loop", "flush"}

InLoop == phase = "loop" /\ cpc \in {"c_closed0", "c_pull", "c_result", "c_yield", "c_submit", "c_start"}
InHand == IF cpc \in {"c_result", "c_yield"} THEN 1 ELSE 0        \* a future taken from the FIFO
Cur == IF cpc \in {"c_result", "c_yield", "c_submit"} THEN 1 ELSE 0  \* pulled, not yet submitted

IndInv ==
  /\ TypeOK
  /\ started <= sub
  /\ phase = "flush" => cpc \in {"c_result", "c_yield", "c_cancel", "c_execexit", "c_join", "c_done"}
  /\ cpc = "c_cancel" => ql > 0
  /\ InLoop =>
       /\ sub - nd = ql + InHand
       /\ pos = sub + Cur
       /\ ql + InHand <= buf
       /\ cpc = "c_submit" => ql < buf
  /\ ~InLoop => (sub - nd <= buf /\ pos - nd <= buf + 1)

IndInit == IndInv
=============================================================================
