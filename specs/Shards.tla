-------------------------------- MODULE Shards --------------------------------
(***************************************************************************)
(* C15  split / shard partition the dataset.                               *)
(*                                                                         *)
(* Dataset.split(k): ValueError for k < 1 or k > len; otherwise            *)
(* np.array_split(np.arange(len), k) - the first (len mod k) sections get  *)
(* (len div k) + 1 elements - and one SliceDataset per section.            *)
(* shard(k, i) = split(k)[i].                                              *)
(*                                                                         *)
(* TLC enumerates EVERY (n, k) with 0 <= n <= N and -1 <= k <= n + 2,      *)
(* checks the partition properties on the model of array_split             *)
(* (Values.tla SplitSection) and emits the pair; the harness runs the real *)
(* split / shard for every pair and every shard index on list- and         *)
(* dict-backed datasets, and TLC judges the recorded shards                *)
(* (ShardsTrace.tla).                                                      *)
(***************************************************************************)
EXTENDS Values, Json

CONSTANT N
VARIABLES n, k
Init == n \in 0..N /\ k \in (0 - 1)..(N + 2) /\ k <= n + 2
Next == UNCHANGED <<n, k>>
Spec == Init /\ [][Next]_<<n, k>>

Valid(nn, kk) == 1 <= kk /\ kk <= nn
ModelShards(nn, kk) == [j \in 1..kk |-> SplitSection(nn, kk, j)]

\* verdict over what was observed: `ok` (split returned), the shards as
\* sequences of the source positions 0..n-1 they hold, and whether
\* shard(k, i) equalled split(k)[i] for every i (incl. keys for dict sources)
\* shardeq covers EVERY index -k-1 .. k+1 (negative ones count from the end,
\* out-of-range ones must be refused as split(k)[i] refuses them); stable: a
\* second split / shard on the same dataset object gives the same sections after
\* the caller modified the list an earlier call returned (pop, reverse)
V_C15(nn, kk, ok, shards, shardeq, stable) ==
  IF ~Valid(nn, kk) THEN
    (IF ok THEN <<"viol", "invalid-shard-count-accepted">> ELSE <<"ok", "">>)
  ELSE IF ~ok THEN <<"viol", "valid-shard-count-rejected">>
  ELSE IF Len(shards) # kk THEN <<"viol", "wrong-number-of-shards">>
  ELSE IF FlatSeq(shards) # Range(0, nn - 1)
       THEN <<"viol", "shards-do-not-reproduce-the-dataset-in-order">>   \* disjoint + cover + order
  ELSE IF \E i, j \in 1..kk : Len(shards[i]) - Len(shards[j]) > 1
       THEN <<"viol", "shard-sizes-differ-by-more-than-one">>
  ELSE IF ~shardeq THEN <<"viol", "shard-differs-from-split">>
  ELSE IF ~stable THEN <<"viol", "later-call-differs-after-the-caller-modified-an-earlier-result">>
  ELSE <<"ok", "">>

\* design level: the model of array_split has the property
ModelHolds == Valid(n, k) => V_C15(n, k, TRUE, ModelShards(n, k), TRUE, TRUE)[1] = "ok"
Emit == PrintT(<<"VEC", ToJson([n |-> n, k |-> k])>>)
=============================================================================
