--------------------------------- MODULE Obs ---------------------------------
(***************************************************************************)
(* OBSERVATIONS and PROPERTY VERDICTS.                                     *)
(*                                                                         *)
(* An observation is everything a user can see of one dataset object:      *)
(*   build, indexable, ordered, len(), list() twice, list(items()),        *)
(*   keys(), ds[i] for ALL i in [-len-2, len+2), ds[k] for a fixed probe   *)
(*   set of present and absent keys.                                       *)
(* ModelObs(a) is the observation the implementation-shaped model          *)
(* predicts; harness/observe.py takes the very same record from the real   *)
(* library.  The verdict operators V_Cxx are defined ONCE over (program,   *)
(* observation): TLC evaluates them on ModelObs(a) for every program it    *)
(* enumerates (design level) and on every recorded real observation        *)
(* (trace validation, PipelineTrace.tla).                                  *)
(*                                                                         *)
(* A verdict is a pair <<"ok" / "trivial" / "viol", clause>>.               *)
(***************************************************************************)
EXTENDS Impl

Probe == <<"a", "b", "c", "d", "pp", "zz">>

IsLookupErr(c) == c \in {"IndexError", "KeyError", "KeyErrorCloseMatches", "UserKeyError", "UserIndexError"}

GiRange(len) == IF len.ok THEN Range(0 - (len.n + 2), len.n + 1) ELSE Range(0 - 2, 2)

ObsRefused(c) ==
  [build |-> c, idx |-> "-", ord |-> "-", len |-> ErrN("-"),
   it1 |-> ItR(<<>>, "-"), it2 |-> ItR(<<>>, "-"), itk |-> ItR(<<>>, "-"),
   keys |-> ErrK("-"), gi |-> <<>>, gs |-> <<>>, ginsame |-> TRUE, len2 |-> ErrN("-")]

ModelObsOf(t) ==
  LET len == LenO(t)
      rng == GiRange(len)
      it  == It(t, FALSE)
  IN [build |-> "ok", idx |-> Idx(t), ord |-> Ord(t), len |-> len,
      it1 |-> it, it2 |-> it, itk |-> It(OItems(t), FALSE), keys |-> KeysO(t),
      gi |-> [j \in 1..Len(rng) |->
                LET r == Gi(t, rng[j])
                IN [i |-> rng[j], r |-> r, ie |-> (r.exc = "IndexError")]],
      gs |-> [j \in 1..Len(Probe) |->
                LET r == Gs(t, Probe[j])
                IN [k |-> Probe[j], r |-> r, le |-> IsLookupErr(r.exc)]],
      ginsame |-> TRUE, len2 |-> len]

ModelObs(a) == LET b == Build(a) IN IF b.ok THEN ModelObsOf(b.obj) ELSE ObsRefused(b.exc)

-----------------------------------------------------------------------------
Finite(a) == a.op # "cycle"          \* cycle is only ever the outermost op
Refusal(it) == it.exc # "none" /\ it.exc \notin UserExc
\* x: observed iteration, y: reference delivery.  The class of a user
\* exception must be preserved; other classes only have to be "some error".
SameIter(x, y) ==
  /\ x.items = y.items
  /\ IF y.exc \in UserExc THEN x.exc = y.exc ELSE (x.exc = "none") <=> (y.exc = "none")

VOk == <<"ok", "">>
VTriv(w) == <<"trivial", w>>
VViol(w) == <<"viol", w>>
IsViol(v) == v[1] = "viol"

(***************************************************************************)
(* Domain of catch / catch_filter_exception (C14: "indexable upstream      *)
(* pipelines"): every example of the input can be fetched individually,    *)
(* i.e. fetching it succeeds or raises a USER exception.  Outside this     *)
(* domain a broad `exceptions=Exception` swallows the library's own        *)
(* refusals (NotImplementedError of a non-indexable input, ...) and the    *)
(* result is whatever is left - no property speaks about it.               *)
(***************************************************************************)
CatchInputClean(sub) ==
  LET l == LenO(sub) IN
  /\ l.ok
  /\ \A i \in 0..(l.n - 1) : LET r == Gi(sub, i) IN r.ok \/ r.exc \in UserExc
RECURSIVE InDomain(_)
InDomain(a) ==
  CASE a.op \in {"list", "dict"} -> TRUE
    [] a.op \in {"concat", "intersperse", "zip", "keyzip"} -> InDomain(a.in) /\ InDomain(a.in2)
    [] a.op = "catch" \/ (a.op = "prefetch" /\ a.cfe # "none") ->
         /\ InDomain(a.in)
         /\ LET b == Build(a.in) IN b.ok => CatchInputClean(b.obj)
    \* the function of apply() is an operation of the catalogue: look inside
    [] a.op = "apply" -> InDomain(WithIn(a.ag, a.in))
    [] OTHER -> InDomain(a.in)

(***************************************************************************)
(* C01  iteration = eager reference, repeatably.  m is the model's         *)
(* observation of the same program: it delimits the domain (which          *)
(* pipelines the library supports at all).                                 *)
(***************************************************************************)
V_C01(a, o, m) ==
  LET r == Ref(a) IN
  IF r.refuse = "undef" THEN VTriv("reference-undefined")
  ELSE IF ~InDomain(a) THEN VTriv("catch-outside-its-domain")
  ELSE IF o.build # "ok" THEN
    IF r.refuse = "must" \/ m.build # "ok" THEN VTriv("refused")
    ELSE VViol("supported-pipeline-refused")
  ELSE IF r.refuse = "must" THEN VViol("built-what-must-be-refused")
  ELSE IF Refusal(o.it1) THEN
    IF Refusal(m.it1) \/ Refusal(Deliver(r)) THEN VTriv("iteration-refused")
    ELSE VViol("supported-iteration-refused")
  ELSE IF ~SameIter(o.it1, Deliver(r)) THEN VViol("iteration-differs-from-reference")
  ELSE IF o.it2 # o.it1 THEN VViol("second-iteration-differs")
  \* "iteration never consumes or alters a dataset": len() answers the same
  \* before and after everything else was done with the object
  ELSE IF o.len2.ok # o.len.ok \/ o.len2.n # o.len.n THEN VViol("len-changes-after-iteration")
  ELSE VOk

(***************************************************************************)
(* C02  len and integer indexing agree with iteration (self-consistency of *)
(* the observation; no model involved).                                    *)
(***************************************************************************)
GiAt(o, i) == o.gi[i + o.len.n + 3]      \* gi covers -(n+2) .. n+1

V_C02(a, o) ==
  IF o.build # "ok" \/ ~Finite(a) THEN VTriv("not-applicable")
  ELSE IF Refusal(o.it1) THEN VTriv("iteration-refused")
  ELSE IF o.idx # "T" THEN
    IF o.len.ok /\ o.it1.exc = "none" /\ o.len.n # Len(o.it1.items)
    THEN VViol("sized-len-differs-from-iteration")
    ELSE IF o.len.ok THEN VOk ELSE VTriv("not-sized")
  ELSE IF ~o.len.ok THEN VViol("indexable-without-len")
  ELSE
    LET n   == o.len.n
        cnt == Len(o.it1.items)
    IN
    IF o.it1.exc = "none" /\ n # cnt THEN VViol("len-differs-from-iteration")
    ELSE IF cnt > n THEN VViol("iteration-longer-than-len")
    ELSE IF \E i \in 0..(cnt - 1) : GiAt(o, i).r # OkV(o.it1.items[i + 1])
      THEN VViol("getitem-differs-from-iteration")
    ELSE IF o.it1.exc # "none" /\ cnt < n /\ GiAt(o, cnt).r # ErrV(o.it1.exc)
      THEN VViol("getitem-hides-failure")
    ELSE IF \E i \in 0..(n - 1) : GiAt(o, i - n).r # GiAt(o, i).r
      THEN VViol("negative-index-differs")
    ELSE IF \E i \in {0 - n - 2, 0 - n - 1, n, n + 1} : GiAt(o, i).r.ok
      THEN VViol("out-of-range-returns-a-value")
    \* (for an EMPTY dataset any loud refusal is accepted: items() of empty
    \*  key-less data refuses every access with NotImplementedError, which is
    \*  C03's "refuses loudly", not a wrong answer)
    ELSE IF n > 0 /\ \E i \in {0 - n - 2, 0 - n - 1, n, n + 1} : ~GiAt(o, i).ie
      THEN VViol("out-of-range-not-IndexError")
    ELSE IF ~o.ginsame THEN VViol("numpy-integer-index-differs")
    ELSE IF n = 0 THEN VTriv("empty") ELSE VOk

(***************************************************************************)
(* C03  keys / items / key lookup aligned with iteration order.            *)
(***************************************************************************)
V_C03(a, o) ==
  LET r == Ref(a) IN
  IF o.build # "ok" \/ ~Finite(a) \/ r.refuse # "none" THEN VTriv("not-applicable")
  ELSE IF ~InDomain(a) THEN VTriv("catch-outside-its-domain")
  ELSE IF Refusal(o.it1) THEN VTriv("iteration-refused")
  ELSE
    LET kr  == ElKeys(r.el)
        ri  == Ref([op |-> "items", in |-> a])    \* (may be undefined: no verdict then)
        exp == Deliver(ri)
        Under(k) == SelectIdx(r.el, LAMBDA x : x.k = k, 1)
        ElOut(x) == IF x.ok THEN OkV(x.v) ELSE ErrV(x.e)
        LookupBad(g) ==
          LET ps == Under(g.k) IN
          IF ps = <<>> THEN g.r.ok                         \* absent: must raise
          ELSE IF r.kcap = "keys" /\ Len(ps) = 1
               THEN IF r.el[ps[1]].ok THEN g.r # ElOut(r.el[ps[1]])
                    ELSE g.r.ok
               ELSE g.r.ok /\ \A j \in 1..Len(ps) : g.r # ElOut(r.el[ps[j]])
    IN
    IF r.kcap = "keys" /\ ~o.keys.ok THEN VViol("keys-refused")
    ELSE IF r.kcap = "keys" /\ o.keys.ks # kr THEN VViol("keys-not-aligned")
    \* whenever keys() answers at all, it lists the keys of the examples that
    \* iteration yields, in that order
    ELSE IF o.keys.ok /\ r.kcap # "keys" /\ o.it1.exc = "none" /\ o.keys.ks # kr
      THEN VViol("keys-returned-but-not-aligned")
    ELSE IF r.kcap = "keys" /\ Refusal(o.itk) THEN VViol("items-refused")
    ELSE IF ~Refusal(o.itk) /\ ri.refuse = "none" /\ ~SameIter(o.itk, exp) THEN VViol("items-not-aligned")
    ELSE IF \E j \in 1..Len(o.gs) : LookupBad(o.gs[j]) THEN VViol("key-lookup")
    ELSE IF r.kcap = "none" \/ r.el = <<>> THEN VTriv("no-keys") ELSE VOk

(***************************************************************************)
(* C14  exception-based filtering drops exactly the failing examples:      *)
(* value iteration (V_C01 against the reference, which removes exactly the *)
(* examples whose evaluation raises a caught class and lets any other      *)
(* failure surface at its position with its class) and key iteration       *)
(* alike.  Non-trivial only for programs that contain a failing stage or a *)
(* catch form.                                                             *)
(***************************************************************************)
RECURSIVE HasFault(_)
HasFault(a) ==
  CASE a.op \in {"list", "dict"} -> FALSE
    [] a.op \in {"fmap", "catch"} -> TRUE
    [] a.op = "apply" -> HasFault(WithIn(a.ag, a.in))
    [] a.op = "prefetch" -> a.cfe # "none" \/ HasFault(a.in)
    [] a.op \in {"concat", "intersperse", "zip", "keyzip"} -> HasFault(a.in) \/ HasFault(a.in2)
    [] OTHER -> HasFault(a.in)

V_C14(a, o, m) ==
  IF ~HasFault(a) THEN VTriv("no-failing-stage-or-catch")
  ELSE LET v == V_C01(a, o, m) IN
       IF v[1] # "ok" THEN v
       ELSE LET ri == Ref([op |-> "items", in |-> a])
                exp == Deliver(ri) IN
            IF ~Refusal(o.itk) /\ ri.refuse = "none" /\ ~SameIter(o.itk, exp)
            THEN VViol("items-iteration-differs-from-reference")
            ELSE VOk

(***************************************************************************)
(* C18  sorting and grouping reorder without losing or inventing examples. *)
(* Stated on the observation of the sorted / grouped dataset and the       *)
(* CONTENT of its input (the reference of the input program; C01 ties that *)
(* to the code): the result is a permutation of the input, its sort keys   *)
(* are monotone (reverse included), keys stay attached to their examples,  *)
(* without a key function the example keys are the sort keys; a group      *)
(* holds exactly the examples with its id, in their original order.        *)
(* The payloads of family "sortgroup" are dicts: the real code raises      *)
(* TypeError if it ever compares two examples.                             *)
(***************************************************************************)
IsPermOf(xs, ys) ==
  /\ Len(xs) = Len(ys)
  /\ \A j \in 1..Len(xs) :
        Cardinality({m \in 1..Len(xs) : xs[m] = xs[j]}) = Cardinality({m \in 1..Len(ys) : ys[m] = xs[j]})

V_C18(a, o) ==
  IF a.op \notin {"sort", "group"} THEN VTriv("not-a-sort-or-groupby")
  ELSE LET ri == Ref(a.in) IN
  IF ri.refuse # "none" \/ ri.tail # "none" \/ ~AllOk(ri.el) THEN VTriv("input-not-plain")
  ELSE IF o.build # "ok" THEN
    (IF Ref(a).refuse = "none" /\ ModelObs(a).build = "ok" THEN VViol("supported-sort-refused")
     ELSE VTriv("refused"))
  ELSE IF Refusal(o.it1) THEN VTriv("iteration-refused")
  ELSE
    LET inV == [j \in 1..Len(ri.el) |-> ri.el[j].v]
        inP == [j \in 1..Len(ri.el) |-> T(<<S(ri.el[j].k), ri.el[j].v>>)]
        out == o.it1.items
        keyed == ri.kcap \in {"keys", "items"} /\ \A j \in 1..Len(ri.el) : ri.el[j].k # ""
    IN
    IF a.op = "sort" THEN
      IF o.it1.exc # "none" THEN VViol("sorted-dataset-raises")
      ELSE IF ~IsPermOf(out, inV) THEN VViol("not-a-permutation-of-the-input")
      ELSE IF a.key # "none" /\ \E j \in 1..(Len(out) - 1) :
                 \* (monotone in the order of the sort function handed in)
                 IF a.rev THEN IntLessBy(Sfn(a), KeyFn(a.key, out[j]), KeyFn(a.key, out[j + 1]))
                 ELSE IntLessBy(Sfn(a), KeyFn(a.key, out[j + 1]), KeyFn(a.key, out[j]))
        THEN VViol("sort-keys-not-monotone")
      ELSE IF a.key = "none" /\ (~o.keys.ok \/ \E j \in 1..(Len(o.keys.ks) - 1) :
                 IF a.rev THEN StrLessBy(Sfn(a), o.keys.ks[j], o.keys.ks[j + 1])
                 ELSE StrLessBy(Sfn(a), o.keys.ks[j + 1], o.keys.ks[j]))
        THEN VViol("example-keys-not-in-sort-order")
      ELSE IF keyed /\ ~Refusal(o.itk) /\ (o.itk.exc # "none" \/ ~IsPermOf(o.itk.items, inP))
        THEN VViol("keys-not-attached-to-their-examples")
      ELSE IF Len(out) <= 1 THEN VTriv("at-most-one-example") ELSE VOk
    ELSE \* group
      LET want == SelectIdx(inV, LAMBDA x : KeyFn(a.g, x) = a.sel, 1) IN
      IF o.it1.exc # "none" THEN VViol("group-raises")
      ELSE IF out # [j \in 1..Len(want) |-> inV[want[j]]] THEN VViol("group-is-not-the-examples-with-its-id-in-order")
      ELSE IF keyed /\ ~Refusal(o.itk) /\ o.itk.items # [j \in 1..Len(want) |-> inP[want[j]]]
        THEN VViol("keys-not-attached-to-their-examples")
      ELSE VOk

(***************************************************************************)
(* Conformance (drift): the real observation equals the model's, up to the *)
(* class of library-raised exceptions.                                     *)
(***************************************************************************)
NormExc(c) == IF c \in UserExc \/ c \in {"none", "-"} THEN c ELSE "error"
NormIt(it) == ItR(it.items, NormExc(it.exc))
NormV(r)   == [ok |-> r.ok, v |-> r.v, exc |-> NormExc(r.exc)]
Conforms(o, m) ==
  IF o.build # "ok" \/ m.build # "ok" THEN (o.build = "ok") <=> (m.build = "ok")
  ELSE /\ o.idx = m.idx
       /\ o.len.ok = m.len.ok /\ o.len.n = m.len.n
       /\ NormIt(o.it1) = NormIt(m.it1)
       /\ NormIt(o.itk) = NormIt(m.itk)
       /\ o.keys.ok = m.keys.ok /\ o.keys.ks = m.keys.ks
       /\ Len(o.gi) = Len(m.gi)
       /\ \A j \in 1..Len(o.gi) : NormV(o.gi[j].r) = NormV(m.gi[j].r)
       /\ \A j \in 1..Len(o.gs) : NormV(o.gs[j].r) = NormV(m.gs[j].r)
DriftWhere(o, m) ==
  IF o.build # "ok" \/ m.build # "ok" THEN "build"
  ELSE IF o.idx # m.idx THEN "indexable"
  ELSE IF o.len.ok # m.len.ok \/ o.len.n # m.len.n THEN "len"
  ELSE IF NormIt(o.it1) # NormIt(m.it1) THEN "iter"
  ELSE IF NormIt(o.itk) # NormIt(m.itk) THEN "items"
  ELSE IF o.keys.ok # m.keys.ok \/ o.keys.ks # m.keys.ks THEN "keys"
  ELSE IF Len(o.gi) # Len(m.gi) \/ \E j \in 1..Len(o.gi) : NormV(o.gi[j].r) # NormV(m.gi[j].r)
       THEN "getitem-int"
  ELSE "getitem-str"
=============================================================================
