------------------------------- MODULE LPMTrace -------------------------------
(***************************************************************************)
(* TRACE VALIDATION for lazy_parallel_map (thread back end): code -> spec. *)
(* Same scheme as STPTrace.tla: every recorded event log of a controlled   *)
(* execution of the REAL function is (1) replayed through the actions of   *)
(* PoolMap.tla, event by event and field by field, and (2) judged by the   *)
(* property verdicts of PrefetchAbs.tla.                                   *)
(***************************************************************************)
EXTENDS PoolMap, IOUtils

TraceLog == ndJsonDeserialize(IOEnv.TRACE_FILE)
NRec == Len(TraceLog)

VARIABLE l
TInit == l = 1 /\ st = 0
TNext == \E c \in {2 * l, 2 * l + 1} : c <= NRec /\ l' = c /\ UNCHANGED st
TSpec == TInit /\ [][TNext]_<<l, st>>

CfgOf(rec) == [n |-> rec.n, buf |-> rec.buf, w |-> rec.w, fail_at |-> rec.fail_at,
               fail_cls |-> rec.fail_cls, fn_fail |-> rec.fn_fail,
               stop |-> rec.stop, stop_k |-> rec.stop_k]

IsPrefixOf(evs, log, j) ==
  /\ j + Len(evs) - 1 <= Len(log)
  /\ \A m \in 1..Len(evs) : log[j + m - 1] = evs[m]

Replay(rec) ==
  LET log == rec.events
      RECURSIVE Go(_, _)
      Go(s, j) ==
        IF j > Len(log) THEN [at |-> 0, fin |-> s]
        ELSE LET th == log[j].th
                 \* the first scheduling of a pool thread produces no event
                 s0 == IF th # "C" /\ TIndex(th) <= NThr(s) /\ s.tpc[TIndex(th)] = "t_begin"
                       THEN DoT(th, s) ELSE s
             IN IF ~Enabled(th, s0) THEN [at |-> j, fin |-> s0]
                ELSE LET s1  == Do(th, s0)
                         new == SubSeq(s1.log, Len(s0.log) + 1, Len(s1.log))
                     IN IF new = <<>> \/ ~IsPrefixOf(new, log, j) THEN [at |-> j, fin |-> s0]
                        ELSE Go(s1, j + Len(new))
  IN Go(InitState(CfgOf(rec)), 1)

Conformance(rec) ==
  LET r == Replay(rec) IN
  \* buffer_size < max_workers (or 0) is outside the protocol: the code
  \* refuses before anything is pulled; anything else does not conform
  IF rec.buf < rec.w \/ rec.buf < 1
  THEN (IF rec.end = "refused" \/ (rec.end = "closed" /\ Len(rec.events) <= 1) THEN 0 ELSE 1)
  ELSE IF rec.end = "refused" THEN 1
  ELSE IF r.at # 0 THEN r.at
  ELSE IF rec.deadlock
       THEN (IF \E th \in ThreadsOf(r.fin) : Enabled(th, r.fin) THEN Len(rec.events) + 1 ELSE 0)
  ELSE IF r.fin.end # rec.end \/ r.fin.delivered # rec.delivered THEN Len(rec.events) + 1
  ELSE 0

Judge ==
  l <= NRec =>
    LET rec == TraceLog[l]
        exp == Exp(CfgOf(rec))
    IN PrintT(<<"VERDICT", ToJson(
         [id |-> rec.id,
          C04 |-> V_C04(rec.events, rec.end, exp),
          C05 |-> V_C05(rec.events, rec.end, rec.deadlock, rec.alive, FALSE),
          C06 |-> V_C06(rec.events, rec.end, exp, TRUE),
          C07 |-> V_C07(rec.events, rec.buf),
          conf |-> Conformance(rec)])>>)
=============================================================================
