SPECIFICATION TSpec
INVARIANT Judge
CHECK_DEADLOCK FALSE
