-------------------------------- MODULE Demand --------------------------------
(***************************************************************************)
(* C08  EVALUATION IS DEMAND-DRIVEN.                                       *)
(*                                                                         *)
(* Programs are chains  source . op1 . op2 ... opd  over sources with      *)
(* unique examples, whose user functions are LOGGING twins: lmap (identity *)
(* that logs its argument), lfilter (predicate that logs its argument);    *)
(* every stage has an id (its position in the chain).                      *)
(*                                                                         *)
(* The specification is the demand-propagation machine: a request for      *)
(* output positions of a stage (the first k results of an iteration, or    *)
(* the single result ds[i]) is translated, stage by stage, into requests   *)
(* for positions of its input:                                             *)
(*     lmap, items, copy, cache, catch   the same positions                *)
(*     lazy filter (prefix j)            the prefix up to the j-th passing *)
(*     slice(idx)       position q  ->   position idx[q]                   *)
(*     batch(b)         position q  ->   (q-1)b+1 .. qb                    *)
(*     unbatch (prefix j)                batches until j members are there *)
(*     concatenate                       the part that holds the position  *)
(*     prefetch(1, b) (prefix j)         j plus at most b + 2 read-ahead   *)
(* The user function of a stage must be applied EXACTLY to the requested   *)
(* inputs, in request order, once per request ("nothing runs early,        *)
(* nothing runs twice, in source order"); where the statement allows       *)
(* read-ahead (one batch to detect a complete batch is not needed - the    *)
(* batch is complete when it has b members -, a prefetch buffer) the log   *)
(* may continue IN ORDER up to the bound.  Constructing a pipeline of lazy *)
(* combinators logs nothing; an eager filter may evaluate everything at    *)
(* construction (and only then).                                           *)
(*                                                                         *)
(* TLC enumerates the programs (state machine below) and judges the call   *)
(* logs recorded from the real library (DemandTrace.tla).                  *)
(***************************************************************************)
EXTENDS Ref, Json

CONSTANTS MaxLen, Depth,
          WithShuffle      \* offer a seeded reshuffle stage (C20 transparency only)
VARIABLES prog, depth

\* ---- the reference of the logging operations: lmap is the identity, lfilter
\* a filter; Erase rewrites them into the operations Ref.tla knows ----
RECURSIVE Erase(_)
Erase(a) ==
  CASE a.op \in {"list", "dict"} -> a
    [] a.op = "lmap" -> Erase(a.in)
    \* lpmap: the logging map run through map(fn, num_workers=w, buffer_size=bs);
    \* lfmap / lpmap with a predicate: the function logs its argument and then
    \* raises FilterException when the predicate holds
    [] a.op \in {"lfmap", "lpmap"} ->
         IF a.p.pn = "never" THEN Erase(a.in)
         ELSE [op |-> "fmap", p |-> a.p, cls |-> "FilterException", in |-> Erase(a.in)]
    [] a.op \in {"rshuffle", "lshuffle"} -> Erase(a.in)      \* (the order is not modelled)
    [] a.op = "lfilter" -> [op |-> "filter", p |-> a.p, lazy |-> a.lazy, in |-> Erase(a.in)]
    [] a.op = "concat" -> [op |-> "concat", in |-> Erase(a.in), in2 |-> a.in2]
    [] OTHER -> [x \in DOMAIN a |-> IF x = "in" THEN Erase(a.in) ELSE a[x]]
DRef(a) == Ref(Erase(a))

Vals(a) == LET r == DRef(a) IN [j \in 1..Len(r.el) |-> r.el[j].v]
Els(a) == DRef(a).el
\* does the stage raise on some example?
Failing(a) == a.op \in {"lfmap", "lpmap"} /\ a.p.pn # "never"
\* prefetch with a worker pool (>= 2 workers) instead of the single prefetch thread
IsPool(a) == a.op = "prefetch" /\ a.w >= 2

\* Is the chain free of eager operations (then construction must log nothing)?
RECURSIVE AllLazy(_)
AllLazy(a) ==
  CASE a.op \in {"list", "dict"} -> TRUE
    [] a.op = "lfilter" -> a.lazy /\ AllLazy(a.in)
    [] a.op = "concat" -> AllLazy(a.in)
    [] OTHER -> AllLazy(a.in)

\* Indexable by the reference's lights (lazy filter / unbatch / prefetch are not)
RECURSIVE Indexable(_)
Indexable(a) ==
  CASE a.op \in {"list", "dict"} -> TRUE
    [] a.op = "lfilter" -> ~a.lazy /\ Indexable(a.in)
    [] a.op \in {"unbatch", "prefetch", "catch", "rshuffle", "lshuffle"} -> FALSE
    [] OTHER -> Indexable(a.in)

-----------------------------------------------------------------------------
(* Demand propagation.  A request is [pos |-> sequence of 1-based output   *)
(* positions, slack |-> how many FURTHER positions (in order) may be       *)
(* touched].  Down(a, rq) is the request on a.in.                          *)

MaxOf(ps) == IF ps = <<>> THEN 0 ELSE CHOOSE m \in {ps[j] : j \in 1..Len(ps)} : \A j \in 1..Len(ps) : ps[j] <= m

\* A request: pos = output positions that MUST be produced, in this order;
\* may = further positions that MAY be produced after them, in this order
\* (read-ahead the statement allows); mode "iter": the consumer iterates (it
\* learns about the end of its input only by hitting it); mode "index": the
\* consumer fetches by position (slice, cache, catch, an eager filter's
\* selection, ds[i]); exh: the consumer iterates to the end.
\* mex: the consumer MAY run into the end of this stage's output (a
\* prefetch worker reading ahead past the last example): stages that scan
\* for their end may then scan their whole input.
\* warm: an eager operation above has already evaluated every example at
\* construction, so a cache() below serves everything from memory.
Req(ps, my)  == [pos |-> ps, may |-> my, exh |-> FALSE, mex |-> FALSE, mode |-> "iter", warm |-> FALSE]
IdxReq(ps, my) == [pos |-> ps, may |-> my, exh |-> FALSE, mex |-> FALSE, mode |-> "index", warm |-> FALSE]
ReqAll(n) == [pos |-> Range(1, n), may |-> <<>>, exh |-> TRUE, mex |-> FALSE, mode |-> "iter", warm |-> FALSE]
\* everything after the positions that must be produced may be produced
MayRest(ps, n) == [pos |-> ps, may |-> Range(MaxOf(ps) + 1, n), exh |-> FALSE, mex |-> TRUE, mode |-> "iter",
                   warm |-> FALSE]
Down0(a, rq) ==
  LET nin == Len(Vals(a.in)) IN
  CASE a.op \in {"lmap", "lfmap", "items", "copy", "rshuffle"} -> rq
    [] a.op = "lshuffle" ->
         \* LocalShuffleDataset (shuffle with a buffer): every input is appended to
         \* the buffer; once the buffer holds buffer_size examples each further
         \* input releases one - the k-th output has consumed k + bs - 1 inputs,
         \* read IN SOURCE ORDER; if the input is shorter the buffer is flushed at
         \* its end
         LET k  == Len(rq.pos)
             k2 == k + Len(rq.may)
             Need(j) == IF j = 0 THEN 0 ELSE Min2(nin, j + a.bs - 1)
         IN IF rq.exh \/ (k >= 1 /\ k + a.bs - 1 > nin) THEN ReqAll(nin)
            ELSE IF rq.mex \/ (k2 >= 1 /\ k2 + a.bs - 1 > nin)
                 THEN MayRest(Range(1, Need(k)), nin)
            ELSE Req(Range(1, Need(k)), Range(Need(k) + 1, Need(k2)))
    [] a.op = "lpmap" ->
         \* iterating: lazy_parallel_map pulls at most buffer_size + 1 inputs
         \* beyond what it has delivered; by index (inherited __getitem__): serial
         IF rq.mode = "index" THEN rq
         ELSE LET last == MaxOf(rq.pos \o rq.may)
              IN [rq EXCEPT !.may = rq.may \o Range(last + 1, Min2(nin, last + a.bs + 2)),
                            !.mex = rq.mex \/ last + a.bs + 2 > nin]
    [] a.op = "catch" ->
         \* for i in range(len(input)): input[i], dropping caught failures: the
         \* j-th output is the j-th surviving input
         LET ein == Els(a.in)
             surv == SelectIdx(ein, LAMBDA x : x.ok \/ ~Catches(a.E, x.e), 1)
             UpTo(j) == IF j = 0 THEN 0 ELSE IF j <= Len(surv) THEN surv[j] ELSE nin
             u1 == UpTo(Len(rq.pos))
             u2 == UpTo(Len(rq.pos) + Len(rq.may))
         IN IF rq.exh THEN IdxReq(Range(1, nin), <<>>)
            ELSE IF rq.mex THEN IdxReq(Range(1, u1), Range(u1 + 1, nin))
            ELSE IdxReq(Range(1, u1), Range(u1 + 1, u2))
    [] a.op = "cache" -> IF rq.warm THEN IdxReq(<<>>, <<>>) ELSE IdxReq(rq.pos, rq.may)
    [] a.op = "lfilter" ->
         IF ~a.lazy THEN      \* an eager filter is a selection of the survivors
           LET pass == SelectIdx(Vals(a.in), LAMBDA x : Pred(a.p, x), 1)
           IN IdxReq([j \in 1..Len(rq.pos) |-> pass[rq.pos[j]]], [j \in 1..Len(rq.may) |-> pass[rq.may[j]]])
         ELSE IF rq.exh THEN ReqAll(nin)
         ELSE LET vin == Vals(a.in)
                  pass == SelectIdx(vin, LAMBDA x : Pred(a.p, x), 1)
                  UpTo(j) == IF j = 0 THEN 0 ELSE IF j <= Len(pass) THEN pass[j] ELSE nin
                  u1 == UpTo(Len(rq.pos))
                  u2 == UpTo(Len(rq.pos) + Len(rq.may))
              IN IF rq.mex THEN MayRest(Range(1, u1), nin)
                 ELSE Req(Range(1, u1), Range(u1 + 1, u2))
    [] a.op = "slice" ->
         LET ix == SliceIdx(nin, a.form.a, a.form.b, a.form.c)
         IN IdxReq([j \in 1..Len(rq.pos) |-> ix[rq.pos[j]] + 1], [j \in 1..Len(rq.may) |-> ix[rq.may[j]] + 1])
    [] a.op = "batch" ->
         LET Members(q) == Range((q - 1) * a.b + 1, Min2(q * a.b, nin))
             Mem(ps) == FlatSeq([j \in 1..Len(ps) |-> Members(ps[j])])
         IN IF rq.mode = "index" THEN IdxReq(Mem(rq.pos), Mem(rq.may))
            \* iterating: an incomplete last batch is only emitted when the
            \* input has ended
            ELSE IF rq.exh \/ MaxOf(rq.pos) * a.b > nin THEN ReqAll(nin)
            ELSE IF rq.mex \/ MaxOf(rq.may) * a.b > nin THEN MayRest(Mem(rq.pos), nin)
            ELSE Req(Mem(rq.pos), Mem(rq.may))
    [] a.op = "unbatch" ->
         LET vin == Vals(a.in)
             sizes == [j \in 1..nin |-> Size(vin[j])]
             Cum(m) == SumSeq(SubSeq(sizes, 1, m))
             NeedFor(j) == IF j = 0 THEN 0
                           ELSE IF \E m \in 1..nin : Cum(m) >= j
                           THEN CHOOSE m \in 1..nin : Cum(m) >= j /\ \A q \in 1..(m-1) : Cum(q) < j
                           ELSE nin
             m1 == NeedFor(Len(rq.pos))
             m2 == NeedFor(Len(rq.pos) + Len(rq.may))
         IN IF rq.exh THEN ReqAll(nin)
            ELSE IF rq.mex THEN MayRest(Range(1, m1), nin)
            ELSE Req(Range(1, m1), Range(m1 + 1, m2))
    [] IsPool(a) ->
         \* a worker pool reads its input BY INDEX, in order, and has at most
         \* buffer_size calls submitted beyond what the consumer received
         LET last == MaxOf(rq.pos \o rq.may)
         IN IF rq.exh THEN IdxReq(Range(1, nin), <<>>)
            ELSE IdxReq(rq.pos, rq.may \o Range(last + 1, Min2(nin, last + a.bs)))
    [] a.op = "prefetch" ->
         \* the worker runs at most buffer_size + 2 ahead of the consumer
         LET last == MaxOf(rq.pos \o rq.may)
         IN [rq EXCEPT !.may = rq.may \o Range(last + 1, Min2(nin, last + a.bs + 2)),
                       !.mex = rq.mex \/ last + a.bs + 2 > nin]
    [] OTHER -> rq

Down(a, rq) ==
  LET d == Down0(a, rq) IN
  [d EXCEPT !.warm = rq.warm \/ (a.op = "lfilter" /\ ~a.lazy)]

\* positions of concatenate(in, in2) that fall into `in`
DownConcat0(a, rq) ==
  LET n1 == Len(Vals(a.in))
      Mine(qs) == LET ps == SelectIdx(qs, LAMBDA q : q <= n1, 1) IN [j \in 1..Len(ps) |-> qs[ps[j]]]
  IN IF rq.mode = "index" THEN IdxReq(Mine(rq.pos), Mine(rq.may))
     \* iterating into the second part means the first part was exhausted
     ELSE IF rq.exh \/ MaxOf(rq.pos) > n1 THEN ReqAll(n1)
     \* reading ahead into the second part may exhaust the first
     ELSE IF MaxOf(rq.may) > n1 \/ rq.mex THEN MayRest(Mine(rq.pos), n1)
     ELSE Req(Mine(rq.pos), Mine(rq.may))
DownConcat(a, rq) == [DownConcat0(a, rq) EXCEPT !.warm = rq.warm]

\* flat sequence of the source examples (ints) a value is made of
RECURSIVE Atoms(_)
Atoms(x) == CASE x.t = "i" -> <<x.n>>
              [] x.t = "L" -> FlatSeq([j \in 1..Len(x.xs) |-> Atoms(x.xs[j])])
              [] x.t = "T" -> FlatSeq([j \in 1..Len(x.tp) |-> Atoms(x.tp[j])])
              [] OTHER -> <<>>

\* Expected calls of every logging stage for a request on the top of `a`:
\* sequence of [s |-> stage id, must |-> seq of argument atom-lists that MUST
\* be logged in this order, may |-> further ones that MAY follow in order]
\* un: the calls of this stage are made by SEVERAL pool threads (the stage is a
\* parallel map with >= 2 workers, or sits below a pool prefetch): their order
\* in the log is the order the threads happened to run, so they are compared
\* as bags
RECURSIVE ExpectP(_, _, _)
ExpectP(a, rq, par) ==
  IF a.op \in {"list", "dict"} THEN <<>>
  ELSE LET vin == Vals(a.in)
           ein == Els(a.in)
           here == IF a.op = "concat" THEN DownConcat(a, rq) ELSE Down(a, rq)
           \* the function of this stage is applied to the requested inputs whose
           \* evaluation did not fail below
           ArgsAt(ps) == LET qs == SelectIdx(ps, LAMBDA q : ein[q].ok, 1)
                         IN [j \in 1..Len(qs) |-> Atoms(vin[ps[qs[j]]])]
           mine == IF a.op \in {"lmap", "lfmap", "lpmap"} \/ (a.op = "lfilter" /\ a.lazy)
                   THEN <<[s |-> a.s, must |-> ArgsAt(here.pos), may |-> ArgsAt(here.may),
                           un |-> par \/ (a.op = "lpmap" /\ a.w >= 2)]>>
                   ELSE <<>>
       IN ExpectP(a.in, here, par \/ IsPool(a)) \o mine
Expect(a, rq) == ExpectP(a, rq, FALSE)

-----------------------------------------------------------------------------
(* Verdict on the logs of one real program.  logs:                         *)
(*   build : calls during construction                                     *)
(*   iters : [k, calls] for k = 0 .. : a fresh iterator, k results taken   *)
(*   gets  : [i, ok, calls] for ds[i]                                      *)
(*   getk  : [i, key, ok, calls] for ds[key], key = keys()[i]              *)
(*   srck  : [i, key, ok, calls] for ds[key], key = i-th key of the source *)
(* a call is [s |-> stage, xs |-> atoms of the argument].                  *)

CallsOf(calls, s) == LET ps == SelectIdx(calls, LAMBDA c : c.s = s, 1)
                     IN [j \in 1..Len(ps) |-> calls[ps[j]].xs]
IsPrefix(x, y) == Len(x) <= Len(y) /\ \A j \in 1..Len(x) : x[j] = y[j]

\* the calls of every stage are exactly `must`, possibly followed by a
\* prefix of `may`; no stage outside the expectation is called
CountIn(x, sq) == Cardinality({j \in 1..Len(sq) : sq[j] = x})
SubBag(x, y) == \A j \in 1..Len(x) : CountIn(x[j], x) <= CountIn(x[j], y)
Matches(calls, exp) ==
  /\ \A j \in 1..Len(exp) :
        LET c == CallsOf(calls, exp[j].s) IN
        IF exp[j].un
        THEN SubBag(exp[j].must, c) /\ SubBag(c, exp[j].must \o exp[j].may)
        ELSE /\ IsPrefix(exp[j].must, c)
             /\ IsPrefix(c, exp[j].must \o exp[j].may)
  /\ \A j \in 1..Len(calls) : \E m \in 1..Len(exp) : exp[m].s = calls[j].s

\* chains over a dict source made of stages that hand a key down unchanged
RECURSIVE KeyChain(_)
KeyChain(a) ==
  CASE a.op = "dict" -> TRUE
    [] a.op = "list" -> FALSE
    [] a.op \in {"lmap", "copy"} -> KeyChain(a.in)
    [] a.op = "lfilter" -> a.lazy /\ KeyChain(a.in)
    [] OTHER -> FALSE
\* [alive, exp]: is the example of source position p still alive above `a`,
\* and the expected calls (bottom stage first)
RECURSIVE KeyWalk(_, _)
KeyWalk(a, p) ==
  IF a.op = "dict" THEN [alive |-> TRUE, exp |-> <<>>, v |-> I(a.src[p])]
  ELSE LET below == KeyWalk(a.in, p) IN
       IF a.op = "copy" THEN below
       ELSE LET call == [s |-> a.s, must |-> IF below.alive THEN <<Atoms(below.v)>> ELSE <<>>,
                         may |-> <<>>, un |-> FALSE]
            IN [alive |-> below.alive /\ (a.op # "lfilter" \/ Pred(a.p, below.v)),
                exp |-> below.exp \o <<call>>, v |-> below.v]
KeyExpect(a, p) == KeyWalk(a, p).exp

V_C08(a, logs) ==
  LET n  == Len(Vals(a))
      fe == FirstErr(Els(a))                     \* first example whose evaluation raises (0: none)
      avail == IF fe = 0 THEN n ELSE fe - 1      \* results an iteration delivers before that
      \* pulling k results; asking for more than there are exhausts the
      \* pipeline, or runs into the failure
      IterReq(k) == IF k <= avail THEN Req(Range(1, k), <<>>)
                    ELSE IF fe = 0 THEN ReqAll(n) ELSE Req(Range(1, fe), <<>>)
      Raises(k) == fe # 0 /\ k > avail
  IN
  IF logs.exc # "none" THEN <<"viol", "supported-pipeline-refused">>
  ELSE IF \E j \in 1..Len(logs.iters) : (logs.iters[j].exc # "none") # Raises(logs.iters[j].k)
       THEN <<"viol", "iteration-raises-or-swallows-unexpectedly">>
  ELSE IF AllLazy(a) /\ logs.build # <<>> THEN <<"viol", "user-function-called-during-construction">>
  ELSE IF \E j \in 1..Len(logs.iters) :
            ~Matches(logs.iters[j].calls, Expect(a, IterReq(logs.iters[j].k)))
       THEN <<"viol", "iteration-prefix-evaluates-other-than-what-is-needed">>
  ELSE IF \E j \in 1..Len(logs.gets) :
            /\ Indexable(a) /\ logs.gets[j].i < n
            /\ ~Matches(logs.gets[j].calls, Expect(a, IdxReq(<<logs.gets[j].i + 1>>, <<>>)))
       THEN <<"viol", "getitem-evaluates-other-than-its-constituents">>
  \* ds[key]: the key of output position i + 1 (only where keys() lists the keys)
  ELSE IF \E j \in 1..Len(logs.getk) :
            /\ Indexable(a) /\ DRef(a).kcap = "keys" /\ logs.getk[j].i < n
            /\ logs.getk[j].key = Els(a)[logs.getk[j].i + 1].k
            /\ ~Matches(logs.getk[j].calls, Expect(a, IdxReq(<<logs.getk[j].i + 1>>, <<>>)))
       THEN <<"viol", "key-lookup-evaluates-other-than-its-constituents">>
  \* ds[key] through stages that are not indexable by position but forward a key
  \* (lazy filter): every logging stage on the way is applied exactly ONCE to the
  \* example stored under the key, bottom-up, until a filter rejects it
  ELSE IF KeyChain(a) /\ \E j \in 1..Len(logs.srck) :
            ~Matches(logs.srck[j].calls, KeyExpect(a, logs.srck[j].i + 1))
       THEN <<"viol", "key-lookup-through-lazy-stages-evaluates-other-than-once">>
  ELSE IF n = 0 THEN <<"trivial", "empty">> ELSE <<"ok", "">>

-----------------------------------------------------------------------------
(* Program enumeration                                                     *)
KeyNames == <<"a", "b", "c", "d", "e">>
Sources ==
  [n \in 1..(MaxLen + 1) |-> [op |-> "list", src |-> Range(1, n - 1), pl |-> "i", iw |-> "pickle"]]
  \o [n \in 1..MaxLen |-> [op |-> "dict", ks |-> SubSeq(KeyNames, 1, n),
                            src |-> Range(1, n), pl |-> "i", iw |-> "pickle"]]
Second == [op |-> "list", src |-> <<7, 8>>, pl |-> "i", iw |-> "pickle"]

Ops(s) ==
  <<[op |-> "lmap", s |-> s],
    [op |-> "lfmap", s |-> s, p |-> [pn |-> "even"]],
    [op |-> "lpmap", s |-> s, p |-> [pn |-> "never"], w |-> 2, bs |-> 2],
    [op |-> "lpmap", s |-> s, p |-> [pn |-> "odd"], w |-> 1, bs |-> 2],
    [op |-> "lfilter", s |-> s, p |-> [pn |-> "even"], lazy |-> TRUE],
    [op |-> "lfilter", s |-> s, p |-> [pn |-> "gt1"], lazy |-> TRUE],
    [op |-> "lfilter", s |-> s, p |-> [pn |-> "even"], lazy |-> FALSE],
    [op |-> "slice", s |-> s, form |-> [fk |-> "sl", a |-> 1, b |-> NONE, c |-> NONE]],
    [op |-> "slice", s |-> s, form |-> [fk |-> "sl", a |-> NONE, b |-> NONE, c |-> 0 - 1]],
    [op |-> "slice", s |-> s, form |-> [fk |-> "sl", a |-> NONE, b |-> NONE, c |-> 2]],
    [op |-> "batch", s |-> s, b |-> 2, drop |-> FALSE],
    [op |-> "batch", s |-> s, b |-> 2, drop |-> TRUE],
    [op |-> "unbatch", s |-> s],
    [op |-> "items", s |-> s],
    [op |-> "copy", s |-> s, freeze |-> FALSE],
    [op |-> "cache", s |-> s, lazy |-> TRUE],
    [op |-> "catch", s |-> s, E |-> "Filter"],
    [op |-> "prefetch", s |-> s, w |-> 1, bs |-> 1, cfe |-> "none"],
    [op |-> "prefetch", s |-> s, w |-> 1, bs |-> 2, cfe |-> "none"],
    [op |-> "prefetch", s |-> s, w |-> 2, bs |-> 2, cfe |-> "none"]>>
  \o <<[op |-> "lshuffle", s |-> s, seed |-> 7, bs |-> 2], [op |-> "lshuffle", s |-> s, seed |-> 3, bs |-> 3]>>
  \o (IF WithShuffle THEN <<[op |-> "rshuffle", s |-> s, seed |-> 7]>> ELSE <<>>)

RECURSIVE HasLocalShuffle(_)
HasLocalShuffle(a) == IF a.op \in {"list", "dict"} THEN FALSE ELSE a.op = "lshuffle" \/ HasLocalShuffle(a.in)

RECURSIVE HasPool(_)
HasPool(a) == IF a.op \in {"list", "dict"} THEN FALSE ELSE IsPool(a) \/ HasPool(a.in)

Apply(desc, a) == [x \in (DOMAIN desc) \cup {"in"} |-> IF x = "in" THEN a ELSE desc[x]]

\* applicability by the reference's lights (keeps the family inside what the
\* library supports; anything else would be refused at construction)
Applicable(d, a) ==
  \* a failing stage is only ever the top of a program or directly below catch()
  IF Failing(a) THEN d.op = "catch" /\ Indexable(a)
  \* the order a buffered shuffle delivers is not modelled: nothing on top of it
  ELSE IF HasLocalShuffle(a) THEN FALSE
  ELSE IF d.op \in {"lfmap", "lpmap"} /\ Vals(a) # <<>> /\ \E j \in 1..Len(Vals(a)) : Vals(a)[j].t # "i"
  THEN FALSE          \* the failing predicates are defined on plain examples
  ELSE
  CASE d.op = "slice" -> Indexable(a)
    [] d.op = "lfilter" /\ ~d.lazy -> Indexable(a)
    [] d.op \in {"cache", "catch"} -> Indexable(a)
    [] IsPool(d) -> Indexable(a)
    [] d.op = "unbatch" -> Vals(a) # <<>> /\ \A j \in 1..Len(Vals(a)) : Vals(a)[j].t = "L"
    \* (items() above a pool prefetch is refused loudly by the library:
    \*  PrefetchDataset has no keys() to hand to its pool)
    [] d.op = "items" -> DRef(a).kcap # "none" /\ a.op \notin {"batch", "unbatch"} /\ ~HasPool(a)
    [] OTHER -> TRUE

Init == depth = 0 /\ \E j \in 1..Len(Sources) : prog = Sources[j]
Next == /\ depth < Depth
        /\ depth' = depth + 1
        /\ \/ \E j \in 1..Len(Ops(depth + 1)) :
                Applicable(Ops(depth + 1)[j], prog) /\ prog' = Apply(Ops(depth + 1)[j], prog)
           \/ ~Failing(prog) /\ prog' = [op |-> "concat", s |-> depth + 1, in |-> prog, in2 |-> Second]
Spec == Init /\ [][Next]_<<prog, depth>>
Emit == PrintT(<<"VEC", ToJson([prog |-> prog, n |-> Len(Vals(prog)), idx |-> Indexable(prog),
                                lazy |-> AllLazy(prog)])>>)
=============================================================================
