CONSTANT N = 0
SPECIFICATION TSpec
INVARIANT Judge
CHECK_DEADLOCK FALSE
