--------------------------- MODULE IsolationTrace ---------------------------
(***************************************************************************)
(* TRACE VALIDATION for example isolation (C09): code -> spec.             *)
(*                                                                         *)
(* The trace file (ndjson, env TRACE_FILE) holds one record per history    *)
(* EXECUTED on the real library by harness/check_isolation.py:             *)
(*   [id, par, hist, obs]                                                  *)
(*   par  = [mode, src, k]        storage mode, container kind, #examples  *)
(*   hist = <<[op, path, k, h, lvl]>>   accesses and in-place mutations    *)
(*   obs  = [steps |-> <<[exc, tv, nv, at, an, ast, asn]>>  per step: the  *)
(*                     content of the returned example (deep comparison    *)
(*                     with the expected shape) and its identities (`is`)  *)
(*           final |-> <<[path, k, exc, tv, nv]>>]  every example re-read  *)
(*                     through every path after the history                *)
(* For every record TLC evaluates V_C09 (Isolation.tla) on the REAL        *)
(* observation and compares it with the heap model's prediction.           *)
(***************************************************************************)
EXTENDS Integers, Sequences, TLC, Json, IOUtils

\* the enumeration constants of Isolation.tla are irrelevant here
Pars == {}  K == 0  Depth == 0  Paths == {}  Lvls == {}  MaxHand == 0
MaxMo == 0  Rebind == FALSE
VARIABLES par, st, hist, mobs
M == INSTANCE Isolation

TraceLog == ndJsonDeserialize(IOEnv.TRACE_FILE)
NRec == Len(TraceLog)

VARIABLE l
Init == l = 1 /\ par = 0 /\ st = 0 /\ hist = 0 /\ mobs = 0
Next == /\ \E c \in {2 * l, 2 * l + 1} : c <= NRec /\ l' = c
        /\ UNCHANGED <<par, st, hist, mobs>>
Spec == Init /\ [][Next]_<<l, par, st, hist, mobs>>

Judge ==
  l <= NRec =>
    LET rec == TraceLog[l]
        m   == M!ModelRun(rec.par, rec.hist)
    IN PrintT(<<"VERDICT", ToJson(
         [id |-> rec.id,
          C09 |-> M!V_C09(rec.par, rec.hist, rec.obs),
          mv  |-> M!V_C09(rec.par, rec.hist, m),
          conf |-> M!ConformsAt(rec.obs, m)])>>)
=============================================================================
