------------------------------- MODULE Defects -------------------------------
(***************************************************************************)
(* Which of the defects found in fgnt/lazy_dataset are modelled with their *)
(* ORIGINAL (defective) behaviour.  A defect leaves this set when its      *)
(* "fix:" commit lands in /repo; defects recorded as known findings stay.  *)
(* The harness regenerates this module from /verif/known_findings.json     *)
(* (harness/findings.py); the scenario "original tree" uses all of them    *)
(* and is how TLC re-discovers every defect from the specification.        *)
(***************************************************************************)
Unfixed == {"S1", "S2", "S3", "S4", "S5", "S6", "S7", "S8", "S9", "S10",
            "S11", "S12", "S13"}
=============================================================================
