--------------------------- MODULE DiskCacheTrace ---------------------------
(***************************************************************************)
(* TRACE VALIDATION for C11 (disk cache lifecycles): code -> spec.         *)
(*                                                                         *)
(* The trace file (ndjson, env TRACE_FILE) holds one record per EXECUTED   *)
(* lifecycle on a REAL directory:                                          *)
(*   [id, n, init, hist, obs]                                              *)
(*     n     number of examples of the upstream dataset                    *)
(*     init  state of the directory before the first action                *)
(*           ("absent" | "empty" | "foreign" | "db")                       *)
(*     hist  the actions (DiskCache!ActOpen .. ActKill, uniform records)   *)
(*     obs   per step what harness/check_diskcache.py saw on the real      *)
(*           library: [ok, e, c, exc, calls, ex, ne] = value <<e,c>> or    *)
(*           exception class; upstream counters; directory exists / is     *)
(*           non-empty after the step                                      *)
(* For every record TLC evaluates, with the very operators of the design   *)
(* level check,                                                            *)
(*   - V_C11 on the REAL observation (decides the property),               *)
(*   - V_C11 on the model's own observation of the same history (mst),     *)
(*   - whether the real observation is the one the model predicts          *)
(*     (conformance; dstep = first differing step, -1 = length).           *)
(* Records are independent: heap-index tree over the record numbers, so    *)
(* TLC's workers judge records in parallel; one VERDICT line per record.   *)
(* The constants / variables of DiskCache are not used here (n comes with  *)
(* each record); the variables are pinned to their initial value.          *)
(***************************************************************************)
EXTENDS DiskCache, IOUtils

TraceLog == ndJsonDeserialize(IOEnv.TRACE_FILE)
NRec == Len(TraceLog)

VARIABLE l
TraceInit == /\ l = 1
             /\ init0 = "absent" /\ dir = Absent /\ wr = <<>> /\ hd = <<>>
             /\ calls = <<>> /\ hist = <<>> /\ obs = <<>>
TraceNext == /\ \E c \in {2 * l, 2 * l + 1} : c <= NRec /\ l' = c
             /\ UNCHANGED vars
TraceSpec == TraceInit /\ [][TraceNext]_<<l, vars>>

Judge ==
  l <= NRec =>
    LET rec == TraceLog[l]
        m   == RunModel(rec.n, rec.init, rec.hist)
        v   == V_C11(rec.n, rec.init, rec.hist, rec.obs)
        mv  == V_C11(rec.n, rec.init, rec.hist, m)
        d   == DriftAt(rec.obs, m)
    IN PrintT(<<"VERDICT", ToJson(
         [id |-> rec.id, C11 |-> <<v.st, v.clause>>, also |-> v.also,
          step |-> v.step, mech |-> v.mech, silent |-> v.silent, nt |-> v.nt,
          mst |-> mv.st, mclause |-> mv.clause,
          conf |-> IF d = 0 THEN "conforms" ELSE "drift", dstep |-> d])>>)
=============================================================================
