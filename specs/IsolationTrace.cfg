SPECIFICATION Spec
INVARIANT Judge
CHECK_DEADLOCK FALSE
