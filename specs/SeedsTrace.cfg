CONSTANTS
  MaxN = 0
  MaxN2 = 0
  AdvMax = 0
  SeedSet = {}
SPECIFICATION TSpec
INVARIANT Judge
CHECK_DEADLOCK FALSE
