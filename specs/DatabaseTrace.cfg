CONSTANTS
  Family = "none"
  Rich = 0
  MaxHist = 0
SPECIFICATION TraceSpec
INVARIANT Judge
CHECK_DEADLOCK FALSE
