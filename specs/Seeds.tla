-------------------------------- MODULE Seeds --------------------------------
(***************************************************************************)
(* SEEDED RANDOM STAGES, COPIES AND PREFETCH (property C13).               *)
(*                                                                         *)
(* Generators are EXPLICIT STREAMS: rng[g] = [seed, pos]; the answer to    *)
(* the next call is a fixed (uninterpreted, here: Lehmer-decoded) function *)
(* of (seed, pos) and the size asked for, and the call advances pos.       *)
(* g = 0 is the GLOBAL numpy generator (np.random.xyz), which an adversary   *)
(* re-seeds between steps; the generator handed to the random stage at     *)
(* depth d of a pipeline is g = d, seeded seed + d in every twin build.    *)
(*                                                                         *)
(* Transcribed code (lazy_dataset/core.py), state that survives an epoch:  *)
(*   ReShuffleDataset    obj[oid] = `_permutation`, shuffled IN PLACE (so  *)
(*                       epoch e's order is the composition of e answers); *)
(*                       copy(False) = NEW object (fresh arange) around    *)
(*                       input.copy(), rng NOT passed on ("S8" \in Unfixed)*)
(*                       copy(True)  = input.copy(True)[self.permutation]  *)
(*                       (draws from the stream, advances the shared array)*)
(*   LocalShuffleDataset stateless; copy(freeze) = same class without rng  *)
(*                       ("S8"); freeze does not freeze it (documented:    *)
(*                       "Only effects ReShuffleDataset at the moment")    *)
(*   Dataset.shuffle(False)  permutation drawn at BUILD time -> SliceDataset*)
(*   ApplyDataset(lazy)  apply_function = the `ReShuffle` callable of the  *)
(*                       class docstring (own permutation array obj[oid] + *)
(*                       own rng); __iter__ = copy(freeze=True) then iterate*)
(*                       copy(False) keeps the SAME callable (shared state)*)
(*   ConcatenateDataset.copy copies each input separately: a dataset object*)
(*                       that occurs twice (ds.concatenate(ds)) is TWO     *)
(*                       objects in the copy                               *)
(*   PrefetchDataset     (1, b): iterates the input in a thread;           *)
(*                       (w>1, b): needs len() at construction, then per   *)
(*                       epoch input.copy(freeze=True) and integer indexing*)
(*   `ordered`           of every stage                                    *)
(*                                                                         *)
(* Field types: op, rc, exc, ord : STRING   n, bs, g, oid, m, seed, pos :  *)
(* Int   idx, out, sg : Seq(Int)   in, in2, tm : term record               *)
(***************************************************************************)
EXTENDS Values, Defects, Json

-----------------------------------------------------------------------------
(* Streams                                                                 *)

RECURSIVE Fact(_)
Fact(m) == IF m <= 1 THEN 1 ELSE m * Fact(m - 1)
DropAt(s, j) == SubSeq(s, 1, j - 1) \o SubSeq(s, j + 1, Len(s))
RECURSIVE Lehmer(_, _)      \* the idx-th arrangement of `items`
Lehmer(items, idx) ==
  IF items = <<>> THEN <<>>
  ELSE LET f == Fact(Len(items) - 1)
           q == idx \div f
       IN <<items[q + 1]>> \o Lehmer(DropAt(items, q + 1), idx % f)
Mix(seed, pos) == seed * 7 + pos * 3 + seed * pos + 1
\* (32-bit integers: beyond 8! a rotation stands for "some fixed arrangement")
AnsPerm(seed, pos, m) ==
  IF m <= 8 THEN Lehmer(Range(1, m), Mix(seed, pos) % Fact(m))
  ELSE [i \in 1..m |-> ((i - 1 + Mix(seed, pos)) % m) + 1]
AnsChoice(seed, pos, k) == Mix(seed, pos) % k

ApplyPerm(a, sg) == [i \in 1..Len(a) |-> a[sg[i]]]
Arange(n) == Range(0, n - 1)

MaxGen == 8
Env0(seed, gseed) ==
  [rng |-> [g \in 0..MaxGen |-> IF g = 0 THEN [seed |-> gseed, pos |-> 0]
                                ELSE [seed |-> seed + g, pos |-> 0]],
   obj |-> [x \in {} |-> <<>>],
   log |-> <<>>]
Reseed(env, k) == [env EXCEPT !.rng[0] = [seed |-> k, pos |-> 0]]
ObjArr(env, oid, n) == IF oid \in DOMAIN env.obj THEN env.obj[oid] ELSE Arange(n)
SetObj(env, oid, a) ==
  [env EXCEPT !.obj = [x \in (DOMAIN env.obj) \cup {oid} |-> IF x = oid THEN a ELSE env.obj[x]]]
DrawPerm(env, g, m) ==
  [sg  |-> AnsPerm(env.rng[g].seed, env.rng[g].pos, m),
   env |-> [env EXCEPT !.rng[g].pos = @ + 1,
                       !.log = Append(@, [g |-> g, rc |-> "shuffle", m |-> m])]]
DrawChoice(env, g, k) ==
  [c   |-> AnsChoice(env.rng[g].seed, env.rng[g].pos, k),
   env |-> [env EXCEPT !.rng[g].pos = @ + 1,
                       !.log = Append(@, [g |-> g, rc |-> "choice", m |-> k])]]

-----------------------------------------------------------------------------
(* Programs (what the user writes) and built terms (the object graph).     *)
(*   program ops: src map batch concatself slice reshuffle local once apply*)
(*   term ops   : src map batch concatself concat sel reshuffle local apply*)

RECURSIVE DepthOf(_)
DepthOf(p) == IF p.op = "src" THEN 0 ELSE 1 + DepthOf(p.in)

RECURSIVE LenT(_)
LenT(t) == CASE t.op = "src"        -> t.n
             [] t.op = "sel"        -> Len(t.idx)
             [] t.op = "concat"     -> LenT(t.in) + LenT(t.in2)
             [] t.op = "concatself" -> 2 * LenT(t.in)
             [] OTHER               -> LenT(t.in)     \* batch: modelled flattened

RECURSIVE Indexable(_)
Indexable(t) == CASE t.op = "src" -> TRUE
                  [] t.op \in {"reshuffle", "local", "apply"} -> FALSE
                  [] t.op = "concat" -> Indexable(t.in) /\ Indexable(t.in2)
                  [] OTHER -> Indexable(t.in)
RECURSIVE LenDefined(_)      \* ApplyDataset has no __len__
LenDefined(t) == CASE t.op = "src" -> TRUE
                   [] t.op = "apply" -> FALSE
                   [] t.op = "concat" -> LenDefined(t.in) /\ LenDefined(t.in2)
                   [] OTHER -> LenDefined(t.in)
RECURSIVE OrderedT(_)        \* the `ordered` properties
OrderedT(t) == CASE t.op = "src" -> TRUE
                 [] t.op \in {"reshuffle", "local", "apply"} -> FALSE
                 [] t.op = "concat" -> OrderedT(t.in) /\ OrderedT(t.in2)
                 [] OTHER -> OrderedT(t.in)

RECURSIVE HasOp(_, _)
HasOp(p, ops) == p.op \in ops \/ (p.op # "src" /\ HasOp(p.in, ops))
PerEpoch(p)  == HasOp(p, {"reshuffle", "local", "apply"})   \* reshuffling stage, not frozen
HasLocal(p)  == HasOp(p, {"local"})

\* constructing the pipeline: Dataset.shuffle(False) draws NOW
RECURSIVE Build(_, _)
Build(p, env) ==
  IF p.op = "src" THEN [tm |-> p, env |-> env]
  ELSE LET b == Build(p.in, env)
           d == DepthOf(p)
       IN CASE p.op = "once" ->
                 LET dr == DrawPerm(b.env, d, LenT(b.tm))
                 IN [tm |-> [op |-> "sel", idx |-> ApplyPerm(Arange(LenT(b.tm)), dr.sg),
                             in |-> b.tm], env |-> dr.env]
            [] p.op = "slice" ->      \* ds[1:]
                 [tm |-> [op |-> "sel", idx |-> Range(1, LenT(b.tm) - 1), in |-> b.tm],
                  env |-> b.env]
            [] p.op = "reshuffle" ->
                 [tm |-> [op |-> "reshuffle", g |-> d, oid |-> d, in |-> b.tm], env |-> b.env]
            [] p.op = "apply" ->
                 [tm |-> [op |-> "apply", g |-> d, oid |-> d, in |-> b.tm], env |-> b.env]
            [] p.op = "local" ->
                 [tm |-> [op |-> "local", bs |-> p.bs, g |-> d, in |-> b.tm], env |-> b.env]
            [] OTHER -> [tm |-> [op |-> p.op, in |-> b.tm], env |-> b.env]

\* LocalShuffleDataset.__iter__ over the input order xs
LocalRun(xs, bs, g, env0) ==
  LET RECURSIVE Go(_, _, _, _)
      Go(j, buf, out, env) ==
        IF j <= Len(xs)
        THEN LET b1 == Append(buf, xs[j]) IN
             IF Len(b1) >= bs
             THEN LET dr == DrawChoice(env, g, bs)
                  IN Go(j + 1, DropAt(b1, dr.c + 1), Append(out, b1[dr.c + 1]), dr.env)
             ELSE Go(j + 1, b1, out, env)
        ELSE LET dr == DrawPerm(env, g, Len(buf))
             IN [out |-> out \o ApplyPerm(buf, dr.sg), env |-> dr.env]
  IN Go(1, <<>>, <<>>, env0)

\* one epoch: list(ds)
RECURSIVE IterT(_, _)
IterT(t, env) ==
  CASE t.op = "src" -> [out |-> Arange(t.n), env |-> env]
    [] t.op = "map" -> LET r == IterT(t.in, env)
                       IN [out |-> [j \in 1..Len(r.out) |-> r.out[j] + 10], env |-> r.env]
    [] t.op = "sel" -> LET r == IterT(t.in, env)     \* indexable input: draws nothing
                       IN [out |-> [j \in 1..Len(t.idx) |-> r.out[t.idx[j] + 1]], env |-> r.env]
    [] t.op \in {"reshuffle", "apply"} ->
         LET r  == IterT(t.in, env)
             n  == Len(r.out)
             dr == DrawPerm(r.env, t.g, n)
             a1 == ApplyPerm(ObjArr(dr.env, t.oid, n), dr.sg)
         IN [out |-> [j \in 1..n |-> r.out[a1[j] + 1]], env |-> SetObj(dr.env, t.oid, a1)]
    [] t.op = "local" -> LET r == IterT(t.in, env) IN LocalRun(r.out, t.bs, t.g, r.env)
    [] t.op = "concat" -> LET r1 == IterT(t.in, env)
                              r2 == IterT(t.in2, r1.env)
                          IN [out |-> r1.out \o r2.out, env |-> r2.env]
    [] t.op = "concatself" -> LET r1 == IterT(t.in, env)
                                  r2 == IterT(t.in, r1.env)     \* the SAME object again
                              IN [out |-> r1.out \o r2.out, env |-> r2.env]
    [] OTHER -> IterT(t.in, env)                     \* batch (flattened)

\* ds.copy(freeze): `tag` numbers the copies so that new objects get new ids
RECURSIVE CopyT(_, _, _, _)
CopyT(t, fz, env, tag) ==
  CASE t.op = "src" -> [tm |-> t, env |-> env]
    [] t.op = "reshuffle" ->
         LET c == CopyT(t.in, fz, env, tag) IN
         IF fz
         THEN LET n  == LenT(t.in)
                  dr == DrawPerm(c.env, t.g, n)
                  a1 == ApplyPerm(ObjArr(dr.env, t.oid, n), dr.sg)
              IN [tm |-> [op |-> "sel", idx |-> a1, in |-> c.tm], env |-> SetObj(dr.env, t.oid, a1)]
         ELSE [tm |-> [op |-> "reshuffle", oid |-> t.oid + 100 * tag, in |-> c.tm,
                       g |-> IF "S8" \in Unfixed THEN 0 ELSE t.g],
               env |-> c.env]
    [] t.op = "local" ->
         LET c == CopyT(t.in, fz, env, tag)
         IN [tm |-> [op |-> "local", bs |-> t.bs, in |-> c.tm,
                     g |-> IF "S8" \in Unfixed THEN 0 ELSE t.g],
             env |-> c.env]
    [] t.op = "apply" ->
         IF fz    \* self.apply_function(self.input_dataset).copy(freeze=True)
         THEN LET n  == LenT(t.in)
                  dr == DrawPerm(env, t.g, n)
                  a1 == ApplyPerm(ObjArr(dr.env, t.oid, n), dr.sg)
                  c  == CopyT(t.in, fz, SetObj(dr.env, t.oid, a1), tag)
              IN [tm |-> [op |-> "sel", idx |-> a1, in |-> c.tm], env |-> c.env]
         ELSE LET c == CopyT(t.in, fz, env, tag)     \* same callable: shared state
              IN [tm |-> [t EXCEPT !.in = c.tm], env |-> c.env]
    [] t.op = "concat" ->
         LET c1 == CopyT(t.in, fz, env, 2 * tag)
             c2 == CopyT(t.in2, fz, c1.env, 2 * tag + 1)
         IN [tm |-> [op |-> "concat", in |-> c1.tm, in2 |-> c2.tm], env |-> c2.env]
    [] t.op = "concatself" ->
         LET c1 == CopyT(t.in, fz, env, 2 * tag)
             c2 == CopyT(t.in, fz, c1.env, 2 * tag + 1)
         IN [tm |-> [op |-> "concat", in |-> c1.tm, in2 |-> c2.tm], env |-> c2.env]
    [] OTHER -> LET c == CopyT(t.in, fz, env, tag)
                IN [tm |-> [t EXCEPT !.in = c.tm], env |-> c.env]

-----------------------------------------------------------------------------
(* A run: build (twin), wrap, iterate E epochs, the adversary re-seeding   *)
(* the global generator at the points in `adv`:                            *)
(*   1 before the build, 2 before copy()/prefetch(), 2 + e before epoch e  *)
(* with the value base + point (the harness does np.random.seed(value)).   *)

Epochs == 3
Adv(env, adv, base, point) == IF point \in adv THEN Reseed(env, base + point) ELSE env
BoolStr(b) == IF b THEN "true" ELSE "false"

RunOut(orders, exc, ord, log) == [orders |-> orders, exc |-> exc, ord |-> ord, log |-> log]

Run(prog, wrap, adv, base, seed) ==
  LET e0 == Adv(Env0(seed, base), adv, base, 1)
      b  == Build(prog, e0)
      e1 == Adv(b.env, adv, base, 2)
      \* the object that is iterated, as [tm, env, exc]
      w  == CASE wrap = "copy"   -> CopyT(b.tm, FALSE, e1, 1)
              [] wrap = "freeze" -> CopyT(b.tm, TRUE, e1, 1)
              [] OTHER           -> [tm |-> b.tm, env |-> e1]
      RECURSIVE Go(_, _, _)
      Go(e, env, orders) ==
        IF e > Epochs THEN RunOut(orders, "none", BoolStr(OrderedT(w.tm)), env.log)
        ELSE LET ea == Adv(env, adv, base, 2 + e) IN
             IF wrap = "pf2"
             THEN LET c == CopyT(w.tm, TRUE, ea, 1) IN     \* frozen copy per epoch
                  IF ~Indexable(c.tm) /\ LenT(c.tm) > 0     \* input_dataset[index] raises
                  THEN RunOut(orders, "TypeError", BoolStr(OrderedT(w.tm)), c.env.log)
                  ELSE IF ~Indexable(c.tm) THEN Go(e + 1, c.env, Append(orders, <<>>))
                  ELSE LET r == IterT(c.tm, c.env) IN Go(e + 1, r.env, Append(orders, r.out))
             ELSE LET r == IterT(w.tm, ea) IN Go(e + 1, r.env, Append(orders, r.out))
  IN IF wrap = "pf2" /\ ~LenDefined(b.tm)
     THEN RunOut(<<>>, "RuntimeError", "none", e1.log)      \* refused at construction
     ELSE Go(1, w.env, <<>>)

\* the four runs of one scenario: twins A and B see the same global seeds
\* (base 10), A2 and the wrapped W a different global history (base 20)
Scenario(prog, wrap, adv, seed) == [prog |-> prog, wrap |-> wrap, adv |-> adv, seed |-> seed]
ModelObs(s) ==
  LET a == Run(s.prog, "none", s.adv, 10, s.seed) IN
  [A  |-> a,
   B  |-> a,
   A2 |-> Run(s.prog, "none", s.adv, 20, s.seed),
   W  |-> Run(s.prog, s.wrap, s.adv, 20, s.seed)]

-----------------------------------------------------------------------------
(* PROPERTY C13 over (scenario, observation).  obs.X = [orders, exc, ord,  *)
(* log]: per epoch the examples in the order yielded (batches flattened),  *)
(* the exception class that ended the run ("none"), ds.ordered, and the    *)
(* rng calls [g, rc, m] (g = 0: the global numpy generator served it).     *)

AllSame(orders) == \A e \in 1..Len(orders) : orders[e] = orders[1]
UsesGlobal(log) == \E j \in 1..Len(log) : log[j].g = 0
RECURSIVE SrcLen(_)
SrcLen(p) == IF p.op = "src" THEN p.n ELSE SrcLen(p.in)

WrapClause(s, o) ==
  CASE s.wrap = "copy" ->
         IF o.W.exc # "none" \/ o.W.orders # o.A.orders THEN "CopyAgrees" ELSE ""
    [] s.wrap \in {"pf1", "pf2"} ->
         IF o.W.exc # "none" THEN ""                 \* refuses loudly: nothing to compare
         ELSE IF o.W.orders # o.A.orders THEN "PrefetchAgrees" ELSE ""
    [] s.wrap = "freeze" ->
         \* "copy(freeze=True) of a per-epoch reshuffle": properties.jsonl calls
         \* ReShuffleDataset "reshuffle per epoch" and LocalShuffleDataset
         \* "buffer-local shuffle" (C12); Dataset.copy documents that freeze
         \* "only effects ReShuffleDataset" - a local shuffle below is not covered
         IF HasLocal(s.prog) THEN ""
         ELSE IF o.W.exc # "none" \/ ~AllSame(o.W.orders) THEN "FrozenFixed" ELSE ""
    [] OTHER -> ""

RECURSIVE AliasedReshuffle(_)
AliasedReshuffle(p) ==
  IF p.op = "src" THEN FALSE
  ELSE (p.op = "concatself" /\ HasOp(p.in, {"reshuffle"})) \/ AliasedReshuffle(p.in)

S8Clause(wc) == CASE wc = "CopyAgrees"     -> "S8:copy-drops-rng:CopyAgrees"
                  [] wc = "PrefetchAgrees" -> "S8:copy-drops-rng:PrefetchAgrees"
                  [] OTHER                 -> "S8:copy-drops-rng:FrozenFixed"
S8Clauses == {S8Clause(c) : c \in {"CopyAgrees", "PrefetchAgrees", "FrozenFixed"}}
              \cup {"S8:copy-drops-rng:CopyKeepsParams"}

V_C13(s, o) ==
  LET wc == WrapClause(s, o) IN
  IF o.A.exc # "none" THEN <<"trivial", "pipeline-refused">>
  ELSE IF o.B.exc # o.A.exc \/ o.B.orders # o.A.orders THEN <<"viol", "TwinsAgree">>
  ELSE IF o.A2.exc # o.A.exc \/ o.A2.orders # o.A.orders THEN <<"viol", "GlobalIndependent">>
  ELSE IF ~PerEpoch(s.prog) /\ ~AllSame(o.A.orders) THEN <<"viol", "FrozenFixed">>
  ELSE IF PerEpoch(s.prog) /\ o.A.ord # "false" THEN <<"viol", "Unordered">>
  ELSE IF wc # ""
       \* classification: the violation is S8 exactly when the copied pipeline
       \* drew from the GLOBAL generator although every stage was given its own
       THEN IF UsesGlobal(o.W.log) /\ ~UsesGlobal(o.A.log) /\ HasOp(s.prog, {"reshuffle", "local"})
            THEN <<"viol", S8Clause(wc)>>
            \* a second, independent way to break CopyAgrees (found by TLC on the
            \* repaired model): ds.concatenate(ds) holds ONE ReShuffleDataset twice,
            \* its copy holds TWO objects with separate in-place permutations
            ELSE IF wc = "CopyAgrees" /\ AliasedReshuffle(s.prog)
            THEN <<"viol", "CopyAgrees:copy-unshares-reshuffle-object">>
            ELSE <<"viol", wc>>
  ELSE IF SrcLen(s.prog) <= 1 THEN <<"trivial", "fewer-than-two-examples">>
  ELSE <<"ok", "">>

\* conformance of a real observation with the model: same refusals, same
\* `ordered`, the same generators served the same calls in the same order
\* (the ORDERS themselves depend on numpy's streams, not modelled)
\* streams are independent: the calls are compared per generator (how the calls
\* of DIFFERENT generators interleave depends on how lazily a stage pulls)
CallsOf(log, g) == SelectSeq(log, LAMBDA c : c.g = g)
\* ... and of the global generator only the bag of calls: when S8 makes two
\* stages fall back to it, their calls interleave as lazily as the upper stage
\* pulls, which IterT (input first) does not model
BagOf(log) ==
  LET ks == {<<log[j].rc, log[j].m>> : j \in 1..Len(log)}
  IN [k \in ks |-> Cardinality({j \in 1..Len(log) : <<log[j].rc, log[j].m>> = k})]
Skel(r) == [refused |-> r.exc # "none", ord |-> r.ord, epochs |-> Len(r.orders),
            log |-> [g \in 1..MaxGen |-> CallsOf(r.log, g)],
            glob |-> BagOf(CallsOf(r.log, 0))]
ConformsC13(o, m) ==
  IF Skel(o.A) # Skel(m.A) THEN "run-A-differs"
  ELSE IF Skel(o.A2) # Skel(m.A2) THEN "run-A2-differs"
  ELSE IF Skel(o.W) # Skel(m.W) THEN "run-W-differs"
  ELSE "conforms"

-----------------------------------------------------------------------------
(* CopyKeepsParams: the configuration parameters of every stage class and  *)
(* the ones its copy() carries over (transcribed from each copy method).   *)

ClassParams ==
  [DictDataset |-> {"examples", "name", "_keys"},
   ListDataset |-> {"examples", "name"},
   MapDataset |-> {"map_function", "input_dataset"},
   ParMapDataset |-> {"map_function", "input_dataset", "num_workers", "buffer_size", "backend"},
   ApplyDataset |-> {"apply_function", "input_dataset"},
   CatchExceptionDataset |-> {"input_dataset", "exceptions", "warn"},
   PrefetchDataset |-> {"input_dataset", "num_workers", "buffer_size", "backend",
                        "catch_filter_exception"},
   ReShuffleDataset |-> {"_permutation", "input_dataset", "rng"},
   LocalShuffleDataset |-> {"input_dataset", "buffer_size", "rng"},
   SliceDataset |-> {"_slice", "slice", "input_dataset"},
   FilterDataset |-> {"filter_function", "input_dataset"},
   ConcatenateDataset |-> {"input_datasets"},
   IntersperseDataset |-> {"input_datasets", "order"},
   ZipDataset |-> {"input_datasets"},
   KeyZipDataset |-> {"input_datasets"},
   ItemsDataset |-> {"input_dataset"},
   BatchDataset |-> {"input_dataset", "batch_size", "drop_last"},
   UnbatchDataset |-> {"input_dataset"},
   DynamicBucketDataset |-> {"input_dataset", "expiration", "max_buffered_examples",
                             "drop_incomplete", "sort_key", "reverse_sort", "bucket_cls",
                             "bucket_kwargs"},
   CacheDataset |-> {"input_dataset", "_cache", "_keep_mem_free"},
   DiskCacheDataset |-> {"input_dataset", "_cache"},
   ProfilingDataset |-> {"time", "hit_count", "input_dataset"}]
Classes == DOMAIN ClassParams
\* what copy() drops
Dropped(cls) ==
  IF cls \in {"ReShuffleDataset", "LocalShuffleDataset"} /\ "S8" \in Unfixed THEN {"rng"} ELSE {}
Kept(cls) == ClassParams[cls] \ Dropped(cls)

\* a record of the harness: class, its parameter names, the ones found
\* equal on the copy (kept) and the ones missing or different (lost)
V_Params(r) ==
  IF r.lost = <<>> THEN <<"ok", "">>
  ELSE IF r.cls \in {"ReShuffleDataset", "LocalShuffleDataset"} /\ r.lost = <<"rng">>
  THEN <<"viol", "S8:copy-drops-rng:CopyKeepsParams">>
  ELSE <<"viol", "CopyKeepsParams">>
ConformsParams(r) ==
  LET have == {r.params[j] : j \in 1..Len(r.params)}
      kept == {r.kept[j] : j \in 1..Len(r.kept)}
  IN IF r.cls \notin Classes THEN "class-not-in-model"
     ELSE IF have # ClassParams[r.cls] THEN "parameters-differ-from-model"
     ELSE IF kept # Kept(r.cls) THEN "kept-parameters-differ-from-model"
     ELSE "conforms"

-----------------------------------------------------------------------------
(* Enumeration of the scenarios.                                           *)

CONSTANTS MaxN,       \* source sizes 0..MaxN
          MaxN2,      \* ... for pipelines with two random stages
          AdvMax,     \* the adversary re-seeds at most AdvMax points (or at all)
          SeedSet     \* seeds handed to the twins

Src(n) == [op |-> "src", n |-> n]
U(op, x) == [op |-> op, in |-> x]
Loc(bs, x) == [op |-> "local", bs |-> bs, in |-> x]
\* after Build every program is its own term shape for Indexable / LenDefined
PIndexable(p) == ~HasOp(p, {"reshuffle", "local", "apply"})
BufSizes(n) == {1, 2, n + 1}

Pre(n) == {Src(n), U("map", Src(n))}
Rand(x, n) ==       \* one random stage on top of x
  (IF PIndexable(x) THEN {U("reshuffle", x), U("once", x), U("apply", x)} ELSE {})
  \cup (IF HasLocal(x) THEN {} ELSE {Loc(b, x) : b \in BufSizes(n)})
Post(y) == {y, U("map", y), U("batch", y), U("concatself", y)}
           \cup (IF PIndexable(y) THEN {U("slice", y)} ELSE {})
One(n) == UNION {Post(y) : y \in UNION {Rand(x, n) : x \in Pre(n)}}
Two(n) == UNION {Post(z) : z \in UNION {Rand(y, n) : y \in UNION {Rand(x, n) : x \in Pre(n)}}}
Programs == UNION {One(n) : n \in 0..MaxN} \cup UNION {Two(n) : n \in 0..MaxN2}

Wraps == {"copy", "freeze", "pf1", "pf2"}
Points == 1..(2 + Epochs)
AdvSets == {a \in SUBSET Points : Cardinality(a) <= AdvMax \/ a = Points}

VARIABLES scn, phase
Init == /\ phase = 0
        /\ scn \in {Scenario(p, "none", {}, 0) : p \in Programs}
Next == /\ phase = 0
        /\ phase' = 1
        \* (with fewer than two examples every order agrees: one adversary suffices)
        /\ \E w \in Wraps, s \in SeedSet,
              a \in IF SrcLen(scn.prog) <= 1 THEN {{}} ELSE AdvSets :
              scn' = Scenario(scn.prog, w, a, s)
Spec == Init /\ [][Next]_<<scn, phase>>

\* spec -> code: the scenario with the model's observation skeleton and verdict
SetSeq(a) == SelectIdx([j \in 1..(2 + Epochs) |-> j \in a], LAMBDA b : b, 1)
EmitScenario ==
  phase = 1 =>
    LET m == ModelObs(scn) IN
    PrintT(<<"VEC", ToJson([prog |-> scn.prog, wrap |-> scn.wrap, adv |-> SetSeq(scn.adv),
                            seed |-> scn.seed, mv |-> V_C13(scn, m)])>>)

\* design level
DesignC13 == phase = 1 => V_C13(scn, ModelObs(scn))[1] # "viol"
DesignC13ModuloS8 ==
  phase = 1 => LET v == V_C13(scn, ModelObs(scn)) IN
               v[1] = "viol" => v[2] \in S8Clauses
DesignParams == phase >= 0 /\ \A cls \in Classes : Kept(cls) = ClassParams[cls]
DesignC13ModuloKnown ==     \* ... and modulo the aliasing finding
  phase = 1 => LET v == V_C13(scn, ModelObs(scn)) IN
               v[1] = "viol" => v[2] \in S8Clauses \cup {"CopyAgrees:copy-unshares-reshuffle-object"}
=============================================================================
