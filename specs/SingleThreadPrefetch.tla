------------------------ MODULE SingleThreadPrefetch ------------------------
(***************************************************************************)
(* lazy_dataset.parallel_utils.single_thread_prefetch, ONE ACTION PER      *)
(* ACCESS TO SHARED STATE (the bounded queue, the lock-free `shutdown`     *)
(* flag, `exc_info`, the worker thread), for a worker W and the consumer C *)
(* (the generator body, driven by a user who iterates, closes or throws).  *)
(*                                                                         *)
(*   worker():   chk0: if shutdown: return          (outside try/finally)  *)
(*               try: for item in generator:   pull                        *)
(*                        chkA: if shutdown: return                        *)
(*                        put : data_queue.put(item)        (blocks: full) *)
(*                        chkB: if shutdown: return                        *)
(*               except ...: wrexc: exc_info = sys.exc_info()              *)
(*               finally:    fin: if not shutdown:                         *)
(*                           putend: data_queue.put(unique_object)         *)
(*   consumer:   start; loop: get (blocks: empty) -> SENT: break | yield   *)
(*               finally: wrsd: shutdown = True                            *)
(*                        drain: get_nowait() until Empty                  *)
(*                        join : thread.join()                             *)
(*               rdexc: if exc_info is not None: raise                     *)
(*                                                                         *)
(* The whole state is one record `st`, and the actions are written as a    *)
(* FUNCTION  Do(thread, st)  (with Enabled(thread, st)), so that the same  *)
(* definitions give                                                        *)
(*   - the next-state relation TLC explores (every interleaving), and      *)
(*   - Conforms(rec): the fold of Do along an event log recorded from the  *)
(*     real threads (trace validation), each event checked field by field. *)
(* A configuration (n, buf, failure, consumer plan) is part of the state,  *)
(* so one TLC run covers all configurations.                               *)
(***************************************************************************)
EXTENDS PrefetchAbs, Defects, Json

CONSTANTS MaxN, Bufs,
          GuardSentinel,  \* TRUE is the code; FALSE removes the `if not shutdown`
                          \* guard before the sentinel put: TLC must then find
                          \* the deadlock the source comment documents
          KeepLog         \* carry the event log in the state (trace validation,
                          \* small configurations) or only the counters

Ev(th, op, a, b) == [th |-> th, op |-> op, a |-> a, b |-> b]

\* Exception classes of the source: "exc" is an Exception, "base" only a
\* BaseException.  [S9] the original worker has `except Exception`.
WorkerCatches(cls) == cls = "exc" \/ (cls = "base" /\ "S9" \notin Unfixed)

InitState(cfg) ==
  [cfg |-> cfg,
   wpc |-> "w_none", cpc |-> IF cfg.stop = "close" /\ cfg.stop_k = 0 THEN "c_closed0" ELSE "c_start",
   q |-> <<>>, sd |-> FALSE, exc |-> "none",
   pos |-> 0, dead |-> FALSE, item |-> 0, dying |-> FALSE, got |-> 0,
   mode |-> "iter", end |-> "running", delivered |-> <<>>,
   log |-> <<>>]

QFull(s) == s.cfg.buf >= 1 /\ Len(s.q) >= s.cfg.buf

Enabled(th, s) ==
  IF th = "W" THEN
    CASE s.wpc \in {"w_none", "w_done"} -> FALSE
      [] s.wpc \in {"w_put", "w_putend"} -> ~QFull(s)
      [] OTHER -> TRUE
  ELSE
    CASE s.cpc = "c_get"  -> s.q # <<>>
      [] s.cpc = "c_join" -> s.wpc = "w_done"
      [] s.cpc = "c_done" -> FALSE
      [] OTHER -> TRUE

\* append events to the log
Lg(s, evs) == IF KeepLog THEN [s EXCEPT !.log = s.log \o evs] ELSE s

DoW(s) ==
  CASE s.wpc = "w_begin" -> [s EXCEPT !.wpc = "w_chk0"]          \* silent
    [] s.wpc = "w_chk0" ->
         Lg([s EXCEPT !.wpc = IF s.sd THEN "w_exit" ELSE "w_pull"],
            <<Ev("W", "rd_sd", 0, IF s.sd THEN 1 ELSE 0)>>)
    [] s.wpc = "w_pull" ->
         IF s.dead \/ (s.pos >= s.cfg.n /\ ~(s.cfg.fail_cls # "none" /\ s.pos = s.cfg.fail_at))
         THEN Lg([s EXCEPT !.wpc = "w_fin", !.dead = TRUE], <<Ev("W", "pull", END, 0 - 1)>>)
         ELSE IF s.cfg.fail_cls # "none" /\ s.pos = s.cfg.fail_at
         THEN Lg([s EXCEPT !.dead = TRUE,
                           !.wpc = IF WorkerCatches(s.cfg.fail_cls) THEN "w_wrexc" ELSE "w_fin",
                           !.dying = ~WorkerCatches(s.cfg.fail_cls)],
                 <<Ev("W", "pull", RAISE, 0 - 1)>>)
         ELSE Lg([s EXCEPT !.pos = s.pos + 1, !.item = s.pos + 1, !.wpc = "w_chkA"],
                 <<Ev("W", "pull", s.pos + 1, 0 - 1)>>)
    [] s.wpc = "w_chkA" ->
         Lg([s EXCEPT !.wpc = IF s.sd THEN "w_fin" ELSE "w_put"],
            <<Ev("W", "rd_sd", 1, IF s.sd THEN 1 ELSE 0)>>)
    [] s.wpc = "w_put" ->
         Lg([s EXCEPT !.q = Append(s.q, s.item), !.wpc = "w_chkB"],
            <<Ev("W", "put", s.item, Len(s.q) + 1)>>)
    [] s.wpc = "w_chkB" ->
         Lg([s EXCEPT !.wpc = IF s.sd THEN "w_fin" ELSE "w_pull"],
            <<Ev("W", "rd_sd", 2, IF s.sd THEN 1 ELSE 0)>>)
    [] s.wpc = "w_wrexc" ->
         Lg([s EXCEPT !.exc = s.cfg.fail_cls, !.wpc = "w_fin"], <<Ev("W", "wr_exc", 0, 0 - 1)>>)
    [] s.wpc = "w_fin" ->
         \* the sentinel is only put when the consumer is not shutting down
         \* (otherwise buffer_size = 1 can deadlock: see GuardSentinel below)
         Lg([s EXCEPT !.wpc = IF s.sd /\ GuardSentinel THEN "w_exit" ELSE "w_putend"],
            <<Ev("W", "rd_sd", 3, IF s.sd THEN 1 ELSE 0)>>)
    [] s.wpc = "w_putend" ->
         Lg([s EXCEPT !.q = Append(s.q, SENT), !.wpc = "w_exit"],
            <<Ev("W", "put", SENT, Len(s.q) + 1)>>)
    [] s.wpc = "w_exit" ->
         \* (not a scheduling point of the real thread: it runs to its end
         \*  right after its last operation)
         Lg([s EXCEPT !.wpc = "w_done"],
            (IF s.dying THEN <<Ev("W", "thread_exc", 0 - 1, 0 - 1)>> ELSE <<>>)
            \o <<Ev("W", "exit", 0 - 1, 0 - 1)>>)
    [] OTHER -> s

\* the consumer has just received `item`: the driver logs the yield and takes
\* its decision (continue / close / throw) in the same atomic step
AfterYield(s, item) ==
  LET got  == Len(s.delivered) + 1
      stop == s.cfg.stop \in {"close", "throw"} /\ got = s.cfg.stop_k
      s1   == [s EXCEPT !.delivered = Append(s.delivered, item)]
  IN IF stop
     THEN Lg([s1 EXCEPT !.cpc = "c_wrsd", !.mode = IF s.cfg.stop = "close" THEN "closed" ELSE "thrown"],
             <<Ev("C", "yield", item, 0 - 1), Ev("C", s.cfg.stop, 0 - 1, 0 - 1)>>)
     ELSE Lg(s1, <<Ev("C", "yield", item, 0 - 1)>>)

Back(s, end) == Lg([s EXCEPT !.cpc = "c_done", !.end = end], <<Ev("C", "back", 0 - 1, 0 - 1)>>)

DoC(s) ==
  CASE s.cpc = "c_closed0" -> Back(s, "closed")       \* close() of an unstarted generator
    [] s.cpc = "c_start" ->
         Lg([s EXCEPT !.cpc = "c_get", !.wpc = "w_begin"], <<Ev("C", "start", 0 - 1, 0 - 1)>>)
    [] s.cpc = "c_get" ->
         LET item == Head(s.q)
             s1 == Lg([s EXCEPT !.q = Tail(s.q)], <<Ev("C", "get", item, Len(s.q) - 1)>>)
         IN IF item = SENT THEN [s1 EXCEPT !.cpc = "c_wrsd", !.mode = "normal"]
            ELSE [s1 EXCEPT !.cpc = "c_yield", !.got = item]
    \* the item is handed to the user: only now it counts as delivered (the
    \* worker may refill the queue between get() and this moment)
    [] s.cpc = "c_yield" -> AfterYield([s EXCEPT !.cpc = "c_get"], s.got)
    [] s.cpc = "c_wrsd" ->
         Lg([s EXCEPT !.sd = TRUE, !.cpc = "c_drain"], <<Ev("C", "wr_sd", 1, 0 - 1)>>)
    [] s.cpc = "c_drain" ->
         IF s.q = <<>> THEN Lg([s EXCEPT !.cpc = "c_join"], <<Ev("C", "get_nowait", EMPTY, 0)>>)
         ELSE Lg([s EXCEPT !.q = Tail(s.q)], <<Ev("C", "get_nowait", Head(s.q), Len(s.q) - 1)>>)
    [] s.cpc = "c_join" ->
         IF s.mode = "normal"
         THEN Lg([s EXCEPT !.cpc = "c_rdexc"], <<Ev("C", "join", 0 - 1, 0 - 1)>>)
         ELSE Back(Lg(s, <<Ev("C", "join", 0 - 1, 0 - 1)>>), s.mode)
    [] s.cpc = "c_rdexc" ->
         IF s.exc = "none" THEN Back(Lg(s, <<Ev("C", "rd_exc", 0, 0)>>), "returned")
         ELSE Lg([s EXCEPT !.cpc = "c_raise"], <<Ev("C", "rd_exc", 0, 1)>>)
    [] s.cpc = "c_raise" ->
         Back(Lg(s, <<Ev("C", "rd_exc", 1, 1)>>), "raised_" \o s.exc)
    [] OTHER -> s

Do(th, s) == IF th = "W" THEN DoW(s) ELSE DoC(s)

-----------------------------------------------------------------------------
(* Model checking: every interleaving of W and C, every configuration.     *)

Configs ==
  {[n |-> n, buf |-> b, fail_at |-> fa, fail_cls |-> fc, stop |-> sp, stop_k |-> k] :
     n \in 0..MaxN, b \in Bufs, fa \in (0 - 1)..MaxN, fc \in {"none", "exc", "base"},
     sp \in {"exhaust", "close", "throw"}, k \in 0..MaxN}
Valid(c) ==
  /\ (c.fail_cls = "none") <=> (c.fail_at = 0 - 1)
  /\ c.fail_at <= c.n
  /\ c.stop = "exhaust" => c.stop_k = 0
  /\ c.stop = "close" => c.stop_k <= c.n
  /\ c.stop = "throw" => (1 <= c.stop_k /\ c.stop_k <= c.n)

VARIABLE st
Init == \E c \in Configs : Valid(c) /\ st = InitState(c)
Threads == {"W", "C"}
Next == \E th \in Threads : Enabled(th, st) /\ st' = Do(th, st)
Finished == st.cpc = "c_done" /\ st.wpc \in {"w_done", "w_none"}
Spec == Init /\ [][Next]_st /\ WF_st(Next)

\* deadlock in the sense of the property: somebody unfinished, nobody enabled
NoDeadlock == Finished \/ \E th \in Threads : Enabled(th, st)
Termination == <>Finished

Exp(c) == SeqExpect(c.n, IF c.fail_cls = "none" THEN c.n + 1 ELSE c.fail_at, c.fail_cls, {}, {})
Backed == st.cpc = "c_done"
WDone  == st.wpc \in {"w_done", "w_none"}

\* ---- classic state invariants (hold in every state of every schedule) ----
\* C04: delivered in order, each once; complete on normal exhaustion
InvC04 == /\ st.delivered = [j \in 1..Len(st.delivered) |-> j]
          /\ (st.end = "returned" /\ st.cfg.fail_cls = "none") => Len(st.delivered) = st.cfg.n
\* C05: once control is back the worker has exited (so no user code can run)
InvC05 == Backed => WDone
\* C06: an injected failure surfaces after exactly the examples before it
InvC06 == (Backed /\ st.end \notin {"closed", "thrown"}) =>
            IF st.cfg.fail_cls = "none" THEN st.end = "returned"
            ELSE /\ st.end = "raised_" \o st.cfg.fail_cls
                 /\ Len(st.delivered) = st.cfg.fail_at
\* C07: read-ahead bound, in every state (the consumer may pause anywhere)
InvC07 == st.pos - Len(st.delivered) <= st.cfg.buf + 2
\* the bound is tight: this one must be REFUTED (vacuity guard)
TightC07 == st.pos - Len(st.delivered) <= st.cfg.buf + 1

\* ---- the same properties through the log-based verdicts (KeepLog = TRUE) ----
LogC04 == V_C04(st.log, st.end, Exp(st.cfg))[1] # "viol"
LogC05 == Backed => V_C05(st.log, st.end, FALSE, IF WDone THEN 0 ELSE 1, FALSE)[1] # "viol"
LogC06 == Backed => V_C06(st.log, st.end, Exp(st.cfg), FALSE)[1] # "viol"
LogC07 == V_C07(st.log, st.cfg.buf)[1] # "viol"

\* ---- refinement: this spec implements the counting abstraction STPCount.tla,
\* whose inductive invariant Apalache proves for an unbounded source and an
\* arbitrary buffer size (C07 beyond the constants enumerated here)
CountAbs == INSTANCE STPCount WITH
  buf <- st.cfg.buf, pos <- st.pos, nd <- Len(st.delivered),
  qn <- Cardinality({i \in 1..Len(st.q) : st.q[i] # SENT}),
  sent <- \E i \in 1..Len(st.q) : st.q[i] = SENT,
  sd <- st.sd, wpc <- st.wpc, cpc <- st.cpc
CountSpec == CountAbs!Spec
CountIndInv == CountAbs!IndInv

\* ---- emission of the labelled state graph (spec -> code transition cover) ----
\* used as ACTION_CONSTRAINT: evaluated on every transition TLC generates
Mover == IF st'.cpc # st.cpc \/ st'.wpc = st.wpc THEN "C" ELSE "W"
EdgeOut == PrintT(<<"EDGE", ToJson([f |-> st, t |-> st', th |-> Mover])>>)
InitOut == PrintT(<<"INIT", ToJson(st)>>)
=============================================================================
