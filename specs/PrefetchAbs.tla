----------------------------- MODULE PrefetchAbs -----------------------------
(***************************************************************************)
(* PROPERTY-LEVEL view of a prefetching / parallel-mapping iteration       *)
(* (properties C04 - C07).  It knows nothing about queues, flags or        *)
(* futures: only the events every such iterator has                        *)
(*                                                                         *)
(*   pull   a > 0 : the source yielded item a      (user code)             *)
(*   pull   a = END / RAISE : the source ended / raised                    *)
(*   call   a     : the mapped function was STARTED on item a (user code)  *)
(*   ret    a, b  : ... finished (b = 1 ok, 0 raised)                      *)
(*   yield  a     : the consumer received item a                           *)
(*   close / throw: the consumer stops early                               *)
(*   back         : control is back with the consumer (return / raise)     *)
(*   exit         : a background thread finished                           *)
(*                                                                         *)
(* A log is the totally ordered sequence of such events of one execution   *)
(* (record fields th, op, a, b).  The verdict operators below are used on  *)
(* the behaviours of the implementation-shaped specs (every state of every *)
(* schedule, TLC) and on the logs recorded from the real threads.          *)
(***************************************************************************)
EXTENDS Integers, Sequences, FiniteSets, TLC

SENT  == 0 - 9
EMPTY == 0 - 8
END   == 0 - 1
RAISE == 0 - 2

VOk == <<"ok", "">>
VTriv(w) == <<"trivial", w>>
VViol(w) == <<"viol", w>>

Count(log, P(_)) == Cardinality({j \in 1..Len(log) : P(log[j])})
Pos(log, P(_)) ==     \* first position with P, or 0
  IF \E j \in 1..Len(log) : P(log[j])
  THEN CHOOSE j \in 1..Len(log) : P(log[j]) /\ \A m \in 1..(j-1) : ~P(log[m])
  ELSE 0
SelectLog(log, P(_)) ==
  LET RECURSIVE Go(_)
      Go(j) == IF j > Len(log) THEN <<>>
               ELSE (IF P(log[j]) THEN <<log[j]>> ELSE <<>>) \o Go(j + 1)
  IN Go(1)

IsPull(e)    == e.op = "pull" /\ e.a > 0
IsStart(e)   == e.op = "call"
IsDeliver(e) == e.op = "yield"
IsBack(e)    == e.op = "back"
IsUserCode(e) == e.op \in {"pull", "call", "ret"}

Delivered(log) == LET ys == SelectLog(log, IsDeliver) IN [j \in 1..Len(ys) |-> ys[j].a]

(***************************************************************************)
(* The sequential meaning of the workload (what the plain pipeline would   *)
(* deliver): items 1..n mapped by the identity; the source fails instead   *)
(* of item failAt+1; the function fails on the items in fnFail; items in   *)
(* `caught` (catch_filter_exception) are dropped instead of raised.        *)
(***************************************************************************)
\* expected delivered sequence up to the first uncaught failure, and the
\* outcome: "returned" or the kind of failure
SeqExpect(n, failAt, failCls, fnFail, caught) ==
  LET lim == IF failCls # "none" /\ failAt <= n THEN failAt ELSE n
      firstFn == IF \E i \in 1..lim : i \in fnFail /\ i \notin caught
                 THEN CHOOSE i \in 1..lim : i \in fnFail /\ i \notin caught
                        /\ \A m \in 1..(i-1) : ~(m \in fnFail /\ m \notin caught)
                 ELSE 0
      upto == IF firstFn # 0 THEN firstFn - 1 ELSE lim
      keep == {i \in 1..upto : i \notin fnFail}
      RECURSIVE Asc(_)
      Asc(i) == IF i > upto THEN <<>> ELSE (IF i \in keep THEN <<i>> ELSE <<>>) \o Asc(i + 1)
  IN [items |-> Asc(1),
      out |-> IF firstFn # 0 THEN "raised_fn"
              ELSE IF failCls # "none" /\ failAt <= n THEN "raised_src" ELSE "returned"]

IsPrefix(s, t) == Len(s) <= Len(t) /\ \A j \in 1..Len(s) : s[j] = t[j]

(***************************************************************************)
(* C04 transparency: same examples, same order, each once.                 *)
(***************************************************************************)
\* end = "refused": the back end refused to run the pipeline at all, before
\* any user code ran (e.g. a process back end that cannot pickle the task)
V_C04(log, end, exp) ==
  LET d == Delivered(log) IN
  IF end = "refused" THEN VTriv("backend-refused-the-pipeline")
  \* an exception nobody injected (e.g. the library tripping over an example)
  \* means the examples of the sequential pipeline are not delivered
  ELSE IF end = "raised_other" THEN VViol("iteration-raises-an-exception-nobody-injected")
  ELSE IF ~IsPrefix(d, exp.items) THEN VViol("delivered-not-a-prefix-of-sequential")
  ELSE IF end = "returned" /\ exp.out = "returned" /\ d # exp.items
       THEN VViol("returned-before-all-examples-were-delivered")
  ELSE IF end = "returned" /\ exp.out = "returned" THEN VOk
  ELSE VTriv("iteration-not-run-to-exhaustion")

(***************************************************************************)
(* C05 stopping anywhere terminates cleanly.                               *)
(*   deadlock : the controlled scheduler found no enabled thread           *)
(*   alive    : background threads still alive at quiescence after `back`  *)
(*   no user code (pull / call) after `back`                               *)
(*   early stop (close): a task whose cancel() succeeded is never taken by *)
(*   a pool thread, and after the pool was told to shut down in a closed   *)
(*   run no task is taken at all (everything pending was cancelled)        *)
(***************************************************************************)
CancelThenRun(log, end) ==
  \/ \E i, j \in 1..Len(log) : i < j /\ log[i].op = "cancel" /\ log[i].b = 1
                                /\ log[j].op = "take" /\ log[j].a = log[i].a
  \/ /\ end = "closed"
     /\ \E i, j \in 1..Len(log) : i < j /\ log[i].op = "exec_exit" /\ log[j].op = "take"

V_C05(log, end, deadlock, alive, cancellableStarted) ==
  LET b == Pos(log, IsBack) IN
  IF deadlock \/ end = "deadlock" THEN VViol("deadlock")
  ELSE IF b = 0 THEN VViol("control-never-came-back")
  ELSE IF alive > 0 THEN VViol("background-thread-alive-after-return")
  ELSE IF \E j \in (b + 1)..Len(log) : IsUserCode(log[j])
       THEN VViol("user-code-after-control-is-back")
  ELSE IF \E j \in (b + 1)..Len(log) : log[j].op \notin {"exit", "back"}
       THEN VViol("background-activity-after-control-is-back")
  ELSE IF cancellableStarted \/ CancelThenRun(log, end)
       THEN VViol("cancelled-or-still-pending-task-was-started")
  ELSE IF end \in {"closed", "thrown"} THEN VOk
  ELSE VTriv("no-early-stop")

(***************************************************************************)
(* C06 errors surface at the right position, never swallowed.              *)
(***************************************************************************)
\* srcForeground: the source is iterated by the consumer's own thread
\* (lazy_parallel_map): its failure is not "raised while being evaluated in
\* the background" - it propagates at once and the results already computed
\* are not delivered; C06 only demands that it is not swallowed.
V_C06(log, end, exp, srcForeground) ==
  LET d == Delivered(log) IN
  IF end = "refused" THEN VTriv("backend-refused-the-pipeline")
  ELSE IF end = "deadlock" /\ exp.out # "returned" THEN VViol("hung-instead-of-raising-the-failure")
  ELSE IF end \in {"closed", "thrown", "deadlock", "diverged"} THEN VTriv("consumer-stopped-first")
  ELSE IF exp.out = "returned" THEN
    \* nothing may propagate: every failure (if any) is of a caught type and
    \* EXACTLY the failing examples are omitted
    (IF end # "returned" THEN VViol("raised-although-nothing-uncaught-fails")
     ELSE IF d # exp.items THEN VViol("catch-omits-not-exactly-the-failing-examples")
     ELSE IF \E j \in 1..Len(log) : log[j].op = "ret" /\ log[j].b = 0 THEN VOk
     ELSE VTriv("no-failure-injected"))
  ELSE IF end = "returned" THEN VViol("failure-swallowed-stream-truncated")
  ELSE IF srcForeground /\ exp.out = "raised_src" THEN
    (IF end \in {"raised_exc", "raised_base"} /\ IsPrefix(d, exp.items)
     THEN VTriv("source-failed-in-the-foreground")
     ELSE VViol("wrong-exception"))
  ELSE IF d # exp.items THEN VViol("examples-before-the-failure-missing-or-extra")
  ELSE IF exp.out = "raised_src" /\ end \notin {"raised_exc", "raised_base"}
       THEN VViol("wrong-exception")
  ELSE IF exp.out = "raised_fn" /\ end # "raised_fn" THEN VViol("wrong-exception")
  ELSE VOk

(***************************************************************************)
(* C07 read-ahead bounded: at EVERY prefix of the log                      *)
(*   pulled - delivered <= buffer + 2   and   started - delivered <= buffer*)
(***************************************************************************)
MaxAhead(log, P(_)) ==
  LET RECURSIVE Go(_, _, _, _)
      Go(j, x, y, mx) ==
        IF j > Len(log) THEN mx
        ELSE LET x2 == x + (IF P(log[j]) THEN 1 ELSE 0)
                 y2 == y + (IF IsDeliver(log[j]) THEN 1 ELSE 0)
             IN Go(j + 1, x2, y2, IF x2 - y2 > mx THEN x2 - y2 ELSE mx)
  IN Go(1, 0, 0, 0)

\* the same, but examples that were started, failed and are dropped by
\* catch_filter_exception (items in `caught`) count as consumed once they
\* have finished: they occupy no buffer slot for longer than a delivered one
MaxAheadCaught(log, P(_), caught) ==
  LET RECURSIVE Go(_, _, _, _)
      Go(j, x, y, mx) ==
        IF j > Len(log) THEN mx
        ELSE LET x2 == x + (IF P(log[j]) THEN 1 ELSE 0)
                 y2 == y + (IF IsDeliver(log[j])
                               \/ (log[j].op = "ret" /\ log[j].b = 0 /\ log[j].a \in caught)
                            THEN 1 ELSE 0)
             IN Go(j + 1, x2, y2, IF x2 - y2 > mx THEN x2 - y2 ELSE mx)
  IN Go(1, 0, 0, 0)

V_C07(log, buf) ==
  IF MaxAhead(log, IsPull) > buf + 2 THEN VViol("pulled-more-than-buffer-plus-2-ahead")
  ELSE IF MaxAhead(log, IsStart) > buf THEN VViol("started-more-than-buffer-ahead")
  ELSE IF Count(log, IsPull) <= buf + 2 THEN VTriv("workload-too-small-to-exceed-the-bound")
  ELSE VOk
=============================================================================
