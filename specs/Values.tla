------------------------------- MODULE Values -------------------------------
(***************************************************************************)
(* Value universe of the lazy_dataset specifications, the catalogue of     *)
(* user functions (each has a Python twin in harness/userfns.py), outcome  *)
(* records and Python list / slice / numpy index semantics.                *)
(*                                                                         *)
(* TLC RULE (probed): record equality errors when two records share a      *)
(* field name whose values have different TLA+ types.  Hence EVERY FIELD   *)
(* NAME HOLDS ONE TYPE EVERYWHERE in this spec family:                     *)
(*   n : Int     xs : Seq(Value)   tp : Seq(Value)   s : STRING  d : Int   *)
(***************************************************************************)
EXTENDS Integers, Sequences, FiniteSets, TLC

I(n)  == [t |-> "i", n |-> n]          \* Python int
L(xs) == [t |-> "L", xs |-> xs]        \* Python list (a batch)
T(tp) == [t |-> "T", tp |-> tp]        \* Python tuple (zip / items pair)
S(s)  == [t |-> "s", s |-> s]          \* Python str (a key)
D(d)  == [t |-> "d", d |-> d]          \* Python dict {'x': d}: an opaque,
                                       \* incomparable payload
NoneV == [t |-> "N"]                   \* Python None

NONE == 99                             \* stands for None in slice bounds

-----------------------------------------------------------------------------
(* Generic sequence helpers                                                *)

Range(a, b) == IF b < a THEN <<>> ELSE [j \in 1..(b - a + 1) |-> a + j - 1]
Take(s, k)  == IF k <= 0 THEN <<>> ELSE SubSeq(s, 1, IF k < Len(s) THEN k ELSE Len(s))
Drop(s, k)  == IF k >= Len(s) THEN <<>> ELSE SubSeq(s, k + 1, Len(s))
MapSeq(F(_), s) == [j \in 1..Len(s) |-> F(s[j])]
InSeq(x, s) == \E j \in 1..Len(s) : s[j] = x
IndexOf(x, s) == CHOOSE j \in 1..Len(s) : s[j] = x /\ \A m \in 1..(j-1) : s[m] # x
RECURSIVE FlatSeq(_)
FlatSeq(ss) == IF ss = <<>> THEN <<>> ELSE Head(ss) \o FlatSeq(Tail(ss))
\* positions j >= j0 (1-based) of s with P(s[j]), ascending
SelectIdx(s, P(_), j0) ==
  LET RECURSIVE Go(_)
      Go(j) == IF j > Len(s) THEN <<>>
               ELSE (IF P(s[j]) THEN <<j>> ELSE <<>>) \o Go(j + 1)
  IN Go(j0)
NoDup(s) == \A i, j \in 1..Len(s) : i # j => s[i] # s[j]
SumSeq(s) == LET RECURSIVE Go(_)
                 Go(j) == IF j > Len(s) THEN 0 ELSE s[j] + Go(j + 1)
             IN Go(1)
Min2(a, b) == IF a < b THEN a ELSE b
Max2(a, b) == IF a > b THEN a ELSE b

\* first position with P, or 0
FirstPos(s, P(_)) ==
  IF \E j \in 1..Len(s) : P(s[j])
  THEN CHOOSE j \in 1..Len(s) : P(s[j]) /\ \A m \in 1..(j-1) : ~P(s[m])
  ELSE 0

\* stable insertion sort of a sequence by a strict "less" relation
StableSort(s, Less(_, _)) ==
  LET RECURSIVE Ins(_, _)
      Ins(x, r) == IF r = <<>> THEN <<x>>
                   ELSE IF Less(x, Head(r)) THEN <<x>> \o r
                   ELSE <<Head(r)>> \o Ins(x, Tail(r))
      RECURSIVE Go(_)
      Go(k) == IF k = 0 THEN <<>> ELSE Ins(s[k], Go(k - 1))
  IN Go(Len(s))

-----------------------------------------------------------------------------
(* String order: TLC has no order on strings; keys come from this list.    *)

\* (Python string order; "pp" / "qq": keys longer than one character)
KeyOrder == <<"a", "b", "c", "d", "e", "f", "g", "h", "p", "pp", "q", "qq", "zz">>
KeyRank(k) == IF InSeq(k, KeyOrder) THEN IndexOf(k, KeyOrder) ELSE 1000
StrLess(k1, k2) == KeyRank(k1) < KeyRank(k2)

\* ds.sort(key_fn, sort_fn, reverse): the ORDER is the business of sort_fn
\* (default `sorted`; "e.g. natsort.natsorted").  sfn = "std" is `sorted`;
\* sfn = "m3" is a custom sort function with another total order: integers by
\* (v mod 3, v), strings descending.  (A term without the field means "std".)
Sfn(a) == IF "sfn" \in DOMAIN a THEN a.sfn ELSE "std"
IntLessBy(sfn, x, y) ==
  IF sfn = "m3" THEN (x % 3 < y % 3) \/ (x % 3 = y % 3 /\ x < y) ELSE x < y
StrLessBy(sfn, k1, k2) == IF sfn = "m3" THEN StrLess(k2, k1) ELSE StrLess(k1, k2)

-----------------------------------------------------------------------------
(* Outcome records (uniform shape, so any two outcomes are comparable).    *)

OkV(v)  == [ok |-> TRUE,  v |-> v,    exc |-> "none"]
ErrV(c) == [ok |-> FALSE, v |-> I(0), exc |-> c]
OkN(n)  == [ok |-> TRUE,  n |-> n,    exc |-> "none"]     \* len()
ErrN(c) == [ok |-> FALSE, n |-> 0,    exc |-> c]
OkK(ks) == [ok |-> TRUE,  ks |-> ks,  exc |-> "none"]     \* keys()
ErrK(c) == [ok |-> FALSE, ks |-> <<>>, exc |-> c]
OkI(ix) == [ok |-> TRUE,  ix |-> ix,  exc |-> "none"]     \* index arrays
ErrI(c) == [ok |-> FALSE, ix |-> <<>>, exc |-> c]
ItR(items, exc) == [items |-> items, exc |-> exc]         \* an iteration

\* Exceptions raised by user functions (fault injection); everything else
\* is raised by the library itself ("structural").
UserExc == {"FilterException", "SubFilterException", "UserValueError",
            "UserKeyError", "UserIndexError", "UserBaseException"}
\* `except IndexError` in the library (BatchDataset probing for the end of its
\* input) also catches a user function's IndexError subclass
IsIndexErr(c) == c \in {"IndexError", "UserIndexError"}
\* class hierarchy of the user exceptions
IsSub(c, base) ==
  \/ c = base
  \/ base = "BaseException"
  \/ base = "Exception" /\ c # "UserBaseException"
  \/ base = "FilterException" /\ c = "SubFilterException"
\* catalogue of `exceptions=` arguments of catch / catch_filter_exception
CatchSets == {"Filter", "FilterOrValue", "Exception", "UserKey", "Lookup"}
Catches(E, c) ==
  CASE E = "Filter"        -> IsSub(c, "FilterException")
    [] E = "FilterOrValue" -> IsSub(c, "FilterException") \/ c = "UserValueError"
    [] E = "Exception"     -> c \in UserExc /\ IsSub(c, "Exception")
    [] E = "UserKey"       -> c = "UserKeyError"
    [] E = "Lookup"        -> c \in {"UserKeyError", "UserIndexError"}     \* LookupError
    [] OTHER               -> FALSE

-----------------------------------------------------------------------------
(* User functions.  All are total on the value universe.                   *)

Size(x) == CASE x.t = "i" -> x.n
             [] x.t = "L" -> Len(x.xs)
             [] x.t = "T" -> Len(x.tp)
             [] x.t = "d" -> x.d
             [] OTHER     -> 0

RECURSIVE Inc(_)
Inc(x) == CASE x.t = "i" -> I(x.n + 1)
            [] x.t = "L" -> L([j \in 1..Len(x.xs) |-> Inc(x.xs[j])])
            [] x.t = "T" -> T([j \in 1..Len(x.tp) |-> Inc(x.tp[j])])
            [] x.t = "d" -> D(x.d + 1)
            [] OTHER     -> x
Wrap(x) == L(<<x, x>>)
Pair(x) == T(<<x, x>>)

MapFns == {"inc", "wrap", "pair", "incinc", "incwrap", "bmap_inc"}
\* batch_map(inc): inc applied to every member of a batch (a non-batch is
\* not in its domain: the twin raises TypeError; never generated)
BMapInc(x) == CASE x.t = "L" -> L([j \in 1..Len(x.xs) |-> Inc(x.xs[j])])
                [] x.t = "T" -> L([j \in 1..Len(x.tp) |-> Inc(x.tp[j])])
                [] OTHER     -> x
ApplyFn(f, x) == CASE f = "inc"  -> Inc(x)
                   [] f = "wrap" -> Wrap(x)
                   [] f = "pair" -> Pair(x)
                   [] f = "incinc"  -> Inc(Inc(x))         \* inc after inc
                   [] f = "incwrap" -> Wrap(Inc(x))        \* wrap after inc
                   [] f = "bmap_inc" -> BMapInc(x)
                   [] OTHER      -> x

\* predicates: records [pn |-> name] or [pn |-> "insz", sz |-> <<sizes>>]
Pred(p, x) ==
  LET z == Size(x) IN
  CASE p.pn = "even"   -> z % 2 = 0
    [] p.pn = "odd"    -> z % 2 = 1
    [] p.pn = "gt1"    -> z > 1
    [] p.pn = "le1"    -> z <= 1
    [] p.pn = "always" -> TRUE
    [] p.pn = "never"  -> FALSE
    [] p.pn = "insz"   -> InSeq(z, p.sz)
    [] p.pn = "notinsz" -> ~InSeq(z, p.sz)
    [] OTHER           -> FALSE
NegPred(p) ==
  CASE p.pn = "even"   -> [pn |-> "odd"]
    [] p.pn = "odd"    -> [pn |-> "even"]
    [] p.pn = "gt1"    -> [pn |-> "le1"]
    [] p.pn = "le1"    -> [pn |-> "gt1"]
    [] p.pn = "always" -> [pn |-> "never"]
    [] p.pn = "never"  -> [pn |-> "always"]
    [] p.pn = "insz"   -> [pn |-> "notinsz", sz |-> p.sz]
    [] OTHER           -> [pn |-> "insz", sz |-> p.sz]

\* sort key functions (return an Int) and group functions (return an Int)
\* The Python twins of some of these return exotic values that are
\* order-isomorphic (sort keys) / in bijection (group ids) with the integers
\* used here: "big" = 2**60 + size, "biginf" = the same with +inf for size 0
\* (C18: any sort keys), "fs2" = frozenset({size % 2}), "mix2" = None / 'odd'
\* (C18: arbitrary hashable group ids, not totally ordered, not comparable).
KeyFn(kf, x) == CASE kf = "id"    -> Size(x)
                  [] kf = "neg"   -> 0 - Size(x)
                  [] kf = "mod2"  -> Size(x) % 2
                  [] kf = "const" -> 7
                  [] kf = "big"   -> Size(x)
                  [] kf = "biginf" -> IF Size(x) = 0 THEN 1000000 ELSE Size(x)
                  [] kf = "fs2"   -> Size(x) % 2
                  [] kf = "mix2"  -> Size(x) % 2
                  [] OTHER        -> 0

-----------------------------------------------------------------------------
(* Python sequence indexing                                                *)

\* xs[i] for a Python list / tuple of length n: 1-based position or 0
PyPos(n, i) == IF 0 <= i /\ i < n THEN i + 1
               ELSE IF 0 - n <= i /\ i < 0 THEN n + i + 1
               ELSE 0

\* slice(a, b, c).indices(n) followed by range(): 0-based index sequence
\* (CPython PySlice_AdjustIndices); c # 0
SliceIdx(n, a, b, c) ==
  LET step  == IF c = NONE THEN 1 ELSE c
      defS  == IF step > 0 THEN 0 ELSE n - 1
      defE  == IF step > 0 THEN n ELSE 0 - 1
      lo    == IF step > 0 THEN 0 ELSE 0 - 1
      hi    == IF step > 0 THEN n ELSE n - 1
      Clamp(v) == IF v < 0 THEN (IF v + n < lo THEN lo ELSE v + n)
                  ELSE (IF v > hi THEN hi ELSE v)
      start == IF a = NONE THEN defS ELSE Clamp(a)
      stop  == IF b = NONE THEN defE ELSE Clamp(b)
      cnt   == IF step > 0
               THEN (IF stop > start THEN (stop - start + step - 1) \div step ELSE 0)
               ELSE (IF stop < start THEN (start - stop - step - 1) \div (0 - step) ELSE 0)
  IN [j \in 1..cnt |-> start + (j - 1) * step]

\* np.array_split(np.arange(n), k): section sizes (first n mod k sections
\* get one extra element); 1 <= k
SplitSizes(n, k) == [j \in 1..k |-> (n \div k) + (IF j <= n % k THEN 1 ELSE 0)]
SplitStart(n, k, j) == SumSeq(SubSeq(SplitSizes(n, k), 1, j - 1))   \* 0-based
SplitSection(n, k, j) == Range(SplitStart(n, k, j),
                               SplitStart(n, k, j) + SplitSizes(n, k)[j] - 1)

\* ceil / floor of n / b for b >= 1 (BatchDataset.__len__)
CeilDiv(n, b)  == (n + b - 1) \div b
=============================================================================
