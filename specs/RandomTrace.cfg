CONSTANTS
  MaxN = 0
  NIter = 1
  Kinds = {}
  MaxReps = 1
SPECIFICATION TSpec
INVARIANT Judge
CHECK_DEADLOCK FALSE
