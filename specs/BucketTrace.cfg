CONSTANTS
  Alphabet = {1}
  MaxLen = 0
  BatchSizes = {1}
  RateTenths = {0}
  MaxTotals = {99}
  Expirations = {99}
  MaxBuffered = {99}
  DropModes = {FALSE}
  SortModes = {"none"}
SPECIFICATION TraceSpec
INVARIANT Judge
CHECK_DEADLOCK FALSE
