----------------------------- MODULE BucketTrace -----------------------------
(***************************************************************************)
(* TRACE VALIDATION for dynamic bucket batching (C17): code -> spec.       *)
(*                                                                         *)
(* The trace file (ndjson, env TRACE_FILE) holds one record per REAL       *)
(* iteration of DynamicBucketDataset:                                      *)
(*   id    record number                                                   *)
(*   par   the setting [bs, rate <<num,den>>, mts, exp, mbuf, drop, sort]  *)
(*         (None = 99)                                                     *)
(*   lens  the input length sequence (example k is {'id': k, 'len': ..})   *)
(*   tol   0: the real run used fractions.Fraction(num, den) - exact       *)
(*         1: the real run used the float num/den - PaddingBound gets a    *)
(*            relative slack of 1e-4                                       *)
(*   obs   what the real code did: batches (lists of [id, len]), pulls     *)
(*         (source examples pulled when each batch was yielded, from an    *)
(*         instrumented source), exc, and for drop_incomplete=True the     *)
(*         batches / pulls of the same setting with drop_incomplete=False  *)
(*         (ref, refpulls)                                                 *)
(*                                                                         *)
(* For every record TLC runs the implementation-shaped model of Bucket.tla *)
(* on (par, lens) -- the state variables of Bucket.tla hold the model's    *)
(* FINAL state for record l -- and prints                                  *)
(*   C17   V_C17 on the REAL observation (the verdict that counts)         *)
(*   app   the clauses that had something to decide                        *)
(*   conf  "conforms" or where the real observation leaves the model       *)
(*   mv    V_C17 on the model's own observation (design level)             *)
(* Records are independent: heap-index tree over the record numbers, so    *)
(* TLC's workers validate them in parallel.                                *)
(***************************************************************************)
EXTENDS Bucket, IOUtils

TraceLog == ndJsonDeserialize(IOEnv.TRACE_FILE)
NRec == Len(TraceLog)

VARIABLE l
tvars == <<l, vars>>

Holds(s) ==
  /\ pc = s.pc /\ i = s.i /\ j = s.j /\ f = s.f /\ buckets = s.buckets
  /\ buffered = s.buffered /\ emitted = s.emitted /\ dropped = s.dropped
  /\ exc = s.exc /\ yielded = s.y

TraceInit ==
  /\ l = 1
  /\ par = TraceLog[1].par
  /\ lens = TraceLog[1].lens
  /\ Holds(Run(TraceLog[1].par, TraceLog[1].lens))
TraceNext ==
  \E c \in {2 * l, 2 * l + 1} :
    /\ c <= NRec
    /\ l' = c
    /\ par' = TraceLog[c].par
    /\ lens' = TraceLog[c].lens
    /\ Install(Run(TraceLog[c].par, TraceLog[c].lens))
TraceSpec == TraceInit /\ [][TraceNext]_tvars

Judge ==
  LET rec == TraceLog[l]
      o   == rec.obs
      m   == ModelObs(par, lens, St)
  IN PrintT(<<"VERDICT", ToJson(
       [id |-> rec.id, C17 |-> V_C17(par, lens, o, rec.tol),
        app |-> Applicable(par, lens, o), conf |-> DriftWhere(o, m),
        mv |-> V_C17(par, lens, m, 0)])>>)
=============================================================================
