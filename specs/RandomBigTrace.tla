---------------------------- MODULE RandomBigTrace ----------------------------
(***************************************************************************)
(* C12 at LARGE sizes (code -> spec only): "for every random state and     *)
(* dataset size".  The enumerated model of Random.tla works on 0..5        *)
(* examples with scripted generator answers; index arithmetic in narrow    *)
(* integer types, buffer reuse and the like only show above 2^8 / 2^16     *)
(* examples.  One record per real execution with a REAL numpy generator:   *)
(*   [id, form, n, b, size, drop, epochs]                                  *)
(*   form   how the shuffled dataset was built (see harness/check_random)  *)
(*   n      number of source examples 0..n-1, b batch size (0: none)       *)
(*   size   number of examples an epoch must deliver (n, reps*n, or the    *)
(*          sample size of random_choice)                                  *)
(*   epochs what each epoch delivered, flattened to source positions       *)
(* Verdict: every epoch delivers `size` examples in range and each source  *)
(* example exactly size / n times (sampling: at most once).                *)
(***************************************************************************)
EXTENDS Integers, Sequences, FiniteSets, TLC, Json, IOUtils

TraceLog == ndJsonDeserialize(IOEnv.TRACE_FILE)
NRec == Len(TraceLog)
VARIABLE l
TInit == l = 1
TNext == \E c \in {2 * l, 2 * l + 1} : c <= NRec /\ l' = c
TSpec == TInit /\ [][TNext]_l

Epoch(rec, out) ==
  LET vals == {out[j] : j \in 1..Len(out)}
      reps == IF rec.form = "choice" THEN 1 ELSE rec.size \div rec.n
  IN IF Len(out) # rec.size THEN "epoch-has-the-wrong-number-of-examples"
     ELSE IF \E x \in vals : x < 0 \/ x >= rec.n THEN "example-not-from-the-input"
     \* `size` draws, every value at most `reps` times: with size = reps * n
     \* that is exactly `reps` times each
     ELSE IF rec.form = "choice" /\ Cardinality(vals) # rec.size THEN "example-sampled-twice"
     \* rec.drop: examples whose evaluation raises an exception that a catch()
     \* above the shuffle drops - every epoch holds exactly the others
     ELSE IF rec.form # "choice" /\ vals # (0..(rec.n - 1)) \ {rec.drop[j] : j \in 1..Len(rec.drop)}
          THEN "example-missing-or-duplicated"
     ELSE IF reps > 1 /\ \E x \in vals : Cardinality({j \in 1..Len(out) : out[j] = x}) # reps
          THEN "example-not-exactly-once-per-repetition"
     ELSE ""

V_C12Big(rec) ==
  LET bad == {e \in 1..Len(rec.epochs) : Epoch(rec, rec.epochs[e]) # ""}
  IN IF rec.exc # "none" THEN <<"viol", "iteration-raised-" \o rec.exc>>
     ELSE IF bad # {} THEN <<"viol", Epoch(rec, rec.epochs[CHOOSE e \in bad : TRUE])>>
     ELSE <<"ok", "">>

Judge ==
  l <= NRec =>
    LET rec == TraceLog[l] IN
    PrintT(<<"VERDICT", ToJson([id |-> rec.id, C12 |-> V_C12Big(rec)])>>)
=============================================================================
