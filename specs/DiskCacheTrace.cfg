CONSTANTS
  N = 2
  Depth = 0
  MaxOpen = 1
  MaxOpens = 0
  MaxCopies = 0
  MaxKills = 0
  Forms <- FormsPos
  Inits = {"absent"}
SPECIFICATION TraceSpec
INVARIANT Judge
CHECK_DEADLOCK FALSE
