------------------------------- MODULE STPTrace -------------------------------
(***************************************************************************)
(* TRACE VALIDATION for single_thread_prefetch: code -> spec.              *)
(*                                                                         *)
(* One ndjson record per CONTROLLED EXECUTION of the real function (see    *)
(* harness/detsched.py, harness/conc.py): the configuration, the totally   *)
(* ordered event log of the real threads, what the consumer received and   *)
(* how the iteration ended, the scheduler's deadlock verdict and the       *)
(* number of background threads alive at quiescence.                       *)
(*                                                                         *)
(* For every record TLC                                                    *)
(*  (1) replays the log through the actions of SingleThreadPrefetch.tla    *)
(*      (Do / Enabled): every event must be the event the spec action      *)
(*      produces, field by field (item, queue length after the operation,  *)
(*      value of the flag that was read); the result is 0 or the index of  *)
(*      the first event the specification cannot explain;                  *)
(*  (2) evaluates the property verdicts of PrefetchAbs.tla on the log.     *)
(***************************************************************************)
EXTENDS SingleThreadPrefetch, IOUtils

TraceLog == ndJsonDeserialize(IOEnv.TRACE_FILE)
NRec == Len(TraceLog)

VARIABLE l
\* (`st`, the variable of the model-checking spec, is not used here)
TInit == l = 1 /\ st = 0
TNext == \E c \in {2 * l, 2 * l + 1} : c <= NRec /\ l' = c /\ UNCHANGED st
TSpec == TInit /\ [][TNext]_<<l, st>>

CfgOf(rec) == [n |-> rec.n, buf |-> rec.buf, fail_at |-> rec.fail_at,
               fail_cls |-> rec.fail_cls, stop |-> rec.stop, stop_k |-> rec.stop_k]

IsPrefixOf(evs, log, j) ==
  /\ j + Len(evs) - 1 <= Len(log)
  /\ \A m \in 1..Len(evs) : log[j + m - 1] = evs[m]

\* [at |-> 0 if the whole log is explained, else index of the first
\*  unexplained event; fin |-> the spec state reached]
Replay(rec) ==
  LET log == rec.events
      RECURSIVE Go(_, _)
      Go(s, j) ==
        IF j > Len(log) THEN [at |-> 0, fin |-> s]
        ELSE LET th == IF log[j].th = "C" THEN "C" ELSE "W"
                 \* the first scheduling of the worker produces no event
                 s0 == IF th = "W" /\ s.wpc = "w_begin" THEN DoW(s) ELSE s
             IN IF ~Enabled(th, s0) THEN [at |-> j, fin |-> s0]
                ELSE LET s1  == Do(th, s0)
                         new == SubSeq(s1.log, Len(s0.log) + 1, Len(s1.log))
                     IN IF new = <<>> \/ ~IsPrefixOf(new, log, j) THEN [at |-> j, fin |-> s0]
                        ELSE Go(s1, j + Len(new))
  IN Go(InitState(CfgOf(rec)), 1)

Conformance(rec) ==
  LET r == Replay(rec) IN
  IF rec.end = "refused" THEN 0       \* refused before anything was pulled
  ELSE IF r.at # 0 THEN r.at
  ELSE IF rec.deadlock THEN (IF \E th \in Threads : Enabled(th, r.fin) THEN Len(rec.events) + 1 ELSE 0)
  ELSE IF r.fin.end # rec.end \/ r.fin.delivered # rec.delivered THEN Len(rec.events) + 1
  ELSE 0

Judge ==
  l <= NRec =>
    LET rec == TraceLog[l]
        exp == Exp(CfgOf(rec))
    IN PrintT(<<"VERDICT", ToJson(
         [id |-> rec.id,
          C04 |-> V_C04(rec.events, rec.end, exp),
          C05 |-> V_C05(rec.events, rec.end, rec.deadlock, rec.alive, FALSE),
          C06 |-> V_C06(rec.events, rec.end, exp, FALSE),
          C07 |-> V_C07(rec.events, rec.buf),
          conf |-> Conformance(rec)])>>)
=============================================================================
