CONSTANTS
  MaxLen = 0
  Depth = 0
SPECIFICATION TSpec
INVARIANT Judge
CHECK_DEADLOCK FALSE
