CONSTANTS
  MaxLen = 0
  Depth = 0
  WithShuffle = FALSE
SPECIFICATION TSpec
INVARIANT Judge
CHECK_DEADLOCK FALSE
