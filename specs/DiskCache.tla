------------------------------ MODULE DiskCache ------------------------------
(***************************************************************************)
(* C11  "Disk cache is reused exactly and cleared exactly when asked".     *)
(*                                                                         *)
(* State machine over LIFECYCLES of dataset objects on ONE cache           *)
(* directory, written like the implementation (lazy_dataset/core.py):      *)
(*                                                                         *)
(*   Open(reuse, clear)   Dataset.diskcache(dir, reuse, clear)             *)
(*                        = DiskCacheDataset.__init__                      *)
(*                        = _DiskCacheWrapper.__init__: the existing-      *)
(*                        directory check `is_dir() and len(glob('*')) > 0`*)
(*                        (RuntimeError unless reuse), then                *)
(*                        diskcache.Cache(dir) which creates the directory *)
(*                        and cache.db                                     *)
(*   Access(h, i, np)     inherited CacheDataset.__getitem__(int):         *)
(*                        `try: return self._cache[item]                   *)
(*                         except KeyError: value = self.input_dataset[item]*)
(*                            if self.check(): self._cache[item] = value`  *)
(*                        the cache key is the RAW `item`                  *)
(*   Copy(h)              DiskCacheDataset.copy: shares the wrapper        *)
(*   Release(h)           the last reference to a dataset object is        *)
(*                        dropped; the last dataset sharing a wrapper runs *)
(*                        _DiskCacheWrapper.__del__: cache.close();        *)
(*                        rmtree(directory) iff clear (and it exists)      *)
(*   KillWriter           the process that owns the live datasets is       *)
(*                        SIGKILLed: every handle and wrapper vanishes     *)
(*                        WITHOUT __del__, the directory stays as it is    *)
(*   Reopen(reuse, clear) = Open once everything was released or killed    *)
(*                                                                         *)
(* ATOMICITY: one Access is one step, i.e. a store (upstream call, write   *)
(* into the directory, return) is ATOMIC in this specification; a writer   *)
(* dies only BETWEEN two stores.  That diskcache / SQLite make a store     *)
(* atomic is NOT modelled - it is what the harness samples with kills at   *)
(* random instants (exploration, not model checking).                      *)
(*                                                                         *)
(* The upstream is counter-stamped: the value of example j at its c-th     *)
(* computation is <<j, c>> (fields e, c), so a recomputation, a stale and  *)
(* a misplaced value are all observable.                                   *)
(*                                                                         *)
(* One type per field name (TLC rule):                                     *)
(*   a, exc, init : STRING   h, i, k, e, c, w, rc, nt, step : Int          *)
(*   np, reuse, clear, ok, ex, ne, db, fg, live, open, det, silent : BOOL  *)
(*   calls, hd, wr, hw, lv, wcl, wrc, also : sequences   ent, snap, seen,  *)
(*   used : sets of records                                                *)
(***************************************************************************)
EXTENDS Integers, Sequences, FiniteSets, TLC, Json, Defects

CONSTANTS N,          \* examples 0..N-1 of the upstream dataset
          Depth,      \* lifecycles of <= Depth actions
          MaxOpen,    \* wrappers open AT THE SAME TIME on the directory
          MaxOpens,   \* Open/Reopen actions per lifecycle
          MaxCopies, MaxKills,
          Forms,      \* index forms of an Access: records [i, np]
          Inits       \* initial directory: "absent" | "empty" | "foreign"

\* the defect ids behind which the ORIGINAL behaviour is modelled
KF_NEG   == "S6"          \* key = raw index: ds[-1] and ds[len-1] differ
KF_NPKEY == "C11-NPKEY"   \* key = raw object: ds[np.int64(1)] and ds[1] differ
                          \* (diskcache stores an int key raw, any other
                          \* Integral pickled)

-----------------------------------------------------------------------------
(* Actions as data (the history), uniform shape                            *)

ActOpen(r, c)      == [a |-> "open", h |-> 0, i |-> 0, np |-> FALSE, reuse |-> r, clear |-> c]
ActAccess(h, i, p) == [a |-> "access", h |-> h, i |-> i, np |-> p, reuse |-> FALSE, clear |-> FALSE]
ActCopy(h)         == [a |-> "copy", h |-> h, i |-> 0, np |-> FALSE, reuse |-> FALSE, clear |-> FALSE]
ActRelease(h)      == [a |-> "release", h |-> h, i |-> 0, np |-> FALSE, reuse |-> FALSE, clear |-> FALSE]
ActKill            == [a |-> "kill", h |-> 0, i |-> 0, np |-> FALSE, reuse |-> FALSE, clear |-> FALSE]

\* index forms used by the configurations (cfg files cannot hold negatives)
FormsAll   == {[i |-> j, np |-> FALSE] : j \in (0 - N)..(N - 1)}
                \cup {[i |-> j, np |-> TRUE] : j \in 0..(N - 1)}
                \cup {[i |-> 100 + j, np |-> FALSE] : j \in 0..(N - 1)}
FormsSmall == {[i |-> j, np |-> FALSE] : j \in 0..(N - 1)}
                \cup {[i |-> 0 - 1, np |-> FALSE], [i |-> N - 1, np |-> TRUE],
                      [i |-> 100, np |-> FALSE]}
FormsPos   == {[i |-> j, np |-> FALSE] : j \in 0..(N - 1)}
FormsEdge  == FormsAll \cup {[i |-> N, np |-> FALSE], [i |-> 0 - N - 1, np |-> FALSE]}

\* an index form i >= 100 stands for the access BY KEY ds[key of position i - 100]
\* (CacheDataset.__getitem__: item = self.keys().index(item), then as by position)
Pos(i) == IF i >= 100 THEN i - 100 ELSE i
InRange(n, i) == (0 - n) <= i /\ i < n
Norm(n, i)    == IF i < 0 THEN i + n ELSE i
\* the key under which CacheDataset.__getitem__ looks up / stores `item`
KeyOf(n, i, p) == [k  |-> IF KF_NEG \in Unfixed THEN i ELSE Norm(n, i),
                   np |-> IF KF_NPKEY \in Unfixed THEN p ELSE FALSE]

-----------------------------------------------------------------------------
(* The implementation-shaped model: pure step function over a state record *)
(* s = [dir, wr, hd, calls]                                                *)
(*   dir   [ex, db, fg, ent]: exists / holds cache.db / holds a foreign    *)
(*         file / stored entries [k, np, e, c] (key k,np -> value <<e,c>>) *)
(*         absent: ex = FALSE;  existing but empty: ex /\ ~db /\ ~fg       *)
(*   wr    wrappers [reuse, clear, rc, open, det, snap]; rc = number of    *)
(*         live dataset objects sharing it (the original + its copies);    *)
(*         det: the directory was removed under this open wrapper by       *)
(*         ANOTHER wrapper's rmtree - its SQLite connection then works on  *)
(*         the unlinked file, whose content is `snap`                      *)
(*   hd    dataset handles [w, live] (w = 0: the Open was refused)         *)
(*   calls upstream call counter per example (1-based position j+1)        *)

Absent == [ex |-> FALSE, db |-> FALSE, fg |-> FALSE, ent |-> {}]
InitDir(init) ==
  CASE init = "absent"  -> Absent
    [] init = "empty"   -> [Absent EXCEPT !.ex = TRUE]
    [] init = "foreign" -> [Absent EXCEPT !.ex = TRUE, !.fg = TRUE]
    [] init = "db"      -> [Absent EXCEPT !.ex = TRUE, !.db = TRUE]
\* Path(dir).is_dir() and len(list(Path(dir).glob('*'))) > 0
NonEmpty(d) == d.ex /\ (d.db \/ d.fg)

InitState(n, init) == [dir |-> InitDir(init), wr |-> <<>>, hd |-> <<>>,
                       calls |-> [j \in 1..n |-> 0]]

Out(ok, e, c, exc) == [ok |-> ok, e |-> e, c |-> c, exc |-> exc]
OkNone    == Out(TRUE, 0 - 1, 0, "none")       \* a step without a value
OkVal(e, c) == Out(TRUE, e, c, "none")
Err(cls)  == Out(FALSE, 0 - 1, 0, cls)

IsLive(s, h) == h >= 1 /\ h <= Len(s.hd) /\ s.hd[h].live

StepOpen(s, a) ==
  IF NonEmpty(s.dir) /\ ~a.reuse
  THEN \* RuntimeError out of _DiskCacheWrapper.__init__: NO wrapper, the
       \* half-built wrapper has no `cache` attribute, __del__ does nothing
       [s |-> [s EXCEPT !.hd = Append(@, [w |-> 0, live |-> FALSE])],
        o |-> Err("RuntimeError")]
  ELSE LET w == Len(s.wr) + 1
           d == IF s.dir.ex THEN [s.dir EXCEPT !.db = TRUE]
                ELSE [Absent EXCEPT !.ex = TRUE, !.db = TRUE]
       IN [s |-> [s EXCEPT !.dir = d,
                           !.wr = Append(@, [reuse |-> a.reuse, clear |-> a.clear,
                                             rc |-> 1, open |-> TRUE,
                                             det |-> FALSE, snap |-> {}]),
                           !.hd = Append(@, [w |-> w, live |-> TRUE])],
           o |-> OkNone]

StepAccess(n, s, a) ==
  IF ~IsLive(s, a.h) THEN [s |-> s, o |-> Err("BadHandle")]
  ELSE
  LET w     == s.hd[a.h].w
      W     == s.wr[w]
      store == IF W.det THEN W.snap ELSE s.dir.ent
      key   == KeyOf(n, Pos(a.i), a.np)
      hits  == {x \in store : x.k = key.k /\ x.np = key.np}
  IN IF hits # {}
     THEN LET x == CHOOSE x \in hits : TRUE      \* hit: no upstream call
          IN [s |-> s, o |-> OkVal(x.e, x.c)]
     ELSE IF ~InRange(n, Pos(a.i))
     THEN [s |-> s, o |-> Err("IndexError")]     \* input_dataset[item] raises
     ELSE LET j  == Norm(n, Pos(a.i))
              c  == s.calls[j + 1] + 1           \* upstream call
              s1 == [s EXCEPT !.calls[j + 1] = c]
              x  == [k |-> key.k, np |-> key.np, e |-> j, c |-> c]
          IN IF W.det /\ ~s.dir.ex
             THEN \* check(): shutil.disk_usage(removed directory)
                  [s |-> s1, o |-> Err("FileNotFoundError")]
             ELSE IF W.det
             THEN [s |-> [s1 EXCEPT !.wr[w].snap = @ \cup {x}], o |-> OkVal(j, c)]
             ELSE [s |-> [s1 EXCEPT !.dir.ent = @ \cup {x}], o |-> OkVal(j, c)]

StepCopy(s, a) ==
  IF ~IsLive(s, a.h)
  THEN [s |-> [s EXCEPT !.hd = Append(@, [w |-> 0, live |-> FALSE])],
        o |-> Err("BadHandle")]
  ELSE LET w == s.hd[a.h].w
       IN [s |-> [s EXCEPT !.hd = Append(@, [w |-> w, live |-> TRUE]),
                           !.wr[w].rc = @ + 1],
           o |-> OkNone]

StepRelease(s, a) ==
  IF ~IsLive(s, a.h) THEN [s |-> s, o |-> Err("BadHandle")]
  ELSE
  LET w  == s.hd[a.h].w
      W  == s.wr[w]
      s1 == [s EXCEPT !.hd[a.h].live = FALSE, !.wr[w].rc = @ - 1]
  IN IF W.rc > 1 THEN [s |-> s1, o |-> OkNone]   \* a copy keeps the wrapper alive
     ELSE \* _DiskCacheWrapper.__del__
       LET s2 == [s1 EXCEPT !.wr[w].open = FALSE]
       IN IF W.clear /\ s.dir.ex
          THEN LET wr3 == [v \in 1..Len(s2.wr) |->
                            IF s2.wr[v].open /\ ~s2.wr[v].det
                            THEN [s2.wr[v] EXCEPT !.det = TRUE, !.snap = s.dir.ent]
                            ELSE s2.wr[v]]
               IN [s |-> [s2 EXCEPT !.dir = Absent, !.wr = wr3], o |-> OkNone]
          ELSE [s |-> s2, o |-> OkNone]

StepKill(s) ==
  [s |-> [s EXCEPT !.hd = [h \in 1..Len(s.hd) |-> [s.hd[h] EXCEPT !.live = FALSE]],
                   !.wr = [v \in 1..Len(s.wr) |->
                             [s.wr[v] EXCEPT !.open = FALSE, !.rc = 0]]],
   o |-> OkNone]

Step(n, s, a) ==
  CASE a.a = "open"    -> StepOpen(s, a)
    [] a.a = "access"  -> StepAccess(n, s, a)
    [] a.a = "copy"    -> StepCopy(s, a)
    [] a.a = "release" -> StepRelease(s, a)
    [] a.a = "kill"    -> StepKill(s)

\* what the harness observes after a step: outcome, upstream counters,
\* whether the directory exists / is non-empty
ObsOf(r) == [ok |-> r.o.ok, e |-> r.o.e, c |-> r.o.c, exc |-> r.o.exc,
             calls |-> r.s.calls, ex |-> r.s.dir.ex, ne |-> NonEmpty(r.s.dir)]

RunModel(n, init, hs) ==
  LET RECURSIVE Go(_, _, _)
      Go(t, s, acc) ==
        IF t > Len(hs) THEN acc
        ELSE LET r == Step(n, s, hs[t]) IN Go(t + 1, r.s, Append(acc, ObsOf(r)))
  IN Go(1, InitState(n, init), <<>>)

-----------------------------------------------------------------------------
(* THE PROPERTY, as a verdict over (history, observation) - independent of *)
(* the model above: an observer that knows only what the statement of C11  *)
(* talks about (which dataset objects share a cache, what was read, what   *)
(* the upstream was asked, whether the directory exists).                  *)
(*                                                                         *)
(*  ValuesExact        every read delivers a value <<e,c>> the upstream    *)
(*                     produced (1 <= c <= calls[e]); within one cache     *)
(*                     lifetime (directory not removed in between) every   *)
(*                     read of an example equals the FIRST value read      *)
(*  NeverMisplaced     a read of index i delivers example Norm(i)          *)
(*  ReuseServesStored  an example read (= stored) earlier in the lifetime  *)
(*                     of the directory is read again without an upstream  *)
(*                     call - same instance, copies, later instances,      *)
(*                     after a kill; an Open that must be accepted is      *)
(*  RefuseNonEmpty     Open(reuse=FALSE) on a non-empty directory fails    *)
(*  ClearedIffAsked    after the last release of a wrapper the directory   *)
(*                     is absent iff clear; it disappears at no other step *)
(*  CopiesKeepAlive    a release that is not the last one of its wrapper   *)
(*                     leaves the directory in place                       *)
(*                                                                         *)
(* SILENT ZONE: the statement speaks of "the last dataset sharing the      *)
(* cache" - datasets share a cache through copy().  Two INDEPENDENT        *)
(* datasets opened on one directory at the same time with one of them      *)
(* clearing it under the other is a case the statement is silent about:    *)
(* from the moment a wrapper with clear=TRUE is torn down while another    *)
(* wrapper is open, nothing further is judged (`silent`).                  *)

ClauseOrder == <<"NeverMisplaced", "ValuesExact", "ReuseServesStored",
                 "RefuseNonEmpty", "ClearedIffAsked", "CopiesKeepAlive">>

ObsInit(n, init) ==
  [hw |-> <<>>, lv |-> <<>>, wcl |-> <<>>, wrc |-> <<>>, seen |-> {}, used |-> {},
   ex |-> InitDir(init).ex, ne |-> NonEmpty(InitDir(init)),
   calls |-> [j \in 1..n |-> 0], silent |-> FALSE, nt |-> 0,
   step |-> 0, also |-> <<>>, mech |-> "none"]

\* failing clauses of step t, in ClauseOrder
Fails(flags) == SelectSeq(ClauseOrder, LAMBDA cl : cl \in flags)

ObsStep(n, A, t, a, o) ==
  LET liveH == a.h >= 1 /\ a.h <= Len(A.lv) /\ A.lv[a.h]
      \* ---- what this step changes in the sharing structure ------------
      isOpen == a.a = "open"
      isCopy == a.a = "copy"
      newW   == Len(A.wcl) + 1
      hw1 == IF isOpen THEN Append(A.hw, IF o.ok THEN newW ELSE 0)
             ELSE IF isCopy THEN Append(A.hw, IF o.ok /\ liveH THEN A.hw[a.h] ELSE 0)
             ELSE A.hw
      lv1 == IF isOpen THEN Append(A.lv, o.ok)
             ELSE IF isCopy THEN Append(A.lv, o.ok /\ liveH)
             ELSE IF a.a = "release" /\ liveH THEN [A.lv EXCEPT ![a.h] = FALSE]
             ELSE IF a.a = "kill" THEN [h \in 1..Len(A.lv) |-> FALSE]
             ELSE A.lv
      wcl1 == IF isOpen /\ o.ok THEN Append(A.wcl, a.clear) ELSE A.wcl
      wrc1 == IF isOpen /\ o.ok THEN Append(A.wrc, 1)
              ELSE IF isCopy /\ o.ok /\ liveH THEN [A.wrc EXCEPT ![A.hw[a.h]] = @ + 1]
              ELSE IF a.a = "release" /\ liveH THEN [A.wrc EXCEPT ![A.hw[a.h]] = @ - 1]
              ELSE IF a.a = "kill" THEN [v \in 1..Len(A.wrc) |-> 0]
              ELSE A.wrc
      \* ---- release bookkeeping ------------------------------------------
      w       == IF liveH THEN A.hw[a.h] ELSE 0
      lastRel == a.a = "release" /\ liveH /\ A.wrc[w] = 1
      others  == {v \in 1..Len(A.wrc) : v # w /\ A.wrc[v] > 0}
      clr     == lastRel /\ A.wcl[w]
      \* ---- access bookkeeping -------------------------------------------
      acc   == a.a = "access" /\ liveH
      inr   == InRange(n, Pos(a.i))
      j     == Norm(n, Pos(a.i))
      first == {x \in A.seen : x.e = j}
      known == acc /\ inr /\ first # {}
      comp  == acc /\ inr /\ o.calls[j + 1] > A.calls[j + 1]
      rawUsed == {u \in A.used : u.e = j}
      \* ---- clauses ------------------------------------------------------
      fNM == acc /\ o.ok /\ (~inr \/ o.e # j)
      fVE == \/ acc /\ inr /\ ~o.ok                          \* no value at all
             \/ acc /\ inr /\ o.ok /\ o.e = j /\ ~(1 <= o.c /\ o.c <= o.calls[j + 1])
             \/ known /\ o.ok /\ o.e = j
                   /\ ~(\E x \in first : x.c = o.c)          \* not the first value
             \/ isOpen /\ ~o.ok /\ ~a.reuse /\ ~A.ne              \* fresh open refused
      fRS == \/ known /\ comp
             \/ isOpen /\ ~o.ok /\ a.reuse                   \* reuse=TRUE not accepted
      fRN == isOpen /\ ~a.reuse /\ A.ne /\ o.ok
      fCI == \/ lastRel /\ others = {} /\ (o.ex = A.wcl[w]) /\ A.ex
             \/ lastRel /\ others # {} /\ ~A.wcl[w] /\ A.ex /\ ~o.ex
             \/ ~(a.a = "release" /\ liveH) /\ A.ex /\ ~o.ex  \* removed unasked
      fCK == a.a = "release" /\ liveH /\ ~lastRel /\ A.ex /\ ~(o.ex /\ o.ne)
      flags == (IF fNM THEN {"NeverMisplaced"} ELSE {}) \cup
               (IF fVE THEN {"ValuesExact"} ELSE {}) \cup
               (IF fRS THEN {"ReuseServesStored"} ELSE {}) \cup
               (IF fRN THEN {"RefuseNonEmpty"} ELSE {}) \cup
               (IF fCI THEN {"ClearedIffAsked"} ELSE {}) \cup
               (IF fCK THEN {"CopiesKeepAlive"} ELSE {})
      \* clause instances that were really put to the test by this step
      tested == (IF acc /\ inr THEN 1 ELSE 0) + (IF known THEN 1 ELSE 0)
                + (IF isOpen /\ ~a.reuse /\ A.ne THEN 1 ELSE 0)
                + (IF lastRel /\ others = {} /\ A.ex THEN 1 ELSE 0)
                + (IF a.a = "release" /\ liveH /\ ~lastRel /\ A.ex THEN 1 ELSE 0)
      \* why a stored example was not recognised: the raw key of this access
      \* was never used for the example in this lifetime (key aliasing)
      mech == IF known /\ (fRS \/ fVE) /\ ~(\E u \in rawUsed : u.k = a.i /\ u.np = a.np)
              THEN (IF \E u \in rawUsed : u.np = a.np THEN "neg-index" ELSE "np-int-key")
              ELSE "none"
      judged == ~A.silent /\ A.step = 0
      \* ---- lifetime -----------------------------------------------------
      seen1 == IF ~o.ex THEN {}
               ELSE IF acc /\ inr /\ o.ok /\ first = {}
               THEN A.seen \cup {[e |-> j, c |-> o.c]} ELSE A.seen
      used1 == IF ~o.ex THEN {}
               ELSE IF acc /\ inr /\ o.ok
               THEN A.used \cup {[e |-> j, k |-> a.i, np |-> a.np]} ELSE A.used
  IN [hw |-> hw1, lv |-> lv1, wcl |-> wcl1, wrc |-> wrc1, seen |-> seen1, used |-> used1,
      ex |-> o.ex, ne |-> o.ne, calls |-> o.calls,
      silent |-> A.silent \/ (clr /\ others # {}),
      nt   |-> IF judged THEN A.nt + tested ELSE A.nt,
      step |-> IF judged /\ flags # {} THEN t ELSE A.step,
      also |-> IF judged /\ flags # {} THEN Fails(flags) ELSE A.also,
      mech |-> IF judged /\ flags # {} THEN mech ELSE A.mech]

\* Verdict of C11 on one lifecycle: history hs, observation os (one record
\* per step).  [st, clause, also, step, mech, silent, nt]
V_C11(n, init, hs, os) ==
  LET RECURSIVE Go(_, _)
      Go(t, A) == IF t > Len(hs) \/ t > Len(os) THEN A
                  ELSE Go(t + 1, ObsStep(n, A, t, hs[t], os[t]))
      F == Go(1, ObsInit(n, init))
  IN [st     |-> IF F.step > 0 THEN "viol" ELSE IF F.nt > 0 THEN "ok" ELSE "trivial",
      clause |-> IF F.step > 0 THEN F.also[1] ELSE IF F.nt > 0 THEN "all" ELSE "nothing-to-check",
      also   |-> F.also, step |-> F.step, mech |-> F.mech,
      silent |-> F.silent, nt |-> F.nt]

\* conformance of a real observation with the model's prediction
DriftAt(os, ms) ==
  IF Len(os) # Len(ms) THEN 0 - 1
  ELSE IF \A t \in 1..Len(os) : os[t] = ms[t] THEN 0
  ELSE CHOOSE t \in 1..Len(os) : os[t] # ms[t] /\ \A u \in 1..(t - 1) : os[u] = ms[u]

-----------------------------------------------------------------------------
(* The state machine TLC explores (spec -> code: every reachable history   *)
(* is emitted and replayed on the real library).                           *)

VARIABLES dir, wr, hd, calls, hist, obs, init0
vars == <<dir, wr, hd, calls, hist, obs, init0>>

St == [dir |-> dir, wr |-> wr, hd |-> hd, calls |-> calls]

Init == /\ init0 \in Inits
        /\ dir = InitDir(init0)
        /\ wr = <<>> /\ hd = <<>>
        /\ calls = [j \in 1..N |-> 0]
        /\ hist = <<>> /\ obs = <<>>

Do(a) == LET r == Step(N, St, a)
         IN /\ Len(hist) < Depth
            /\ dir' = r.s.dir /\ wr' = r.s.wr /\ hd' = r.s.hd /\ calls' = r.s.calls
            /\ hist' = Append(hist, a)
            /\ obs' = Append(obs, ObsOf(r))
            /\ UNCHANGED init0

LiveH  == {h \in 1..Len(hd) : hd[h].live}
OpenW  == {w \in 1..Len(wr) : wr[w].open}
Count(name) == Cardinality({t \in 1..Len(hist) : hist[t].a = name})

\* first open, or an open next to wrappers that are still open (overlap)
Open(r, c) == /\ Count("open") < MaxOpens
              /\ (OpenW # {} \/ Count("open") = 0)
              /\ Cardinality(OpenW) < MaxOpen
              /\ Do(ActOpen(r, c))
\* open after everything was released or killed
Reopen(r, c) == /\ Count("open") < MaxOpens
                /\ OpenW = {} /\ Count("open") > 0
                /\ Do(ActOpen(r, c))
Access(h, f) == h \in LiveH /\ Do(ActAccess(h, f.i, f.np))
Copy(h)      == h \in LiveH /\ Count("copy") < MaxCopies /\ Do(ActCopy(h))
Release(h)   == h \in LiveH /\ Do(ActRelease(h))
KillWriter   == LiveH # {} /\ Count("kill") < MaxKills /\ Do(ActKill)

Next == \/ \E r, c \in BOOLEAN : Open(r, c) \/ Reopen(r, c)
        \/ \E h \in 1..Len(hd) : \/ \E f \in Forms : Access(h, f)
                                 \/ Copy(h)
                                 \/ Release(h)
        \/ KillWriter

Spec == Init /\ [][Next]_vars

-----------------------------------------------------------------------------
(* Structural invariants of the model (design level)                       *)

TypeOK ==
  /\ \A w \in 1..Len(wr) : wr[w].rc = Cardinality({h \in 1..Len(hd) : hd[h].live /\ hd[h].w = w})
  /\ \A w \in 1..Len(wr) : wr[w].open <=> wr[w].rc > 0
  /\ \A w \in 1..Len(wr) : (wr[w].open /\ ~wr[w].det) => dir.ex /\ dir.db
  /\ dir.ent # {} => dir.db
  /\ ~dir.ex => dir = Absent
  /\ \A x \in dir.ent : 1 <= x.c /\ x.c <= calls[x.e + 1]

\* the property on the model's own observation (design level)
ModelVerdict == V_C11(N, init0, hist, obs)
DesignHolds  == ModelVerdict.st # "viol"

\* always true; emits every lifecycle with the model's observation + verdict
EmitLifecycle ==
  Len(hist) > 0 =>
    PrintT(<<"VEC", ToJson([n |-> N, init |-> init0, hist |-> hist, obs |-> obs,
                            mv |-> ModelVerdict])>>)
=============================================================================
