------------------------------ MODULE Isolation ------------------------------
(***************************************************************************)
(* C09  EXAMPLES HANDED OUT ARE ISOLATED FROM THE STORED DATA.             *)
(*                                                                         *)
(* A HEAP MODEL.  An example is a two-level object, so that a deep copy    *)
(* can be told from a shallow one:                                         *)
(*   tops[id]  = [key, tv, nref]   the top-level dict: its own mutable      *)
(*                                 field tv and a REFERENCE to             *)
(*   nests[id] = [nv]              the nested container with its field nv   *)
(* Content(id) = <<key, tv, nv>>; the pristine content of every example is *)
(* tv = nv = 0; the mutation done by step number t writes the stamp t.     *)
(* Python twin: {'t': tv, 'a': [key, {'b': nv}]}  with  x['t'] = t  and    *)
(* x['a'][1]['b'] = t.                                                      *)
(*                                                                         *)
(* A store entry is BYTES (an immutable snapshot of content) or a          *)
(* REFERENCE to a heap object:  [kind, tv, nv, ref].                       *)
(*   st.src[k]   what DictDataset / ListDataset.examples holds             *)
(*   st.cch[k]   what the cache in front of it holds ("none" = absent)     *)
(*   st.orig[k]  the object in the CALLER'S container passed to new()      *)
(*   st.handed   the objects the caller got from the dataset and kept      *)
(*                                                                         *)
(* Storage modes, transcribing lazy_dataset/core.py:                       *)
(*  "pickle"    _get_serialize_and_deserialize: (pickle.dumps, loads):     *)
(*              bytes at construction, a fresh object per access           *)
(*  "copy"      (lambda x: x, deepcopy): the ORIGINAL object is stored BY  *)
(*              REFERENCE, a deep copy per access.  Mutating the original  *)
(*              after construction IS visible - C09 promises independence  *)
(*              from the original only for pickle and wu.                  *)
(*  "wu"        NumpySerializedList: bytes; loads per access               *)
(*  "mempickle" ds.cache() = CacheDataset(pickle) over a pickle source:    *)
(*              miss: value = input[item] (fresh); _cache[item] = value    *)
(*              stores pickle.dumps(value); the FRESH value is returned;   *)
(*              hit: loads -> fresh                                        *)
(*  "memcopy"   CacheDataset(ds, immutable_warranty='copy'): serialize is  *)
(*              the identity, so `_cache[item] = value` stores the very    *)
(*              object that is then returned (defect S15); hit: deepcopy   *)
(*  "disk"      DiskCacheDataset: diskcache pickles on store               *)
(*                                                                         *)
(* A history is a sequence of steps [op, path, k, h, lvl]:                 *)
(*   "acc"  read example k through `path` and keep the object              *)
(*   "mut"  mutate the h-th kept object in place at level lvl              *)
(*   "mo"   mutate, in place, the example k of the caller's container      *)
(*   "ro"   rebind entry k of the caller's container to a new example      *)
(***************************************************************************)
EXTENDS Integers, Sequences, FiniteSets, TLC, Json, Defects

CONSTANTS
  Pars,      \* set of [mode, src, k] records (k = K)
  K,         \* number of examples
  Depth,
  Paths,     \* subset of AllPaths
  Lvls,      \* subset of {"top", "nest"}
  MaxHand,   \* objects kept by the caller
  MaxMo,     \* mutations of the original per history ("mo" + "ro")
  Rebind     \* BOOLEAN: "ro" steps

AllPaths  == <<"idx", "key", "slice", "iter", "items", "copy">>
ListPaths == {"idx", "slice", "iter", "copy"}
PathsOf(par) == IF par.src = "list" THEN Paths \cap ListPaths ELSE Paths

P(mode, src) == [mode |-> mode, src |-> src, k |-> K]
ParsAll   == {P("pickle", "dict"), P("pickle", "list"), P("copy", "dict"), P("copy", "list"),
              P("wu", "list"), P("mempickle", "dict"), P("memcopy", "dict"),
              P("disk", "dict")}
ParsNew   == {P("pickle", "dict"), P("pickle", "list"), P("copy", "dict"), P("copy", "list"),
              P("wu", "list")}
ParsCache == {P("mempickle", "dict"), P("memcopy", "dict")}
ParsDisk  == {P("disk", "dict")}
ParsDeep  == {P("pickle", "dict"), P("copy", "dict"), P("wu", "list"),
              P("mempickle", "dict"), P("memcopy", "dict")}
PathsAll  == {"idx", "key", "slice", "iter", "items", "copy"}
PathsTwo  == {"idx", "iter"}
PathsThree == {"idx", "items", "copy"}
LvlBoth   == {"top", "nest"}
LvlNest   == {"nest"}

-----------------------------------------------------------------------------
(* Heap                                                                    *)

Bytes(tv, nv) == [kind |-> "bytes", tv |-> tv, nv |-> nv, ref |-> 0]
Ref(id)       == [kind |-> "ref", tv |-> 0, nv |-> 0, ref |-> id]
Absent        == [kind |-> "none", tv |-> 0, nv |-> 0, ref |-> 0]

\* a new two-level object; its id is Len(tops) + 1
Alloc(st, k, tv, nv) ==
  [st EXCEPT !.nests = Append(@, [nv |-> nv]),
             !.tops  = Append(@, [key |-> k, tv |-> tv, nref |-> Len(st.nests) + 1])]
NewId(st) == Len(st.tops) + 1
Tv(st, id) == st.tops[id].tv
Nv(st, id) == st.nests[st.tops[id].nref].nv

\* pickle.loads(bytes) / deepcopy(obj): a fresh object, nothing shared
Loads(st, k, e)   == [st |-> Alloc(st, k, e.tv, e.nv), id |-> NewId(st)]
DeepCopy(st, id)  == [st |-> Alloc(st, st.tops[id].key, Tv(st, id), Nv(st, id)),
                      id |-> NewId(st)]
\* pickle.dumps(obj)
Dumps(st, id)     == Bytes(Tv(st, id), Nv(st, id))

-----------------------------------------------------------------------------
(* Construction: the caller builds a container of pristine examples and    *)
(* passes it to new(container, immutable_warranty) [.cache() / diskcache()] *)

SrcKind(mode) == IF mode = "copy" THEN "copy" ELSE "pickle"

InitState(par) ==
  LET n      == par.k
      tops0  == [k \in 1..n |-> [key |-> k, tv |-> 0, nref |-> k]]
      nests0 == [k \in 1..n |-> [nv |-> 0]]
  IN [tops |-> tops0, nests |-> nests0,
      orig |-> [k \in 1..n |-> k],
      \* from_dict / from_list: examples = {k: serialize(v)}
      src  |-> [k \in 1..n |-> IF SrcKind(par.mode) = "copy" THEN Ref(k) ELSE Bytes(0, 0)],
      cch  |-> [k \in 1..n |-> Absent],
      handed |-> <<>>, clock |-> 0]

\* the dataset below the cache: MapDataset(deserialize)[k]
ReadSrc(par, st, k) ==
  IF st.src[k].kind = "ref" THEN DeepCopy(st, st.src[k].ref)
  ELSE Loads(st, k, st.src[k])

(* One example through the dataset (every access path ends here).          *)
(* CacheDataset.__getitem__:                                               *)
(*   try: return self._cache[item]                 # deserialize(stored)   *)
(*   except KeyError:                                                      *)
(*       value = self.input_dataset[item]                                  *)
(*       if self.check(): self._cache[item] = value   # serialize(value)   *)
(*       return value                                                      *)
Read(par, st, k) ==
  CASE par.mode \in {"pickle", "copy", "wu"} -> ReadSrc(par, st, k)
    [] par.mode \in {"mempickle", "disk"} ->
         IF st.cch[k].kind = "bytes" THEN Loads(st, k, st.cch[k])
         ELSE LET r == ReadSrc(par, st, k)
              IN [st |-> [r.st EXCEPT !.cch[k] = Dumps(r.st, r.id)], id |-> r.id]
    [] par.mode = "memcopy" ->
         IF st.cch[k].kind = "ref" THEN DeepCopy(st, st.cch[k].ref)
         ELSE LET r == ReadSrc(par, st, k) IN
              IF "S15" \in Unfixed
              THEN \* serialize = identity: the returned object IS the stored one
                   [st |-> [r.st EXCEPT !.cch[k] = Ref(r.id)], id |-> r.id]
              ELSE \* repaired: a private copy is stored
                   LET c == DeepCopy(r.st, r.id)
                   IN [st |-> [c.st EXCEPT !.cch[k] = Ref(c.id)], id |-> r.id]

\* list(ds) / list(ds.items()): every example is read, in order
ReadAll(par, st) ==
  LET RECURSIVE Go(_, _, _)
      Go(s, j, ids) == IF j > par.k THEN [st |-> s, ids |-> ids]
                       ELSE LET r == Read(par, s, j)
                            IN IF r.id < 0 THEN [st |-> s, ids |-> ids]     \* (forces r)
                               ELSE Go(r.st, j + 1, Append(ids, r.id))
  IN Go(st, 1, <<>>)

\* ds[k] | ds[key] | ds[k:][0] | ds.copy(freeze=True)[k] | list(ds)[k] | list(ds.items())[k][1]
Access(par, st, path, k) ==
  IF path \in {"iter", "items"}
  THEN LET r == ReadAll(par, st) IN [st |-> r.st, id |-> r.ids[k]]
  ELSE Read(par, st, k)

-----------------------------------------------------------------------------
(* Steps                                                                   *)

Stp(op, path, k, h, lvl) == [op |-> op, path |-> path, k |-> k, h |-> h, lvl |-> lvl]

MutateObj(st, id, lvl, stamp) ==
  IF lvl = "top" THEN [st EXCEPT !.tops[id].tv = stamp]
  ELSE [st EXCEPT !.nests[st.tops[id].nref].nv = stamp]

\* objects the library or the caller's container hold
StoredTops(st) ==
  LET D == 1..Len(st.src) IN
  {st.src[k].ref : k \in {j \in D : st.src[j].kind = "ref"}}
  \cup {st.cch[k].ref : k \in {j \in D : st.cch[j].kind = "ref"}}
  \cup {st.orig[k] : k \in D} \cup D          \* D: the construction-time originals
\* ascending sequence of the members of Z \subseteq 1..n
SetToSeq(Z, n) ==
  LET RECURSIVE Go(_)
      Go(j) == IF j > n THEN <<>> ELSE (IF j \in Z THEN <<j>> ELSE <<>>) \o Go(j + 1)
  IN Go(1)

NoObs == [exc |-> "none", tv |-> 0, nv |-> 0, at |-> <<>>, an |-> <<>>,
          ast |-> FALSE, asn |-> FALSE]

ApplyStep(par, st0, step) ==
  LET st == [st0 EXCEPT !.clock = @ + 1]
      stamp == st.clock
  IN
  CASE step.op = "acc" ->
         LET r  == Access(par, st, step.path, step.k)
             s2 == r.st
             H  == 1..Len(s2.handed)
         IN [st |-> [s2 EXCEPT !.handed = Append(@, r.id)],
             o  |-> [exc |-> "none", tv |-> Tv(s2, r.id), nv |-> Nv(s2, r.id),
                     at |-> SetToSeq({h \in H : s2.handed[h] = r.id}, Len(s2.handed)),
                     an |-> SetToSeq({h \in H : s2.tops[s2.handed[h]].nref = s2.tops[r.id].nref},
                                    Len(s2.handed)),
                     ast |-> r.id \in StoredTops(s2),
                     asn |-> \E x \in StoredTops(s2) : s2.tops[x].nref = s2.tops[r.id].nref]]
    [] step.op = "mut" ->
         [st |-> MutateObj(st, st.handed[step.h], step.lvl, stamp), o |-> NoObs]
    [] step.op = "mo" ->
         [st |-> MutateObj(st, st.orig[step.k], step.lvl, stamp), o |-> NoObs]
    [] step.op = "ro" ->
         LET s2 == Alloc(st, step.k, stamp, stamp)
         IN [st |-> [s2 EXCEPT !.orig[step.k] = NewId(st)], o |-> NoObs]
    [] OTHER -> [st |-> st, o |-> [NoObs EXCEPT !.exc = "bad-step"]]

\* after the history: every example through every path, in this fixed order
ProbeOrder(par) ==
  LET RECURSIVE Go(_)
      Go(j) == IF j > Len(AllPaths) THEN <<>>
               ELSE (IF par.src = "dict" \/ AllPaths[j] \in ListPaths
                     THEN [k \in 1..par.k |-> [path |-> AllPaths[j], k |-> k]] ELSE <<>>)
                    \o Go(j + 1)
  IN Go(1)

FinalProbe(par, st) ==
  LET order == ProbeOrder(par)
      RECURSIVE Go(_, _, _)
      Go(s, j, acc) ==
        IF j > Len(order) THEN acc
        ELSE LET r == Access(par, s, order[j].path, order[j].k)
                 o == [path |-> order[j].path, k |-> order[j].k, exc |-> "none",
                       tv |-> Tv(r.st, r.id), nv |-> Nv(r.st, r.id)]
             \* TLC passes operator arguments lazily: force every step, or the
             \* whole history is evaluated as one nested thunk (stack overflow)
             IN IF o.tv < 0 - 1 THEN acc ELSE Go(r.st, j + 1, Append(acc, o))
  IN Go(st, 1, <<>>)

\* the model's observation of a whole history: [steps, final]
ModelRun(par, hist) ==
  LET RECURSIVE Go(_, _, _)
      Go(s, j, acc) == IF j > Len(hist) THEN [st |-> s, steps |-> acc]
                       ELSE LET r == ApplyStep(par, s, hist[j])
                            IN IF r.st.clock < 0 \/ r.o.exc = "" THEN [st |-> s, steps |-> acc]
                               ELSE Go(r.st, j + 1, Append(acc, r.o))      \* (forced)
      r == Go(InitState(par), 1, <<>>)
  IN [steps |-> r.steps, final |-> FinalProbe(par, r.st)]

-----------------------------------------------------------------------------
(* THE PROPERTY, over (parameters, history, observation) only.             *)
(* obs = [steps |-> <<[exc, tv, nv, at, an, ast, asn]>>,                    *)
(*        final |-> <<[path, k, exc, tv, nv]>>]                             *)
(*   tv, nv    content of the returned object (deep comparison done by the *)
(*             harness; anything that is not the expected shape is -1)     *)
(*   at / an   earlier kept objects identical to it (`is`) at top level /  *)
(*             at a nested level; ast / asn the same against the objects   *)
(*             the caller's container and the library's stores hold        *)

V_C09(par, hist, obs) ==
  LET T == Len(hist)
      \* 'copy' mode: the statement promises nothing once the ORIGINAL was touched
      Exempt(k, t) == par.mode = "copy" /\
                      \E u \in 1..(t - 1) : hist[u].op \in {"mo", "ro"} /\ hist[u].k = k
      Accs == {t \in 1..T : hist[t].op = "acc"}
      Muts == {t \in 1..T : hist[t].op \in {"mut", "mo", "ro"}}
      ReadsPristine ==
        /\ \A t \in Accs : ~Exempt(hist[t].k, t) =>
             (obs.steps[t].exc = "none" /\ obs.steps[t].tv = 0 /\ obs.steps[t].nv = 0)
        /\ \A j \in 1..Len(obs.final) : ~Exempt(obs.final[j].k, T + 1) =>
             (obs.final[j].exc = "none" /\ obs.final[j].tv = 0 /\ obs.final[j].nv = 0)
      NoAlias ==
        \A t \in Accs : obs.steps[t].exc = "none" =>
          /\ obs.steps[t].at = <<>> /\ obs.steps[t].an = <<>>
          /\ ~obs.steps[t].ast /\ ~obs.steps[t].asn
      NoError == \A t \in 1..T : obs.steps[t].exc = "none"
  IN IF ~NoError THEN <<"viol", "Raises">>
     ELSE IF ~NoAlias THEN <<"viol", "NoAlias">>
     ELSE IF ~ReadsPristine THEN <<"viol", "ReadsPristine">>
     ELSE IF Muts = {} THEN <<"trivial", "no-mutation">>
     ELSE IF \A k \in 1..par.k : Exempt(k, T + 1) THEN <<"trivial", "copy-mode-original-mutated">>
     ELSE <<"ok", IF Accs = {} THEN "probe-only" ELSE "handed">>

ConformsAt(o, m) ==
  IF Len(o.steps) # Len(m.steps) THEN "length"
  ELSE IF \E t \in 1..Len(m.steps) : o.steps[t] # m.steps[t]
  THEN LET t == CHOOSE u \in 1..Len(m.steps) :
                  o.steps[u] # m.steps[u] /\ \A w \in 1..(u - 1) : o.steps[w] = m.steps[w]
       IN IF o.steps[t].exc # m.steps[t].exc THEN "exc:" \o o.steps[t].exc
          ELSE IF <<o.steps[t].tv, o.steps[t].nv>> # <<m.steps[t].tv, m.steps[t].nv>>
          THEN "content" ELSE "identity"
  ELSE IF o.final # m.final THEN "final-reads"
  ELSE "conforms"

-----------------------------------------------------------------------------
(* The state machine: BFS enumerates every history up to Depth.            *)

VARIABLES par, st, hist, mobs
vars == <<par, st, hist, mobs>>

CountOps(S) == Cardinality({t \in 1..Len(hist) : hist[t].op \in S})

Steps ==
  (IF Len(st.handed) < MaxHand
   THEN {Stp("acc", p, k, 0, "") : p \in PathsOf(par), k \in 1..K} ELSE {})
  \cup {Stp("mut", "", 0, h, lv) : h \in 1..Len(st.handed), lv \in Lvls}
  \cup (IF CountOps({"mo", "ro"}) < MaxMo
        THEN {Stp("mo", "", k, 0, lv) : k \in 1..K, lv \in Lvls}
             \cup (IF Rebind THEN {Stp("ro", "", k, 0, "") : k \in 1..K} ELSE {})
        ELSE {})

Init == /\ par \in Pars
        /\ st = InitState(par)
        /\ hist = <<>>
        /\ mobs = <<>>

Next == /\ Len(hist) < Depth
        /\ \E step \in Steps :
             LET r == ApplyStep(par, st, step)
             IN /\ st' = r.st
                /\ hist' = Append(hist, step)
                /\ mobs' = Append(mobs, r.o)
                /\ par' = par

Spec == Init /\ [][Next]_vars

ModelObs == [steps |-> mobs, final |-> FinalProbe(par, st)]
ModelVerdict == V_C09(par, hist, ModelObs)

EmitHistory ==
  PrintT(<<"VEC", ToJson([par |-> par, hist |-> hist, mv |-> ModelVerdict])>>)

-----------------------------------------------------------------------------
(* Design-level invariants on the heap itself (repaired model).            *)

DesignHolds == ModelVerdict[1] # "viol"

\* no kept object is, or shares a nested part with, a stored object or
\* another kept object
HeapNoAlias ==
  /\ \A h1, h2 \in 1..Len(st.handed) : h1 # h2 =>
       /\ st.handed[h1] # st.handed[h2]
       /\ st.tops[st.handed[h1]].nref # st.tops[st.handed[h2]].nref
  /\ \A h \in 1..Len(st.handed) : \A x \in StoredTops(st) :
       /\ st.handed[h] # x
       /\ st.tops[st.handed[h]].nref # st.tops[x].nref

\* what the stores hold is pristine unless the statement exempts it
StoresPristine ==
  \A k \in 1..par.k :
    /\ st.cch[k].kind = "bytes" => (st.cch[k].tv = 0 /\ st.cch[k].nv = 0)
    /\ st.cch[k].kind = "ref" => (Tv(st, st.cch[k].ref) = 0 /\ Nv(st, st.cch[k].ref) = 0)
    /\ st.src[k].kind = "bytes" => (st.src[k].tv = 0 /\ st.src[k].nv = 0)
    /\ (st.src[k].kind = "ref" /\ ~\E u \in 1..Len(hist) :
                                     hist[u].op \in {"mo", "ro"} /\ hist[u].k = k)
         => (Tv(st, st.src[k].ref) = 0 /\ Nv(st, st.src[k].ref) = 0)
=============================================================================
