---------------------------- MODULE PipelineTrace ----------------------------
(***************************************************************************)
(* TRACE VALIDATION for the combinator algebra: code -> spec.              *)
(*                                                                         *)
(* The trace file (ndjson, env TRACE_FILE) holds one record per EXECUTED   *)
(* program: [id, prog, obs] where obs is the observation harness/observe.py*)
(* took from the real library.  For every record TLC evaluates the         *)
(* reference semantics and the implementation-shaped model of `prog` and   *)
(* decides, with the very operators used for the design-level check,       *)
(*   - the verdict of each property on the REAL observation,               *)
(*   - whether the real observation is the one the model predicts.         *)
(* Records are independent, so the "behaviour" is a binary tree over the   *)
(* record indices (state l has successors 2l and 2l+1): TLC's workers      *)
(* validate records in parallel and every record is one distinct state.    *)
(***************************************************************************)
EXTENDS Obs, Json, IOUtils

TraceLog == ndJsonDeserialize(IOEnv.TRACE_FILE)
NRec == Len(TraceLog)

VARIABLE l
Init == l = 1
Next == \E c \in {2 * l, 2 * l + 1} : c <= NRec /\ l' = c
Spec == Init /\ [][Next]_l

Judge ==
  l <= NRec =>
    LET rec == TraceLog[l]
        a   == rec.prog
        o   == rec.obs
        m   == ModelObs(a)
    IN PrintT(<<"VERDICT", ToJson(
         [id |-> rec.id, C01 |-> V_C01(a, o, m), C02 |-> V_C02(a, o),
          C03 |-> V_C03(a, o), C14 |-> V_C14(a, o, m), C18 |-> V_C18(a, o),
          conf |-> IF Conforms(o, m) THEN "conforms" ELSE DriftWhere(o, m)])>>)
=============================================================================
