CONSTANTS
  MaxN = 0
  Bufs = {1}
  Workers = {1}
  KeepLog = TRUE
SPECIFICATION TSpec
INVARIANT Judge
CHECK_DEADLOCK FALSE
