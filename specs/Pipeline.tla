------------------------------- MODULE Pipeline ------------------------------
(***************************************************************************)
(* PROGRAM CONSTRUCTION AS A STATE MACHINE.                                *)
(*                                                                         *)
(* A state is an API program `prog` (a pipeline a user can write).  Every  *)
(* action applies one combinator, exactly like one more method call on the *)
(* dataset object, so TLC's breadth-first search enumerates ALL programs   *)
(* up to `Depth` combinators over all sources up to `MaxLen` examples.     *)
(* For every program TLC evaluates the implementation-shaped model         *)
(* (Impl.tla) against the reference (Ref.tla) through the verdict          *)
(* operators of Obs.tla and emits                                          *)
(*     <<"VEC", ToJson([prog, mv])>>                                       *)
(* where mv are the model's verdicts.  The harness executes every emitted  *)
(* program on the real library and hands the recorded observations back    *)
(* to TLC (PipelineTrace.tla).                                             *)
(*                                                                         *)
(* The catalogue has a REDUCED part (structural variety, applicable at any *)
(* depth) and a RICH part (all slice forms, all shard coordinates, all     *)
(* permutations, ...) of which a program may contain one operation, at any *)
(* position: |programs| ~ |sources| * Depth * |rich| * |reduced|^(Depth-1) *)
(***************************************************************************)
EXTENDS Obs, Json

CONSTANTS MaxLen,      \* largest source
          Depth,       \* number of combinators
          Family,      \* "core" | "fault" | "sortgroup"
          RichBudget,  \* 0 or 1: how many RICH operations a program may hold
          BigLen,      \* 0, or the length of one additional larger source
          SliceGrid    \* bounds used in slice(a, b, c): a, b \in SliceGrid \cup {NONE}

\* named grids (a cfg file cannot hold negative numbers): SliceGrid <- GridS
GridS == {0 - 1, 0, 1}
GridM == {0 - 2, 0 - 1, 0, 1, 2, 4}
GridL(n) == (0 - n - 1)..(n + 1)
GridL3 == GridL(3)
GridL4 == GridL(4)

VARIABLES prog, depth, rich
vars == <<prog, depth, rich>>

KeyNames == <<"a", "b", "c", "d", "e">>
ListSrc(n, pl, iw) == [op |-> "list", src |-> Range(1, n), pl |-> pl, iw |-> iw]
DictSrc(n, pl, iw) == [op |-> "dict", ks |-> SubSeq(KeyNames, 1, n),
                       src |-> Range(1, n), pl |-> pl, iw |-> iw]
DupList == [op |-> "list", src |-> <<1, 1, 2>>, pl |-> "i", iw |-> "pickle"]
DictPQ  == [op |-> "dict", ks |-> <<"pp", "qq">>, src |-> <<7, 8>>, pl |-> "i", iw |-> "pickle"]

Apply(desc, a) == [x \in (DOMAIN desc) \cup {"in"} |-> IF x = "in" THEN a ELSE desc[x]]
Apply2(desc, a, b) ==
  [x \in (DOMAIN desc) \cup {"in", "in2"} |->
     IF x = "in" THEN a ELSE IF x = "in2" THEN b ELSE desc[x]]

SL(a, b, c) == [op |-> "slice", form |-> [fk |-> "sl", a |-> a, b |-> b, c |-> c]]
IL(idx, as) == [op |-> "slice", form |-> [fk |-> "il", idx |-> idx, as |-> as]]
BM(mask, as) == [op |-> "slice", form |-> [fk |-> "bm", mask |-> mask, as |-> as]]
KL(kl, as)  == [op |-> "slice", form |-> [fk |-> "kl", kl |-> kl, as |-> as]]
P(name) == [pn |-> name]

RECURSIVE SetToSeq(_)
SetToSeq(Z) == IF Z = {} THEN <<>>
               ELSE LET x == CHOOSE y \in Z : TRUE IN <<x>> \o SetToSeq(Z \ {x})
PermsOf(n) == {f \in [1..n -> 0..(n-1)] : \A i, j \in 1..n : i # j => f[i] # f[j]}

\* length of the dataset a program denotes (0 when it has none)
NOf(m) == IF m.build = "ok" /\ m.len.ok THEN m.len.n ELSE 0
KeysOfObs(m) == IF m.build = "ok" /\ m.keys.ok THEN m.keys.ks ELSE <<>>

-----------------------------------------------------------------------------
(* Sources                                                                 *)
CoreSources ==
  [n \in 1..(MaxLen + 1) |-> ListSrc(n - 1, "i", "pickle")]
  \o [n \in 1..(MaxLen + 1) |-> DictSrc(n - 1, "i", "pickle")]
  \o [n \in 1..MaxLen |-> ListSrc(n, "i", "wu")]
  \o <<ListSrc(MaxLen, "i", "copy"), DictSrc(MaxLen, "i", "copy"), DupList>>
  \o (IF BigLen > 0
      THEN <<ListSrc(BigLen, "i", "pickle"),
             [op |-> "dict", ks |-> <<"a", "b", "c", "d", "e", "f", "g", "h">>, src |-> Range(1, 8),
              pl |-> "i", iw |-> "pickle"]>>
      ELSE <<>>)
SortSources ==
  <<[op |-> "dict", ks |-> <<"c", "a", "d", "b">>, src |-> <<2, 1, 2, 0>>, pl |-> "d", iw |-> "pickle"],
    [op |-> "dict", ks |-> <<"b", "a">>, src |-> <<1, 1>>, pl |-> "d", iw |-> "pickle"],
    [op |-> "list", src |-> <<3, 1, 3, 2>>, pl |-> "d", iw |-> "pickle"],
    [op |-> "list", src |-> <<>>, pl |-> "d", iw |-> "pickle"],
    [op |-> "dict", ks |-> <<>>, src |-> <<>>, pl |-> "d", iw |-> "pickle"],
    [op |-> "dict", ks |-> <<"d">>, src |-> <<5>>, pl |-> "d", iw |-> "pickle"]>>
Sources == IF Family = "sortgroup" THEN SortSources ELSE CoreSources

\* second operands of the binary combinators (besides `prog` itself)
Seconds ==
  [n \in 1..(MaxLen + 1) |-> ListSrc(n - 1, "i", "pickle")]
  \o [n \in 1..(MaxLen + 1) |-> DictSrc(n - 1, "i", "pickle")]
  \o <<DictPQ,
       Apply([op |-> "map", f |-> "inc"], DictSrc(MaxLen, "i", "pickle")),
       Apply([op |-> "filter", p |-> P("even"), lazy |-> TRUE], DictSrc(MaxLen, "i", "pickle")),
       Apply(SL(NONE, NONE, 0 - 1), DictSrc(MaxLen, "i", "pickle"))>>

-----------------------------------------------------------------------------
(* Catalogue                                                               *)
BinOps == <<"concat", "intersperse", "zip", "keyzip">>

FailClasses == <<"FilterException", "SubFilterException", "UserValueError",
                 "UserKeyError", "UserIndexError", "UserBaseException">>
CatchNames == <<"Filter", "FilterOrValue", "Exception", "UserKey", "Lookup">>

ReducedUnary(m) ==
  LET n == NOf(m) IN
  <<[op |-> "map", f |-> "inc"],
    [op |-> "map", f |-> "wrap"],
    [op |-> "filter", p |-> P("even"), lazy |-> TRUE],
    [op |-> "filter", p |-> P("even"), lazy |-> FALSE],
    SL(1, NONE, NONE),
    SL(NONE, NONE, 0 - 1),
    IL(IF n >= 1 THEN <<0, 0, 0 - 1>> ELSE <<>>, "list"),
    [op |-> "batch", b |-> 2, drop |-> FALSE],
    [op |-> "batch", b |-> 2, drop |-> TRUE],
    [op |-> "unbatch"],
    [op |-> "items"],
    [op |-> "tile", reps |-> 2],
    [op |-> "sort", key |-> "neg", rev |-> FALSE],
    [op |-> "sort", key |-> "none", rev |-> FALSE],
    [op |-> "split", sk |-> 2, si |-> 1],
    [op |-> "cache", lazy |-> TRUE],
    [op |-> "cache", lazy |-> FALSE],
    [op |-> "catch", E |-> "Filter"],
    [op |-> "copy", freeze |-> TRUE],
    [op |-> "apply", lazy |-> TRUE, ag |-> SL(NONE, NONE, 0 - 1)],
    [op |-> "prefetch", w |-> 1, bs |-> 2, cfe |-> "none"],
    [op |-> "prefetch", w |-> 2, bs |-> 2, cfe |-> "none"]>>
  \o (IF Family = "fault"
      THEN <<[op |-> "fmap", p |-> P("even"), cls |-> "FilterException"],
             [op |-> "fmap", p |-> [pn |-> "insz", sz |-> <<1>>], cls |-> "UserValueError"]>>
      ELSE <<>>)

SliceVals == SetToSeq(SliceGrid \cup {NONE})
StepVals  == <<NONE, 1, 2, 0 - 1, 0 - 2>>
RichSlices ==
  LET A == Len(SliceVals)
      C == Len(StepVals)
  IN [j \in 1..(A * A * C) |->
        SL(SliceVals[((j - 1) \div (A * C)) + 1],
           SliceVals[(((j - 1) \div C) % A) + 1],
           StepVals[((j - 1) % C) + 1])]

RichUnary(m) ==
  LET n  == NOf(m)
      ks == KeysOfObs(m)
  IN
  RichSlices
  \o <<SL(NONE, NONE, 0),
       IL(<<>>, "list"), IL(<<>>, "tuple"), IL(<<>>, "np"),
       IL(<<n>>, "list"), IL(<<0 - n - 1>>, "np"),
       IL(<<0>>, "list"), IL(<<0 - 1>>, "list"), IL(<<0 - 1>>, "tuple"),
       IL(<<n - 1, 0>>, "np"), IL(<<0, 0 - 1, 0>>, "2d"), IL(<<0 - n>>, "list"),
       BM([j \in 1..n |-> j % 2 = 1], "list"), BM([j \in 1..n |-> j % 2 = 0], "np"),
       BM([j \in 1..n |-> FALSE], "list"), BM([j \in 1..(n + 1) |-> TRUE], "list"),
       KL(<<"zz">>, "list"), KL(<<"a">>, "list"), KL(<<"a">>, "tuple"),
       KL(<<"b", "a">>, "list"), KL(<<"b", "b">>, "tuple"), KL(<<"a", "zz">>, "list"),
       KL(ks, "list"),
       [op |-> "map", f |-> "pair"],
       [op |-> "pmap", f |-> "inc", w |-> 2, bs |-> 2],
       [op |-> "pmap", f |-> "wrap", w |-> 1, bs |-> 3],
       [op |-> "filter", p |-> P("gt1"), lazy |-> TRUE],
       [op |-> "filter", p |-> P("gt1"), lazy |-> FALSE],
       [op |-> "filter", p |-> P("never"), lazy |-> TRUE],
       [op |-> "filter", p |-> P("never"), lazy |-> FALSE],
       [op |-> "filter", p |-> P("always"), lazy |-> FALSE],
       [op |-> "filter", p |-> P("odd"), lazy |-> FALSE],
       [op |-> "batch", b |-> 1, drop |-> FALSE], [op |-> "batch", b |-> 1, drop |-> TRUE],
       [op |-> "batch", b |-> 3, drop |-> FALSE], [op |-> "batch", b |-> 3, drop |-> TRUE],
       [op |-> "tile", reps |-> 1], [op |-> "tile", reps |-> 3],
       [op |-> "sort", key |-> "none", rev |-> TRUE],
       [op |-> "sort", key |-> "id", rev |-> FALSE], [op |-> "sort", key |-> "id", rev |-> TRUE],
       [op |-> "sort", key |-> "neg", rev |-> TRUE],
       [op |-> "sort", key |-> "mod2", rev |-> FALSE], [op |-> "sort", key |-> "mod2", rev |-> TRUE],
       [op |-> "sort", key |-> "const", rev |-> FALSE], [op |-> "sort", key |-> "const", rev |-> TRUE],
       [op |-> "group", g |-> "mod2", sel |-> 0], [op |-> "group", g |-> "mod2", sel |-> 1],
       [op |-> "group", g |-> "const", sel |-> 7], [op |-> "group", g |-> "id", sel |-> 2],
       [op |-> "group", g |-> "id", sel |-> 99],
       [op |-> "group", g |-> "fs2", sel |-> 0], [op |-> "group", g |-> "fs2", sel |-> 1],
       [op |-> "group", g |-> "mix2", sel |-> 0], [op |-> "group", g |-> "mix2", sel |-> 1],
       \* a custom sort function (another total order than `sorted`)
       [op |-> "sort", key |-> "id", rev |-> FALSE, sfn |-> "m3"], [op |-> "sort", key |-> "id", rev |-> TRUE, sfn |-> "m3"],
       [op |-> "sort", key |-> "neg", rev |-> FALSE, sfn |-> "m3"], [op |-> "sort", key |-> "mod2", rev |-> TRUE, sfn |-> "m3"],
       [op |-> "sort", key |-> "none", rev |-> FALSE, sfn |-> "m3"], [op |-> "sort", key |-> "none", rev |-> TRUE, sfn |-> "m3"],
       [op |-> "sort", key |-> "big", rev |-> FALSE], [op |-> "sort", key |-> "big", rev |-> TRUE],
       [op |-> "sort", key |-> "biginf", rev |-> FALSE], [op |-> "sort", key |-> "biginf", rev |-> TRUE],
       [op |-> "catch", E |-> "Exception"],
       [op |-> "copy", freeze |-> FALSE],
       \* ds.apply(g, lazy): g from a small catalogue of unary operations
       [op |-> "apply", lazy |-> TRUE,  ag |-> [op |-> "map", f |-> "inc"]],
       [op |-> "apply", lazy |-> FALSE, ag |-> [op |-> "map", f |-> "inc"]],
       [op |-> "apply", lazy |-> TRUE,  ag |-> SL(1, NONE, NONE)],
       [op |-> "apply", lazy |-> FALSE, ag |-> SL(1, NONE, NONE)],
       [op |-> "apply", lazy |-> TRUE,  ag |-> [op |-> "batch", b |-> 2, drop |-> FALSE]],
       [op |-> "apply", lazy |-> TRUE,  ag |-> [op |-> "filter", p |-> P("even"), lazy |-> TRUE]],
       [op |-> "apply", lazy |-> TRUE,  ag |-> [op |-> "sort", key |-> "neg", rev |-> FALSE]],
       [op |-> "apply", lazy |-> TRUE,  ag |-> [op |-> "shard", sk |-> 2, si |-> 1]],
       [op |-> "prefetch", w |-> 1, bs |-> 1, cfe |-> "none"],
       [op |-> "prefetch", w |-> 1, bs |-> 3, cfe |-> "Filter"],
       [op |-> "prefetch", w |-> 2, bs |-> 3, cfe |-> "none"],
       [op |-> "prefetch", w |-> 2, bs |-> 2, cfe |-> "Filter"],
       [op |-> "prefetch", w |-> 3, bs |-> 3, cfe |-> "none"],
       [op |-> "prefetch", w |-> 2, bs |-> 1, cfe |-> "none"]>>
  \o \* cycle() over an empty dataset spins forever (no reference): only
     \* datasets that deliver something are cycled
     (IF m.build = "ok" /\ m.it1.exc = "none" /\ Len(m.it1.items) >= 1
      THEN <<[op |-> "cycle", take |-> 2 * Len(m.it1.items) + 1]>> ELSE <<>>)
  \o \* every shard coordinate, valid and invalid
     FlatSeq([sk \in 1..(n + 3) |->
                [si \in 1..(sk + 1) |->
                   [op |-> IF si % 2 = 0 THEN "shard" ELSE "split",
                    sk |-> sk - 1, si |-> si - 2]]])
  \o \* every permutation for the one-time shuffle (small n)
     (IF n <= 3 /\ m.build = "ok" /\ m.len.ok
      THEN LET ps == SetToSeq(PermsOf(n))
           IN [j \in 1..Len(ps) |-> [op |-> "shuffle", perm |-> ps[j]]]
      ELSE <<>>)
  \o (IF Family = "fault"
      THEN FlatSeq([c \in 1..Len(FailClasses) |->
             <<[op |-> "fmap", p |-> P("odd"), cls |-> FailClasses[c]],
               [op |-> "fmap", p |-> P("always"), cls |-> FailClasses[c]],
               [op |-> "fmap", p |-> [pn |-> "insz", sz |-> <<n>>], cls |-> FailClasses[c]]>>])
           \o [c \in 1..Len(CatchNames) |-> [op |-> "catch", E |-> CatchNames[c]]]
           \o \* every subset of failing positions (sources hold 1..n)
              LET subs == SetToSeq(SUBSET (1..n))
              IN [j \in 1..Len(subs) |->
                    [op |-> "fmap", p |-> [pn |-> "insz", sz |-> SetToSeq(subs[j])],
                     cls |-> "FilterException"]]
      ELSE <<>>)

-----------------------------------------------------------------------------
(* Family "fault" (C14): staged programs                                   *)
(*   source . failing map . [middle] . catch form . [top]                  *)
(* stage 1: the mapped function raises class c exactly on the examples of  *)
(*          EVERY subset of positions (sources hold 1..n), and on the      *)
(*          predicate families;                                            *)
(* stage 2: something between the failing stage and the catch;             *)
(* stage 3: every catch form (catch(E) for all E, thread prefetch with     *)
(*          catch_filter_exception) and the eager operations that must     *)
(*          propagate the failure (eager filter, sort, eager cache);       *)
(* stage 4: consumers on top (items(), map, batch).                        *)
FaultCat(d, m) ==
  LET n == NOf(m) IN
  CASE d = 0 ->
         LET subs == SetToSeq(SUBSET (1..n))
         IN FlatSeq([c \in 1..Len(FailClasses) |->
              [j \in 1..Len(subs) |->
                 [op |-> "fmap", p |-> [pn |-> "insz", sz |-> SetToSeq(subs[j])],
                  cls |-> FailClasses[c]]]])
            \o <<[op |-> "fmap", p |-> P("even"), cls |-> "FilterException"],
                 [op |-> "fmap", p |-> P("odd"), cls |-> "SubFilterException"],
                 [op |-> "fmap", p |-> P("gt1"), cls |-> "UserValueError"],
                 [op |-> "fmap", p |-> P("always"), cls |-> "FilterException"],
                 [op |-> "fmap", p |-> P("never"), cls |-> "UserKeyError"]>>
    [] d = 1 ->
         <<[op |-> "copy", freeze |-> FALSE], [op |-> "map", f |-> "inc"],
           [op |-> "batch", b |-> 2, drop |-> FALSE], SL(NONE, NONE, 0 - 1),
           [op |-> "items"], [op |-> "cache", lazy |-> TRUE],
           [op |-> "fmap", p |-> [pn |-> "insz", sz |-> <<2>>], cls |-> "UserValueError"]>>
    [] d = 2 ->
         [c \in 1..Len(CatchNames) |-> [op |-> "catch", E |-> CatchNames[c]]]
         \o <<[op |-> "prefetch", w |-> 1, bs |-> 2, cfe |-> "Filter"],
              [op |-> "prefetch", w |-> 2, bs |-> 2, cfe |-> "Filter"],
              [op |-> "prefetch", w |-> 2, bs |-> 3, cfe |-> "FilterOrValue"],
              [op |-> "prefetch", w |-> 1, bs |-> 1, cfe |-> "none"],
              [op |-> "filter", p |-> P("even"), lazy |-> FALSE],
              [op |-> "filter", p |-> P("even"), lazy |-> TRUE],
              [op |-> "sort", key |-> "neg", rev |-> FALSE],
              [op |-> "cache", lazy |-> FALSE]>>
    [] OTHER ->
         <<[op |-> "items"], [op |-> "map", f |-> "wrap"], [op |-> "batch", b |-> 2, drop |-> TRUE],
           [op |-> "catch", E |-> "Exception"]>>

-----------------------------------------------------------------------------
MO == ModelObs(prog)
Extendable == prog.op # "cycle" /\ MO.build = "ok"

Init == /\ \E j \in 1..Len(Sources) : prog = Sources[j]
        /\ depth = 0
        /\ rich = (RichBudget = 0)

\* (the LET binds the model observation once per state: TLC does not cache
\*  state-level operator definitions across their uses)
Next ==
  /\ depth < Depth
  /\ depth' = depth + 1
  /\ LET m == MO IN
     /\ prog.op # "cycle" /\ m.build = "ok"
     /\ IF Family = "fault"
        THEN /\ rich' = rich
             /\ LET fc == FaultCat(depth, m) IN \E j \in 1..Len(fc) : prog' = Apply(fc[j], prog)
        ELSE
        \/ /\ rich' = rich
           /\ LET ru == ReducedUnary(m) IN
              \/ \E j \in 1..Len(ru) : prog' = Apply(ru[j], prog)
              \/ \E j \in 1..Len(BinOps) : prog' = Apply2([op |-> BinOps[j]], prog, prog)
              \/ prog' = Apply2([op |-> "concat"], prog, DictPQ)
        \/ /\ ~rich
           /\ rich' = TRUE
           /\ LET rr == RichUnary(m) IN
              \/ \E j \in 1..Len(rr) : prog' = Apply(rr[j], prog)
              \/ \E j \in 1..Len(BinOps), z \in 1..Len(Seconds) :
                   \/ prog' = Apply2([op |-> BinOps[j]], prog, Seconds[z])
                   \/ prog' = Apply2([op |-> BinOps[j]], Seconds[z], prog)

Spec == Init /\ [][Next]_vars

\* verdicts of the design itself (model observation judged by the properties)
ModelVerdicts ==
  [c01 |-> V_C01(prog, MO, MO), c02 |-> V_C02(prog, MO), c03 |-> V_C03(prog, MO),
   c14 |-> V_C14(prog, MO, MO), c18 |-> V_C18(prog, MO)]

\* always true; its side effect hands the program to the harness
EmitProgram == PrintT(<<"VEC", ToJson([prog |-> prog, mv |-> ModelVerdicts])>>)
=============================================================================
