----------------------------- MODULE CacheTrace -----------------------------
(***************************************************************************)
(* TRACE VALIDATION for the memory cache (C10): code -> spec.              *)
(*                                                                         *)
(* The trace file (ndjson, env TRACE_FILE) holds one record per history    *)
(* EXECUTED on the real library by harness/check_cache.py:                 *)
(*   [id, par, hist, obs]                                                  *)
(*   par  = [lazy, ups, keep, pre]       parameters of the execution       *)
(*   hist = <<[op, inst, i, key, s, w, b]>>   the steps that were called   *)
(*   obs  = [init  |-> upstream call counters after ds.cache(..),          *)
(*           steps |-> <<[exc, vs, ks, calls]>>]  what each step returned  *)
(*                     (exception class or values) and the counters after  *)
(* For every record TLC                                                    *)
(*   - evaluates the property verdict V_C10 (Cache.tla) on the REAL        *)
(*     observation, with the very operator used for the design check;      *)
(*   - folds the model (ApplyStep) over the recorded history and reports   *)
(*     whether the real observation is the one the model predicts;         *)
(*   - for a history with a pool step that requests examples twice ("pft", *)
(*     "pfd") evaluates the RELAXED verdict V_C10x(.., TRUE): "ok" when    *)
(*     everything that is wrong with the execution is the check-then-act   *)
(*     race S21 on examples that step requested twice (harness/findings.py *)
(*     match_cache; never used to decide ok / viol).                       *)
(* Records are independent: the behaviour is a binary tree over the record *)
(* indices so that TLC's workers validate records in parallel.             *)
(***************************************************************************)
EXTENDS Integers, Sequences, TLC, Json, IOUtils

\* the enumeration constants of Cache.tla are irrelevant here
Pars == {}  Depth == 0  IdxGrid == {}  KeyProbe == {}  SliceStarts == {}
SubIdx == {}  UpIdx == {}  FreezeVals == {}  MaxInst == 0  PfForms == {}
PftForms == {}  MaxUp == 0  MaxPf == 0
VARIABLES par, st, hist, mobs
C == INSTANCE Cache

TraceLog == ndJsonDeserialize(IOEnv.TRACE_FILE)
NRec == Len(TraceLog)

VARIABLE l
Init == l = 1 /\ par = 0 /\ st = 0 /\ hist = 0 /\ mobs = 0
Next == /\ \E c \in {2 * l, 2 * l + 1} : c <= NRec /\ l' = c
        /\ UNCHANGED <<par, st, hist, mobs>>
Spec == Init /\ [][Next]_<<l, par, st, hist, mobs>>

Judge ==
  l <= NRec =>
    LET rec == TraceLog[l]
        m   == C!ModelRun(rec.par, rec.hist)
    IN PrintT(<<"VERDICT", ToJson(
         [id |-> rec.id,
          C10 |-> C!V_C10(rec.par, rec.hist, rec.obs),
          mv  |-> C!V_C10(rec.par, rec.hist, m),
          s21 |-> IF \E t \in 1..Len(rec.hist) : rec.hist[t].op \in C!RaceOps
                  THEN C!V_C10x(rec.par, rec.hist, rec.obs, TRUE)
                  ELSE <<"na", "no-pool-step-with-repeats">>,
          conf |-> C!ConformsAt(rec.obs, m)])>>)
=============================================================================
