----------------------------- MODULE RandomTrace -----------------------------
(***************************************************************************)
(* TRACE VALIDATION for the shuffling stages (property C12): code -> spec. *)
(*                                                                         *)
(* The trace file (ndjson, env TRACE_FILE) holds one record per REAL       *)
(* execution: [id, sc, hist, obs]                                          *)
(*   sc   the dataset that was built (kind, n, buffer size, iterators, the *)
(*        answers the generator gave at build time),                       *)
(*   hist the next() calls in the order they were made on the real         *)
(*        iterators, each with the rng call the REAL code made during that *)
(*        call and the answer the generator gave (scripted by TLC, or      *)
(*        recorded from a real numpy generator),                           *)
(*   obs  what each real iterator yielded (as source positions), whether   *)
(*        it ended with StopIteration, the exception it raised.            *)
(* For every record TLC decides, with the operators of Random.tla,         *)
(*   - V_C12 on the REAL observation (incl. the S7 classification),        *)
(*   - conformance: replaying `hist` through the model (RunHist) is        *)
(*     possible (the code asked the generator what the model asks) and     *)
(*     yields exactly the real outputs.                                    *)
(* Records are independent: state l has successors 2l and 2l+1.            *)
(***************************************************************************)
EXTENDS Random, IOUtils

TraceLog == ndJsonDeserialize(IOEnv.TRACE_FILE)
NRec == Len(TraceLog)

VARIABLE l
\* the variables of the enumeration machine are not used here
Idle == sc = 0 /\ arr = 0 /\ its = 0 /\ hist = 0
TInit == l = 1 /\ Idle
TNext == /\ \E c \in {2 * l, 2 * l + 1} : c <= NRec /\ l' = c
         /\ UNCHANGED vars
TSpec == TInit /\ [][TNext]_<<l, vars>>

Judge ==
  l <= NRec =>
    LET rec == TraceLog[l]
        run == RunHist(rec.sc, rec.hist)
        conf == IF ~run.legal
                THEN IF run.at = 0 THEN "build-answer-not-in-model"
                     ELSE "rng-call-not-in-model"
                ELSE IF ObsOf(rec.sc, run.its) = rec.obs THEN "conforms"
                ELSE "outputs-differ"
    IN PrintT(<<"VERDICT", ToJson(
         [id |-> rec.id, C12 |-> V_C12(rec.sc, rec.hist, rec.obs),
          conf |-> conf, at |-> run.at])>>)
=============================================================================
