\* Design-level check of C19 on the model itself (no emission): every clause
\* as an invariant over all request histories of 3 steps of the family
\* "history".  With Defects.tla holding "S11" TLC refutes Inv_MergeTotal (the
\* counterexample is the initial state DictDatabase(part without alias,
\* part with alias)); with S11 removed from Unfixed all invariants hold.
\* harness/check_database.py generates the same text (plus the other families).
CONSTANTS
  Family = "history"
  Rich = 0
  MaxHist = 3
SPECIFICATION Spec
INVARIANT Inv_MergeTotal
INVARIANT Inv_DuplicatesRejected
INVARIANT Inv_SourceUntouched
INVARIANT Inv_ExamplesExact
INVARIANT Inv_AliasIsConcat
INVARIANT Inv_ListIsConcat
INVARIANT Inv_SharedWhileAlive
INVARIANT Inv_PickledAgrees
INVARIANT Inv_MemoWeak
CHECK_DEADLOCK FALSE
