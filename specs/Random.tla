------------------------------- MODULE Random -------------------------------
(***************************************************************************)
(* THE SHUFFLING STAGES OF lazy_dataset AS STATE MACHINES (property C12).  *)
(*                                                                         *)
(* Random generators are NONDETERMINISM: every `rng.shuffle(a)` call picks *)
(* any position permutation sg (a' = [i |-> a[sg[i]]], which is how numpy  *)
(* shuffles: the rearrangement depends on the stream and len(a) only, not  *)
(* on the content), every `rng.choice(k)` any value in 0..k-1, every       *)
(* `rng.choice(n, size, replace=False)` any injective selection.  TLC      *)
(* resolves the nondeterminism exhaustively.                               *)
(*                                                                         *)
(* Transcribed code (lazy_dataset/core.py):                                *)
(*   ReShuffleDataset   ONE array `_permutation` per dataset object        *)
(*                      (variable `arr`).  `__iter__` is a generator: the  *)
(*                      FIRST next() evaluates the property `permutation`  *)
(*                      = rng.shuffle(arr) IN PLACE and starts             *)
(*                      `for idx in arr` over the SAME array; each next()  *)
(*                      reads arr[pos] from the LIVE array and stops when  *)
(*                      pos = len(arr).  Iterators hold only `pos`.        *)
(*                      ("S7" \in Unfixed; repaired = the iterator keeps   *)
(*                      its own copy `own` of the array)                   *)
(*   LocalShuffleDataset per-iterator `buffer` (a local variable):         *)
(*                      append; when len(buffer) >= buffer_size yield      *)
(*                      buffer.pop(rng.choice(buffer_size)); at the end    *)
(*                      rng.shuffle(buffer) and flush                      *)
(*   Dataset.shuffle(False)   SliceDataset over a permutation drawn once   *)
(*   Dataset.tile(reps, True) concatenation of `reps` one-time shuffles    *)
(*   Dataset.random_choice(size, replace=False)  SliceDataset over         *)
(*                      rng.choice(n, size, replace=False)                 *)
(*                                                                         *)
(* A behaviour is: a scenario `sc` (built once; build-time rng answers are *)
(* part of it) and a history `hist` of next() calls on `sc.k` iterators    *)
(* over the ONE dataset object, in any interleaving; a step record holds   *)
(* the iterator and the rng answer consumed by that next() call.           *)
(* Examples are identified with their source position 0..n-1.              *)
(*                                                                         *)
(* Field types (one type per field name, see Values.tla):                  *)
(*   it, c, n, bs, k, reps, size, pos, sp : Int   sg, sel, out, own, buf : *)
(*   Seq(Int)   bp : Seq(Seq(Int))   kind, rc, st : STRING  repl : BOOLEAN *)
(***************************************************************************)
EXTENDS Values, Defects, Json

NOC == 99                        \* "no value" for c / e

\* position permutations of 1..m (m <= 5)
PermSet(m) == {s \in [1..m -> 1..m] : \A a, b \in 1..m : a # b => s[a] # s[b]}
IsPerm(s, m) == /\ Len(s) = m
                /\ \A a \in 1..m : s[a] \in 1..m
                /\ \A a, b \in 1..m : a # b => s[a] # s[b]
ApplyPerm(a, sg) == [i \in 1..Len(a) |-> a[sg[i]]]      \* rng.shuffle(a), in place
Arange(n) == Range(0, n - 1)
RemoveAt(s, j) == SubSeq(s, 1, j - 1) \o SubSeq(s, j + 1, Len(s))
\* all sequences of length m over 0..n-1, injective or not
RECURSIVE SeqsOf(_, _)
SeqsOf(n, m) == IF m = 0 THEN {<<>>}
                ELSE {Append(s, x) : s \in SeqsOf(n, m - 1), x \in 0..(n - 1)}
InRange(s, n) == \A j \in 1..Len(s) : s[j] \in 0..(n - 1)

-----------------------------------------------------------------------------
(* Scenario = the dataset object that is built once.                       *)

Scn(kind, n, bs, k, reps, size, bp, sel, repl) ==
  [kind |-> kind, n |-> n, bs |-> bs, k |-> k, reps |-> reps, size |-> size,
   bp |-> bp, sel |-> sel, repl |-> repl]

\* index array of the SliceDataset the build-time kinds iterate over
FixedIdx(sc) ==
  CASE sc.kind = "once"   -> ApplyPerm(Arange(sc.n), sc.bp[1])
    [] sc.kind = "tile"   -> FlatSeq([r \in 1..sc.reps |-> ApplyPerm(Arange(sc.n), sc.bp[r])])
    [] sc.kind = "choice" -> sc.sel
    [] OTHER              -> <<>>

\* are the build-time rng answers answers a generator can give?
BuildLegal(sc) ==
  CASE sc.kind = "once"   -> Len(sc.bp) = 1 /\ IsPerm(sc.bp[1], sc.n)
    [] sc.kind = "tile"   -> Len(sc.bp) = sc.reps /\ \A r \in 1..sc.reps : IsPerm(sc.bp[r], sc.n)
    [] sc.kind = "choice" -> /\ Len(sc.sel) = sc.size /\ InRange(sc.sel, sc.n)
                             /\ (sc.repl \/ NoDup(sc.sel))   \* replace=False: injective
    [] OTHER              -> TRUE

-----------------------------------------------------------------------------
(* Iterator machines.  One call of a *Step operator = one next() call on   *)
(* the generator object (generators run atomically up to the next yield).  *)

NewIt == [st |-> "new", pos |-> 0, out |-> <<>>, own |-> <<>>, buf |-> <<>>, sp |-> 0]

\* one next() of `for idx in A` (numpy array / list iterator at `pos`)
Read(it, A, stRun) ==
  IF it.pos >= Len(A) THEN [it EXCEPT !.st = "done"]
  ELSE [it EXCEPT !.st = stRun, !.pos = it.pos + 1,
                  !.out = Append(it.out, A[it.pos + 1])]

\* which rng call does the next() of iterator `it` make?  [rc, m]
\*   rc = "shuffle": rng.shuffle of an array of length m
\*   rc = "choice" : rng.choice(m)            rc = "none": no rng call
LocalTake(sc, it) == Min2(sc.bs - Len(it.buf), sc.n - it.sp)
LocalFilled(sc, it) ==
  it.buf \o [j \in 1..LocalTake(sc, it) |-> it.sp + j - 1]
Call(sc, it) ==
  CASE sc.kind \in {"reshuffle", "frozen"} /\ it.st = "new" -> [rc |-> "shuffle", m |-> sc.n]
    [] sc.kind = "local" /\ it.st \in {"new", "run"} ->
         LET b == LocalFilled(sc, it) IN
         IF Len(b) >= sc.bs THEN [rc |-> "choice", m |-> sc.bs]
         ELSE [rc |-> "shuffle", m |-> Len(b)]
    [] OTHER -> [rc |-> "none", m |-> 0]

\* the answers a generator can give to that call
Answers(call) ==
  CASE call.rc = "shuffle" -> {[sg |-> s, c |-> NOC] : s \in PermSet(call.m)}
    [] call.rc = "choice"  -> {[sg |-> <<>>, c |-> x] : x \in 0..(call.m - 1)}
    [] OTHER               -> {[sg |-> <<>>, c |-> NOC]}
AnswerLegal(call, sg, c) ==
  CASE call.rc = "shuffle" -> IsPerm(sg, call.m) /\ c = NOC
    [] call.rc = "choice"  -> sg = <<>> /\ c \in 0..(call.m - 1)
    [] OTHER               -> sg = <<>> /\ c = NOC

\* St = [arr, its]; next() on iterator i with rng answer (sg, c)
StepF(sc, St, i, sg, c) ==
  LET it == St.its[i] IN
  CASE sc.kind = "reshuffle" ->
         IF it.st = "new"
         THEN LET a1 == ApplyPerm(St.arr, sg)          \* self.permutation: in place
              IN IF "S7" \in Unfixed
                 THEN [arr |-> a1, its |-> [St.its EXCEPT ![i] = Read(it, a1, "run")]]
                 ELSE [arr |-> a1,
                       its |-> [St.its EXCEPT ![i] = Read([it EXCEPT !.own = a1], a1, "run")]]
         ELSE LET A == IF "S7" \in Unfixed THEN St.arr ELSE it.own   \* the LIVE array
              IN [arr |-> St.arr, its |-> [St.its EXCEPT ![i] = Read(it, A, "run")]]
    \* "frozen": a reshuffled dataset behind a stage that freezes its input at
    \* the start of EVERY iteration (catch(), pool prefetch, lazy apply):
    \* copy(freeze=True) draws the next permutation in place in the shared
    \* array and slices with a PRIVATE copy of it - overlapping iterations
    \* must not see each other's draws (no S7 here)
    [] sc.kind = "frozen" ->
         IF it.st = "new"
         THEN LET a1 == ApplyPerm(St.arr, sg)
              IN [arr |-> a1, its |-> [St.its EXCEPT ![i] = Read([it EXCEPT !.own = a1], a1, "run")]]
         ELSE [arr |-> St.arr, its |-> [St.its EXCEPT ![i] = Read(it, it.own, "run")]]
    [] sc.kind = "local" ->
         IF it.st \in {"new", "run"}
         THEN LET b  == LocalFilled(sc, it)
                  sp == it.sp + LocalTake(sc, it)
              IN IF Len(b) >= sc.bs
                 THEN [arr |-> St.arr, its |-> [St.its EXCEPT ![i] =
                        [it EXCEPT !.st = "run", !.sp = sp, !.buf = RemoveAt(b, c + 1),
                                   !.out = Append(it.out, b[c + 1])]]]
                 ELSE \* source exhausted: rng.shuffle(buffer); for element in buffer
                      LET b2 == ApplyPerm(b, sg)
                      IN [arr |-> St.arr, its |-> [St.its EXCEPT ![i] =
                           Read([it EXCEPT !.sp = sp, !.buf = b2, !.pos = 0], b2, "flush")]]
         ELSE [arr |-> St.arr, its |-> [St.its EXCEPT ![i] = Read(it, it.buf, "flush")]]
    [] OTHER ->   \* once / tile / choice: SliceDataset.__iter__: for idx in self.slice
         LET own == IF it.st = "new" THEN FixedIdx(sc) ELSE it.own
         IN [arr |-> St.arr,
             its |-> [St.its EXCEPT ![i] = Read([it EXCEPT !.own = own], own, "run")]]

Start(sc) == [arr |-> Arange(sc.n), its |-> [i \in 1..sc.k |-> NewIt]]

\* deterministic replay of a history (used for the model's own prediction
\* and, in RandomTrace.tla, for the conformance of a REAL execution)
RunHist(sc, hist) ==
  LET RECURSIVE Go(_, _)
      Go(St, j) ==
        IF j > Len(hist) \/ ~St.legal THEN St
        ELSE LET h == hist[j] IN
             IF ~(h.it \in 1..sc.k) \/ St.its[h.it].st = "done"
             THEN [St EXCEPT !.legal = FALSE, !.at = j]
             ELSE LET call == Call(sc, St.its[h.it]) IN
                  IF call.rc # h.rc \/ ~AnswerLegal(call, h.sg, h.c)
                  THEN [St EXCEPT !.legal = FALSE, !.at = j]
                  ELSE LET Nx == StepF(sc, St, h.it, h.sg, h.c)
                       IN Go([arr |-> Nx.arr, its |-> Nx.its, legal |-> TRUE, at |-> 0], j + 1)
      St0 == Start(sc)
  IN Go([arr |-> St0.arr, its |-> St0.its, legal |-> BuildLegal(sc), at |-> 0], 1)

ObsOf(sc, its) ==
  [outs |-> [i \in 1..sc.k |-> its[i].out],
   fin  |-> [i \in 1..sc.k |-> its[i].st = "done"],
   exc  |-> [i \in 1..sc.k |-> "none"]]

-----------------------------------------------------------------------------
(* PROPERTY C12, defined once over (scenario, history, observation).       *)
(* obs = [outs, fin, exc]: per iterator the source positions it yielded,   *)
(* whether it reported StopIteration, and the exception class it raised.   *)

\* the input "length" one pass of iterator output is measured against
Chunk(sc, out, r) == SubSeq(out, (r - 1) * sc.n + 1, Min2(r * sc.n, Len(out)))
NChunks(sc, out)  == IF sc.n = 0 THEN 0 ELSE CeilDiv(Len(out), sc.n)

\* clause violated by ONE iterator, or "" (checked in this order)
IterClause(sc, out, fin, exc) ==
  IF exc # "none" THEN "Raised"
  ELSE IF ~InRange(out, sc.n) THEN "Invented"
  ELSE CASE sc.kind = "choice" ->
              \* the USER asked replace=False; sc.repl is what the code passed on
              IF ~NoDup(out) THEN "ChoiceWithoutReplacement"
              ELSE IF fin /\ Len(out) # sc.size THEN "ChoiceSize"
              ELSE ""
         [] sc.kind = "tile" ->
              IF \E r \in 1..NChunks(sc, out) : ~NoDup(Chunk(sc, out, r))
              THEN "NoRepeatSoFar"
              ELSE IF Len(out) > sc.reps * sc.n \/ (fin /\ Len(out) # sc.reps * sc.n)
              THEN "IsPermutation"
              ELSE ""
         [] OTHER ->
              IF ~NoDup(out) THEN "NoRepeatSoFar"
              ELSE IF fin /\ Len(out) # sc.n THEN "IsPermutation"
              ELSE IF sc.kind = "local" /\
                      \E q \in 1..Len(out) : (q - 1) < out[q] - (sc.bs - 1)
              THEN "Displacement"
              ELSE ""

\* step indices of iterator i in the history
FirstStep(hist, i) == FirstPos(hist, LAMBDA h : h.it = i)
EndStep(hist, i, fin) ==     \* the step that returned StopIteration, else "still in flight"
  IF fin THEN CHOOSE j \in 1..Len(hist) :
                 hist[j].it = i /\ \A m \in (j + 1)..Len(hist) : hist[m].it # i
  ELSE Len(hist) + 1
\* S7: another iterator over the SAME ReShuffleDataset object was opened
\* (its first next() reshuffles the shared array) while iterator i was in flight
Overlapped(sc, hist, i, fin) ==
  /\ sc.kind = "reshuffle"
  /\ FirstStep(hist, i) > 0
  /\ \E j \in 1..sc.k : /\ j # i /\ FirstStep(hist, j) > FirstStep(hist, i)
                        /\ FirstStep(hist, j) < EndStep(hist, i, fin)

V_C12(sc, hist, obs) ==
  LET cl == [i \in 1..sc.k |-> IterClause(sc, obs.outs[i], obs.fin[i], obs.exc[i])]
      bad == {i \in 1..sc.k : cl[i] # ""}
      plain == {i \in bad : ~Overlapped(sc, hist, i, obs.fin[i])}
  IN IF bad = {} THEN (IF sc.n = 0 THEN <<"trivial", "empty-dataset">> ELSE <<"ok", "">>)
     ELSE IF plain # {} THEN <<"viol", cl[CHOOSE i \in plain : \A j \in plain : i <= j]>>
     ELSE <<"viol", "S7:interleaved-reshuffle">>

-----------------------------------------------------------------------------
(* Enumeration: every scenario, every interleaving, every rng answer.      *)

CONSTANTS MaxN,        \* largest dataset
          NIter,       \* iterators over the one object (reshuffle, local, once)
          Kinds,       \* subset of {"reshuffle", "frozen", "local", "once", "tile", "choice"}
          MaxReps      \* tile repetitions 1..MaxReps

VARIABLES sc, arr, its, hist
vars == <<sc, arr, its, hist>>

RECURSIVE PermSeqs(_, _)       \* sequences of r permutations of 1..n
PermSeqs(n, r) == IF r = 0 THEN {<<>>}
                  ELSE {Append(s, p) : s \in PermSeqs(n, r - 1), p \in PermSet(n)}

Scenarios ==
  UNION {
    IF "reshuffle" \in Kinds
    THEN {Scn("reshuffle", n, 0, NIter, 0, 0, <<>>, <<>>, FALSE) : n \in 0..MaxN} ELSE {},
    IF "frozen" \in Kinds
    THEN {Scn("frozen", n, 0, NIter, 0, 0, <<>>, <<>>, FALSE) : n \in 0..MaxN} ELSE {},
    IF "local" \in Kinds
    THEN UNION {{Scn("local", n, b, NIter, 0, 0, <<>>, <<>>, FALSE) : b \in 1..(n + 1)}
                : n \in 0..MaxN} ELSE {},
    IF "once" \in Kinds
    THEN UNION {{Scn("once", n, 0, NIter, 0, 0, <<p>>, <<>>, FALSE) : p \in PermSet(n)}
                : n \in 0..MaxN} ELSE {},
    IF "tile" \in Kinds
    THEN UNION {UNION {{Scn("tile", n, 0, 1, r, 0, ps, <<>>, FALSE) : ps \in PermSeqs(n, r)}
                       : r \in 1..MaxReps} : n \in 0..MaxN} ELSE {},
    IF "choice" \in Kinds
    \* the harness asks the REAL code which `replace` it passes to the rng;
    \* TLC supplies the answers of both kinds of call
    THEN UNION {UNION {UNION {{Scn("choice", n, 0, 1, 0, z, <<>>, s, rp)
                               : s \in {x \in SeqsOf(n, z) : rp \/ NoDup(x)}}
                              : rp \in BOOLEAN} : z \in 0..n} : n \in 0..MaxN} ELSE {}
  }

Init == /\ sc \in Scenarios
        /\ arr = Arange(sc.n)
        /\ its = [i \in 1..sc.k |-> NewIt]
        /\ hist = <<>>

\* NextCall(i): one next() on iterator i  (OpenIter = the first one)
NextCall(i) ==
  /\ its[i].st # "done"
  /\ LET call == Call(sc, its[i]) IN
     \E a \in Answers(call) :
       LET Nx == StepF(sc, [arr |-> arr, its |-> its], i, a.sg, a.c) IN
       /\ arr' = Nx.arr
       /\ its' = Nx.its
       /\ hist' = Append(hist, [it |-> i, rc |-> call.rc, sg |-> a.sg, c |-> a.c])
       /\ UNCHANGED sc
Next == \E i \in 1..sc.k : NextCall(i)
Spec == Init /\ [][Next]_vars

AllDone == \A i \in 1..sc.k : its[i].st = "done"
ModelVerdict == V_C12(sc, hist, ObsOf(sc, its))

\* spec -> code: every COMPLETE behaviour (all iterators exhausted) with the
\* model's outputs and verdict.  Prefixes need no emission of their own: the
\* clauses are monotone (an output never shrinks) and the harness evaluates
\* them after every replayed step.
EmitBehaviour ==
  AllDone => PrintT(<<"VEC", ToJson([sc |-> sc, hist |-> hist,
                                      mo |-> ObsOf(sc, its), mv |-> ModelVerdict])>>)

\* random_choice(replace=False) hands replace=False to the generator; the
\* scenarios with repl = TRUE are the answers a generator could give to code
\* that passed replace=True instead (spec -> code only, infeasible otherwise)
CodeScenario == sc.kind = "choice" => ~sc.repl

\* design level, without stopping: every violating state up to CexDepth steps
\* (BFS reaches every state, so the shortest emitted history is minimal)
CexDepth == 4
EmitCex ==
  (CodeScenario /\ Len(hist) <= CexDepth /\ ModelVerdict[1] = "viol") =>
     PrintT(<<"CEX", ToJson([sc |-> sc, hist |-> hist, mo |-> ObsOf(sc, its),
                             mv |-> ModelVerdict])>>)

\* design level: C12 in EVERY reachable state (running iterators included)
DesignC12 == CodeScenario => ModelVerdict[1] # "viol"
\* ... and every way of breaking C12 other than the recorded finding S7
DesignC12ModuloS7 ==
  (CodeScenario /\ ModelVerdict[1] = "viol") => ModelVerdict[2] = "S7:interleaved-reshuffle"
=============================================================================
