--------------------------------- MODULE Ref ---------------------------------
(***************************************************************************)
(* REFERENCE SEMANTICS of lazy_dataset API programs: "the sequence         *)
(* obtained by applying the corresponding eager list operations to the     *)
(* source examples" (property C01), with keys carried along (C03), with    *)
(* per-element evaluation failures (C14) and with the cases in which the   *)
(* reference itself demands a refusal (C02/C03/C15: out-of-range index,    *)
(* absent key, invalid shard count).                                       *)
(*                                                                         *)
(* An API program is a term (record with field `op`); see Pipeline.tla for *)
(* the catalogue.  Ref(a) knows nothing about capabilities (indexable,     *)
(* len, keys()): that is the business of Impl.tla.                         *)
(*                                                                         *)
(* Ref(a) = [el, tail, refuse, kcap]                                       *)
(*   el     : Seq([k, ok, v, e])  one record per example, in order; an     *)
(*            example whose evaluation raises is [ok |-> FALSE, e |-> cls] *)
(*   tail   : "none" or the class of an exception raised after el was      *)
(*            delivered (unbatch of a non-batch, items() of key-less data) *)
(*   refuse : "none" | "must" (building the pipeline must raise)           *)
(*            | "undef" (reference undefined: no verdict is drawn)         *)
(*   kcap   : "keys"  - keys() must list the keys in iteration order       *)
(*            "items" - only items() may pair examples with keys           *)
(*            "none"  - the data carries no keys                           *)
(***************************************************************************)
EXTENDS Values

ElOk(k, v)  == [k |-> k, ok |-> TRUE,  v |-> v,    e |-> "none"]
ElErr(k, c) == [k |-> k, ok |-> FALSE, v |-> I(0), e |-> c]
RefRec(el, tail, kcap) == [el |-> el, tail |-> tail, refuse |-> "none", kcap |-> kcap]
RefRefuse(kind) == [el |-> <<>>, tail |-> "none", refuse |-> kind, kcap |-> "none"]

Payload(pl, x) == IF pl = "d" THEN D(x) ELSE I(x)
ElKeys(el) == [j \in 1..Len(el) |-> el[j].k]
AllOk(el)  == \A j \in 1..Len(el) : el[j].ok
FirstErr(el) == FirstPos(el, LAMBDA x : ~x.ok)
Weaken(kc) == IF kc = "keys" THEN "items" ELSE kc

\* what iterating delivers: the values before the first failing example,
\* then that failure (or the tail)
Deliver(r) ==
  LET p == FirstErr(r.el) IN
  IF p = 0 THEN ItR([j \in 1..Len(r.el) |-> r.el[j].v], r.tail)
  ELSE ItR([j \in 1..(p - 1) |-> r.el[j].v], r.el[p].e)

\* chunking for batch
Chunks(el, b) == [j \in 1..CeilDiv(Len(el), b) |->
                    SubSeq(el, (j - 1) * b + 1, Min2(j * b, Len(el)))]
ChunkEl(ch) == LET p == FirstErr(ch) IN
               IF p = 0 THEN ElOk("", L([j \in 1..Len(ch) |-> ch[j].v]))
               ELSE ElErr("", ch[p].e)

\* intersperse order: sort (example j of part d) by ((j+1)/len_d, d, j);
\* the ratio comparison is done with cross-multiplied integers (exact; the
\* implementation divides in IEEE doubles, equal ratios give equal doubles
\* and different ratios of small integers give different doubles).
InterOrder(lens) ==
  LET pairs == FlatSeq([d \in 1..Len(lens) |-> [j \in 1..lens[d] |-> <<d, j>>]])
      Less(x, y) ==
        LET lx == x[2] * lens[y[1]]
            ly == y[2] * lens[x[1]]
        IN \/ lx < ly
           \/ lx = ly /\ x[1] < y[1]
           \/ lx = ly /\ x[1] = y[1] /\ x[2] < y[2]
  IN StableSort(pairs, Less)

ConcatKcap(ra, rb) ==
  IF ra.kcap = "keys" /\ rb.kcap = "keys" /\ NoDup(ElKeys(ra.el) \o ElKeys(rb.el))
  THEN "keys"
  ELSE IF ra.kcap \in {"keys", "items"} /\ rb.kcap \in {"keys", "items"}
  THEN "items" ELSE "none"

\* the API term `desc` (a unary operation without its input) applied to `a`
WithIn(desc, a) == [x \in (DOMAIN desc) \cup {"in"} |-> IF x = "in" THEN a ELSE desc[x]]

\* copy(freeze=True) of a pipeline: every ApplyDataset in it is replaced by the
\* dataset its function returns (ApplyDataset.copy: apply_function(input).copy(True))
RECURSIVE Frozen(_)
Frozen(a) ==
  CASE a.op \in {"list", "dict"} -> a
    [] a.op = "apply" -> [a EXCEPT !.lazy = FALSE, !.in = Frozen(a.in)]
    [] a.op \in {"concat", "intersperse", "zip", "keyzip"} ->
         [a EXCEPT !.in = Frozen(a.in), !.in2 = Frozen(a.in2)]
    [] OTHER -> [a EXCEPT !.in = Frozen(a.in)]

RECURSIVE Ref(_)
RefSlice(r, form) ==
  LET n == Len(r.el) IN
  IF r.tail # "none" THEN RefRefuse("undef")
  ELSE CASE form.fk = "sl" ->
         IF form.c = 0 THEN RefRefuse("must")
         ELSE LET ix == SliceIdx(n, form.a, form.b, form.c)
              IN RefRec([j \in 1..Len(ix) |-> r.el[ix[j] + 1]], "none", r.kcap)
    [] form.fk = "il" ->
         IF \E j \in 1..Len(form.idx) : PyPos(n, form.idx[j]) = 0
         THEN RefRefuse("must")
         ELSE RefRec([j \in 1..Len(form.idx) |-> r.el[PyPos(n, form.idx[j])]],
                     "none", r.kcap)
    [] form.fk = "bm" ->
         IF Len(form.mask) # n THEN RefRefuse("must")
         ELSE LET ps == SelectIdx(form.mask, LAMBDA m : m, 1)
              IN RefRec([j \in 1..Len(ps) |-> r.el[ps[j]]], "none", r.kcap)
    [] form.fk = "kl" ->
         IF form.kl = <<>> THEN RefRec(<<>>, "none", r.kcap)
         ELSE IF r.kcap = "none" THEN RefRefuse("must")
         ELSE IF ~NoDup(ElKeys(r.el)) THEN RefRefuse("undef")
         ELSE IF \E j \in 1..Len(form.kl) : ~InSeq(form.kl[j], ElKeys(r.el))
         THEN RefRefuse("must")
         ELSE RefRec([j \in 1..Len(form.kl) |->
                        r.el[IndexOf(form.kl[j], ElKeys(r.el))]], "none", r.kcap)
    [] OTHER -> RefRefuse("undef")

RefCatch(r, E) ==
  LET ps == SelectIdx(r.el, LAMBDA x : x.ok \/ ~Catches(E, x.e), 1)
  IN RefRec([j \in 1..Len(ps) |-> r.el[ps[j]]], r.tail, Weaken(r.kcap))

RefUnbatch(r) ==
  LET IsBatch(x) == x.ok => x.v.t \in {"L", "T"}
      bad  == FirstPos(r.el, LAMBDA x : ~IsBatch(x))
      upto == IF bad = 0 THEN Len(r.el) ELSE bad - 1
      Members(x) == IF ~x.ok THEN <<ElErr("", x.e)>>
                    ELSE IF x.v.t = "L"
                    THEN [j \in 1..Len(x.v.xs) |-> ElOk("", x.v.xs[j])]
                    ELSE [j \in 1..Len(x.v.tp) |-> ElOk("", x.v.tp[j])]
  IN RefRec(FlatSeq([j \in 1..upto |-> Members(r.el[j])]),
            IF bad = 0 THEN r.tail ELSE "AssertionError", "none")

RefItems(r) ==
  \* pairs up to the first example that carries no key; a dataset whose
  \* examples all carry keys is paired completely, whatever its parts are
  \* (the implementation may still refuse loudly - V_C01 / V_C03 accept a
  \* refusal, never a wrong or silently missing pair)
  LET cut  == FirstPos(r.el, LAMBDA x : x.k = "")
      upto == IF cut = 0 THEN Len(r.el) ELSE cut - 1
      Pairing(x) == IF x.ok THEN ElOk(x.k, T(<<S(x.k), x.v>>)) ELSE x
  IN RefRec([j \in 1..upto |-> Pairing(r.el[j])],
            IF cut = 0 THEN r.tail ELSE "ItemsNotDefined",
            r.kcap)

RefSort(r, key, rev, sfn) ==
  IF r.tail # "none" THEN RefRefuse("undef")
  ELSE IF key = "none" THEN
    IF r.kcap # "keys" THEN RefRefuse("must")
    ELSE IF ~NoDup(ElKeys(r.el)) THEN RefRefuse("undef")
    ELSE LET Less(x, y) == IF rev THEN StrLessBy(sfn, y.k, x.k) ELSE StrLessBy(sfn, x.k, y.k)
         IN RefRec(StableSort(r.el, Less), "none", r.kcap)
  ELSE
    IF ~AllOk(r.el) THEN RefRefuse("must")
    ELSE \* the eager operation: sorted(zip(key values, count()), reverse=rev)
         LET prs == [j \in 1..Len(r.el) |-> <<KeyFn(key, r.el[j].v), j>>]
             Lt(x, y) == IntLessBy(sfn, x[1], y[1]) \/ (x[1] = y[1] /\ x[2] < y[2])
             Less(x, y) == IF rev THEN Lt(y, x) ELSE Lt(x, y)
             srt == StableSort(prs, Less)
         IN RefRec([j \in 1..Len(srt) |-> r.el[srt[j][2]]], "none", r.kcap)

RefKeyZip(ra, rb) ==
  IF ra.tail # "none" \/ rb.tail # "none" THEN RefRefuse("undef")
  ELSE IF ra.kcap # "keys" \/ rb.kcap # "keys" THEN RefRefuse("undef")
  ELSE LET ka == ElKeys(ra.el)
           kb == ElKeys(rb.el)
       IN IF ~NoDup(ka) \/ ~NoDup(kb) THEN RefRefuse("undef")
          ELSE IF {ka[j] : j \in 1..Len(ka)} # {kb[j] : j \in 1..Len(kb)}
          THEN RefRefuse("undef")
          ELSE RefRec([j \in 1..Len(ka) |->
                 LET x == ra.el[j]
                     y == rb.el[IndexOf(ka[j], kb)]
                 IN IF ~x.ok THEN ElErr(x.k, x.e)
                    ELSE IF ~y.ok THEN ElErr(x.k, y.e)
                    ELSE ElOk(x.k, T(<<x.v, y.v>>))], "none", "keys")

Ref(a) ==
  CASE a.op = "list" ->
         RefRec([j \in 1..Len(a.src) |-> ElOk("", Payload(a.pl, a.src[j]))],
                "none", "none")
    [] a.op = "dict" ->
         RefRec([j \in 1..Len(a.src) |-> ElOk(a.ks[j], Payload(a.pl, a.src[j]))],
                "none", "keys")
    [] a.op \in {"concat", "intersperse", "zip", "keyzip"} ->
         LET ra == Ref(a.in)
             rb == Ref(a.in2)
         IN IF ra.refuse # "none" THEN ra
            ELSE IF rb.refuse # "none" THEN rb
            ELSE CASE a.op = "concat" ->
                   IF ra.tail # "none" THEN RefRefuse("undef")
                   ELSE RefRec(ra.el \o rb.el, rb.tail, ConcatKcap(ra, rb))
              [] a.op = "intersperse" ->
                   IF ra.tail # "none" \/ rb.tail # "none"
                      \/ ra.el = <<>> \/ rb.el = <<>> THEN RefRefuse("undef")
                   ELSE LET ord == InterOrder(<<Len(ra.el), Len(rb.el)>>)
                        IN RefRec([j \in 1..Len(ord) |->
                                     IF ord[j][1] = 1 THEN ra.el[ord[j][2]]
                                     ELSE rb.el[ord[j][2]]],
                                  "none", ConcatKcap(ra, rb))
              [] a.op = "zip" ->
                   IF ra.tail # "none" \/ rb.tail # "none"
                      \/ Len(ra.el) # Len(rb.el) THEN RefRefuse("undef")
                   ELSE RefRec([j \in 1..Len(ra.el) |->
                          LET x == ra.el[j]
                              y == rb.el[j]
                          IN IF ~x.ok THEN ElErr("", x.e)
                             ELSE IF ~y.ok THEN ElErr("", y.e)
                             ELSE ElOk("", T(<<x.v, y.v>>))], "none", "none")
              [] OTHER -> RefKeyZip(ra, rb)
    [] OTHER ->
      LET r == Ref(a.in) IN
      IF r.refuse # "none" THEN r
      \* `tail` is a structural refusal waiting at the END of the input (items()
      \* of key-less data, unbatch of a non-batch).  A consumer that walks its
      \* input by index may or may not ever reach it (that depends on lengths
      \* the reference does not track), so only programs that deliver the tail
      \* through plain per-example stages are judged.
      ELSE IF r.tail # "none" /\ a.op \in {"batch", "unbatch", "items", "cache", "catch", "copy",
                                          "prefetch", "tile", "sort", "group", "split", "shard",
                                          "shuffle", "cycle"}
      THEN RefRefuse("undef")
      ELSE
      \* map(fn, num_workers=w, buffer_size=bs) iterates its INPUT in the
      \* consumer's own thread: when the input raises, up to buffer_size results
      \* that were already computed are not delivered.  No statement says how
      \* many examples precede a propagating failure there (C06 speaks about
      \* prefetch; the eager list operation delivers nothing at all), so the
      \* reference is undefined; Impl.tla models what the code does (conformance).
      CASE a.op = "pmap" /\ (~AllOk(r.el) \/ r.tail # "none") -> RefRefuse("undef")
        [] a.op \in {"map", "pmap"} ->     \* pmap: map(fn, num_workers=w, buffer_size=bs)
             RefRec([j \in 1..Len(r.el) |->
                       IF r.el[j].ok THEN ElOk(r.el[j].k, ApplyFn(a.f, r.el[j].v))
                       ELSE r.el[j]], r.tail, r.kcap)
        [] a.op = "fmap" ->    \* a map whose function raises a.cls when a.p holds
             RefRec([j \in 1..Len(r.el) |->
                       IF r.el[j].ok /\ Pred(a.p, r.el[j].v)
                       THEN ElErr(r.el[j].k, a.cls) ELSE r.el[j]], r.tail, r.kcap)
        [] a.op = "filter" ->
             LET ps == SelectIdx(r.el, LAMBDA x : ~x.ok \/ Pred(a.p, x.v), 1)
                 el == [j \in 1..Len(ps) |-> r.el[ps[j]]]
             IN IF a.lazy THEN RefRec(el, r.tail, Weaken(r.kcap))
                ELSE IF ~AllOk(r.el) \/ r.tail # "none" THEN RefRefuse("must")
                ELSE RefRec(el, "none", r.kcap)
        [] a.op = "slice"   -> RefSlice(r, a.form)
        [] a.op = "batch"   ->
             LET chs  == Chunks(r.el, a.b)
                 full == SelectIdx(chs, LAMBDA ch : Len(ch) = a.b, 1)
                 keep == IF r.tail # "none" \/ a.drop
                         THEN [j \in 1..Len(full) |-> chs[full[j]]] ELSE chs
                 lastc == IF chs = <<>> THEN <<>> ELSE chs[Len(chs)]
             \* a failing example inside a DROPPED incomplete batch: plain
             \* iteration meets it (and raises), access by index never does -
             \* the eager reading is ambiguous, no verdict is drawn
             IN IF a.drop /\ Len(lastc) < a.b /\ ~AllOk(lastc) THEN RefRefuse("undef")
                ELSE RefRec([j \in 1..Len(keep) |-> ChunkEl(keep[j])], r.tail, "none")
        [] a.op = "unbatch" -> RefUnbatch(r)
        [] a.op = "items"   -> RefItems(r)
        [] a.op = "tile"    ->
             IF a.reps = 1 THEN r
             ELSE IF a.reps < 1 \/ r.tail # "none" THEN RefRefuse("undef")
             ELSE RefRec(FlatSeq([j \in 1..a.reps |-> r.el]), "none",
                         IF r.el = <<>> THEN r.kcap ELSE Weaken(r.kcap))
        [] a.op = "cycle"   ->
             IF r.tail # "none" \/ r.el = <<>> THEN RefRefuse("undef")
             ELSE RefRec([j \in 1..a.take |-> r.el[((j - 1) % Len(r.el)) + 1]],
                         "none", "none")
        [] a.op = "shuffle" ->
             IF r.tail # "none" \/ Len(a.perm) # Len(r.el) THEN RefRefuse("undef")
             ELSE RefRec([j \in 1..Len(a.perm) |-> r.el[a.perm[j] + 1]], "none", r.kcap)
        [] a.op = "sort"    -> RefSort(r, a.key, a.rev, Sfn(a))
        [] a.op \in {"split", "shard"} ->
             IF r.tail # "none" THEN RefRefuse("undef")
             ELSE IF a.sk < 1 \/ a.sk > Len(r.el) THEN RefRefuse("must")
             ELSE IF PyPos(a.sk, a.si) = 0 THEN RefRefuse("must")
             ELSE LET sec == SplitSection(Len(r.el), a.sk, PyPos(a.sk, a.si))
                  IN RefRec([j \in 1..Len(sec) |-> r.el[sec[j] + 1]], "none", r.kcap)
        [] a.op = "cache"   ->
             IF a.lazy THEN r
             ELSE IF ~AllOk(r.el) \/ r.tail # "none" THEN RefRefuse("must")
             ELSE IF r.kcap \in {"keys", "items"} /\ NoDup(ElKeys(r.el))
             THEN RefRec(r.el, "none", "keys")
             ELSE RefRec([j \in 1..Len(r.el) |-> ElOk("", r.el[j].v)], "none", "none")
        [] a.op = "catch"   -> RefCatch(r, a.E)
        [] a.op = "copy"    -> IF a.freeze THEN Ref(Frozen(a.in)) ELSE r
        \* ds.apply(g, lazy): g(ds); lazy = g is applied (to a frozen copy) before
        \* every iteration - the same examples, but only iteration / items() are
        \* offered, and what g must refuse shows when iterating, not when building
        [] a.op = "apply"   ->
             LET ra == Ref(WithIn(a.ag, a.in)) IN
             IF ~a.lazy THEN ra
             ELSE IF ra.refuse # "none" THEN RefRefuse("undef")
             ELSE RefRec(ra.el, ra.tail, Weaken(ra.kcap))
        [] a.op = "prefetch" ->
             IF a.cfe = "none" THEN RefRec(r.el, r.tail, Weaken(r.kcap))
             ELSE RefCatch(r, a.cfe)
        [] a.op = "group"   ->
             IF r.tail # "none" THEN RefRefuse("undef")
             ELSE IF ~AllOk(r.el) THEN RefRefuse("must")
             ELSE LET ps == SelectIdx(r.el, LAMBDA x : KeyFn(a.g, x.v) = a.sel, 1)
                  IN IF ps = <<>> THEN RefRefuse("must")
                     ELSE RefRec([j \in 1..Len(ps) |-> r.el[ps[j]]], "none", r.kcap)
        [] OTHER -> RefRefuse("undef")
=============================================================================
