------------------------------ MODULE LawsTrace ------------------------------
(* Trace validation for C16: records [id, law, level, lhs, rhs, ol, or] -   *)
(* both sides of a law instance executed on the real library.               *)
EXTENDS Laws, IOUtils
TraceLog == ndJsonDeserialize(IOEnv.TRACE_FILE)
NRec == Len(TraceLog)
VARIABLE l
TInit == l = 1 /\ prog = 0 /\ depth = 0 /\ rich = FALSE
TNext == \E c \in {2 * l, 2 * l + 1} : c <= NRec /\ l' = c /\ UNCHANGED vars
TSpec == TInit /\ [][TNext]_<<l, prog, depth, rich>>
Judge ==
  l <= NRec =>
    LET r == TraceLog[l] IN
    PrintT(<<"VERDICT", ToJson(
      [id |-> r.id, C16 |-> V_C16(r.level, r.ol, r.or),
       conf |-> IF Conforms(r.ol, ModelObs(r.lhs)) /\ Conforms(r.or, ModelObs(r.rhs))
                THEN "conforms" ELSE "drift"])>>)
=============================================================================
