CONSTANTS
  MaxN = 0
  Bufs = {1}
  GuardSentinel = TRUE
  KeepLog = TRUE
SPECIFICATION TSpec
INVARIANT Judge
CHECK_DEADLOCK FALSE
