------------------------------ MODULE CacheRace ------------------------------
(***************************************************************************)
(* C10 / S21  THE MEMORY CACHE UNDER A WORKER POOL, at the granularity of  *)
(* the code.                                                               *)
(*                                                                         *)
(*   ds.cache()...prefetch(W, B)   (thread back end), where the pipeline   *)
(*   between cache and prefetch asks for every example TWICE:              *)
(*     Shape = "tile":  c.tile(2)            requests 1..N, 1..N           *)
(*     Shape = "dup" :  c[[0,0,1,1,..]]      requests 1,1,2,2,..,N,N       *)
(*                                                                         *)
(* lazy_parallel_map: the consumer keeps at most B tasks submitted and not *)
(* yet delivered (Submit / Deliver, results in request order); W workers   *)
(* take tasks from the executor's FIFO (Take).  One task is                *)
(* CacheDataset.__getitem__(i) of the shared cache (memory high, check()   *)
(* is True):                                                               *)
(*     try: return self._cache[item]          Lookup   (hit -> return)     *)
(*     except KeyError:                                                    *)
(*         value = self.input_dataset[item]   Compute  calls[e] += 1       *)
(*         self._cache[item] = value          Store    unconditional       *)
(*         return value                                overwrite           *)
(* The upstream is "freshly random per call": the value of example e at    *)
(* its k-th computation is k.                                              *)
(*                                                                         *)
(* Atomic = FALSE: the three sub-steps interleave freely (the code).       *)
(* Atomic = TRUE : lookup + compute + store is one step (the repaired      *)
(*                 design: a lock around the get) = the sequentialisation  *)
(*                 Cache.tla uses for its steps "pft" / "pfd".             *)
(* TLC refutes OnceInv / FirstValueInv for Atomic = FALSE (this is defect  *)
(* S21 at the design level) and proves them for Atomic = TRUE.             *)
(***************************************************************************)
EXTENDS Integers, Sequences, FiniteSets, TLC

CONSTANTS N,       \* examples
          W,       \* pool workers
          B,       \* buffer_size: tasks in flight
          Shape,   \* "tile" | "dup"
          Atomic   \* BOOLEAN

Reqs == IF Shape = "tile" THEN [j \in 1..(2 * N) |-> ((j - 1) % N) + 1]
        ELSE [j \in 1..(2 * N) |-> ((j - 1) \div 2) + 1]
R == Len(Reqs)

VARIABLES next,       \* number of the next request the consumer submits
          work,       \* executor FIFO: submitted task numbers nobody took yet
          pc, task,   \* per worker: "idle" | "lookup" | "compute" | "store"; its task
          val,        \* per worker: the value it computed (local `value`)
          mem,        \* the shared dict: example -> stored value, 0 = absent
          calls,      \* example -> number of upstream computations
          res,        \* task number -> value its future holds, 0 = not done
          out         \* what the consumer has been handed, in order
vars == <<next, work, pc, task, val, mem, calls, res, out>>

Workers == 1..W

Init == /\ next = 1 /\ work = <<>>
        /\ pc = [w \in Workers |-> "idle"] /\ task = [w \in Workers |-> 0]
        /\ val = [w \in Workers |-> 0]
        /\ mem = [e \in 1..N |-> 0] /\ calls = [e \in 1..N |-> 0]
        /\ res = [t \in 1..R |-> 0] /\ out = <<>>

\* the consumer
Submit == /\ next <= R /\ (next - 1) - Len(out) < B
          /\ work' = Append(work, next) /\ next' = next + 1
          /\ UNCHANGED <<pc, task, val, mem, calls, res, out>>
Deliver == /\ Len(out) < R /\ res[Len(out) + 1] # 0
           /\ out' = Append(out, res[Len(out) + 1])
           /\ UNCHANGED <<next, work, pc, task, val, mem, calls, res>>

\* a pool worker
Take(w) == /\ pc[w] = "idle" /\ work # <<>>
           /\ task' = [task EXCEPT ![w] = Head(work)] /\ work' = Tail(work)
           /\ pc' = [pc EXCEPT ![w] = "lookup"]
           /\ UNCHANGED <<next, val, mem, calls, res, out>>

Ex(w) == Reqs[task[w]]

Lookup(w) == /\ ~Atomic /\ pc[w] = "lookup"
             /\ IF mem[Ex(w)] # 0
                THEN /\ res' = [res EXCEPT ![task[w]] = mem[Ex(w)]]
                     /\ pc' = [pc EXCEPT ![w] = "idle"]
                ELSE /\ pc' = [pc EXCEPT ![w] = "compute"] /\ res' = res
             /\ UNCHANGED <<next, work, task, val, mem, calls, out>>
Compute(w) == /\ pc[w] = "compute"
              /\ calls' = [calls EXCEPT ![Ex(w)] = @ + 1]
              /\ val' = [val EXCEPT ![w] = calls[Ex(w)] + 1]
              /\ pc' = [pc EXCEPT ![w] = "store"]
              /\ UNCHANGED <<next, work, task, mem, res, out>>
Store(w) == /\ pc[w] = "store"
            /\ mem' = [mem EXCEPT ![Ex(w)] = val[w]]        \* overwrites
            /\ res' = [res EXCEPT ![task[w]] = val[w]]
            /\ pc' = [pc EXCEPT ![w] = "idle"]
            /\ UNCHANGED <<next, work, task, val, calls, out>>

\* the repaired design: the whole get under one lock
Get(w) == /\ Atomic /\ pc[w] = "lookup"
          /\ LET e == Ex(w) IN
             IF mem[e] # 0
             THEN /\ res' = [res EXCEPT ![task[w]] = mem[e]]
                  /\ UNCHANGED <<mem, calls>>
             ELSE /\ calls' = [calls EXCEPT ![e] = @ + 1]
                  /\ mem' = [mem EXCEPT ![e] = calls[e] + 1]
                  /\ res' = [res EXCEPT ![task[w]] = calls[e] + 1]
          /\ pc' = [pc EXCEPT ![w] = "idle"]
          /\ UNCHANGED <<next, work, task, val, out>>

Next == \/ Submit \/ Deliver
        \/ \E w \in Workers : Take(w) \/ Lookup(w) \/ Compute(w) \/ Store(w) \/ Get(w)

Spec == Init /\ [][Next]_vars

-----------------------------------------------------------------------------
TypeOK == /\ next \in 1..(R + 1) /\ Len(out) <= R
          /\ \A w \in Workers : pc[w] \in {"idle", "lookup", "compute", "store"}

\* "the upstream pipeline runs at most once per example"
OnceInv == \A e \in 1..N : calls[e] <= 1

\* "every access returns the value the pipeline produced the first time that
\* example was computed": futures, delivered results and the stored value
FirstValueInv == /\ \A t \in 1..R : res[t] \in {0, 1}
                 /\ \A j \in 1..Len(out) : out[j] = 1
                 /\ \A e \in 1..N : mem[e] \in {0, 1}

\* every request is answered, in order, when the pool has come to rest
Answered == (~ENABLED Next) => Len(out) = R
=============================================================================
