----------------------------- MODULE DemandTrace -----------------------------
(* Trace validation for C08: records [id, prog, logs] - the call logs of the *)
(* logging user functions recorded from the real library (see Demand.tla).   *)
EXTENDS Demand, IOUtils
TraceLog == ndJsonDeserialize(IOEnv.TRACE_FILE)
NRec == Len(TraceLog)
VARIABLE l
TInit == l = 1 /\ prog = 0 /\ depth = 0
TNext == \E c \in {2 * l, 2 * l + 1} : c <= NRec /\ l' = c /\ UNCHANGED <<prog, depth>>
TSpec == TInit /\ [][TNext]_<<l, prog, depth>>
Judge ==
  l <= NRec =>
    LET r == TraceLog[l] IN
    PrintT(<<"VERDICT", ToJson([id |-> r.id, C08 |-> V_C08(r.prog, r.logs)])>>)
=============================================================================
