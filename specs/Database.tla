------------------------------ MODULE Database ------------------------------
(***************************************************************************)
(* THE DATABASE LAYER (lazy_dataset/database.py), property C19.            *)
(*                                                                         *)
(* A database DESCRIPTION is a sequence of parts (the dicts handed to       *)
(* DictDatabase / the JSON files handed to JsonDatabase).  A Python dict    *)
(* is a SEQUENCE OF ENTRIES in insertion order (stored order matters).      *)
(*                                                                         *)
(*   part  = [ds    : Seq([name, exs : Seq([id, pay])]),   'datasets'      *)
(*            hasal : BOOLEAN,                 is there an 'alias' section *)
(*            al    : Seq([name, mem : Seq(STRING)]),      'alias'         *)
(*            extra : Seq([key, isdict])]      further top-level keys      *)
(*   step  = [op : "get" | "getl" | "none" | "rel" | "pickle",             *)
(*            names : Seq(STRING), tup : BOOLEAN, h : Int]                 *)
(*           get_dataset(names[1]) / get_dataset(list or tuple of names) / *)
(*           get_dataset(None) / del the handle of step h + gc.collect() / *)
(*           db = pickle.loads(pickle.dumps(db))                           *)
(*                                                                         *)
(* PART 1 transcribes the code: _merge_database_dicts, the `data` and      *)
(*   `alias` properties, get_examples, _get_dataset with its weak memo, as *)
(*   pure step functions over a state record (the very same functions      *)
(*   drive the state machine of PART 5 and predict a recorded history in   *)
(*   DatabaseTrace.tla).                                                   *)
(* PART 2 is the REFERENCE the statement of C19 talks about; it does not   *)
(*   use the merge algorithm.                                              *)
(* PART 3 are the verdict operators, clause by clause, over                *)
(*   (description, kind, history, observation): evaluated by TLC on the    *)
(*   model's own observation (design level) and on the observation taken   *)
(*   from the real library (trace validation).                             *)
(* PART 4 enumerates small descriptions.                                   *)
(* PART 5 is the state machine: Init picks a description and a back end,   *)
(*   actions Request / Release / PickleRoundTrip extend the history.       *)
(*                                                                         *)
(* Field names hold ONE type everywhere (TLC record comparison rule).      *)
(* Defect S11 (merge fails when only a later part has 'alias' / when the   *)
(* first part has a non-dict top-level value) is modelled with its         *)
(* ORIGINAL behaviour iff "S11" \in Unfixed, repaired otherwise.           *)
(***************************************************************************)
EXTENDS Integers, Sequences, FiniteSets, TLC, Json, Defects

CONSTANTS Family,    \* descriptions Init enumerates: "content" | "layout" | "history" | "none"
          Rich,      \* 0 | 1: size of the catalogues
          MaxHist    \* length of the request histories of family "history"

-----------------------------------------------------------------------------
(* Generic helpers                                                         *)
DbFlat(ss) == LET RECURSIVE Go(_)
                  Go(j) == IF j > Len(ss) THEN <<>> ELSE ss[j] \o Go(j + 1)
              IN Go(1)
DbMin(a, b) == IF a < b THEN a ELSE b
SeqSet(q) == {q[j] : j \in 1..Len(q)}
\* the elements q[j] with sel[j] = p, in order
PickAt(q, sel, p) ==
  LET RECURSIVE Go(_)
      Go(j) == IF j > Len(q) THEN <<>>
               ELSE (IF sel[j] = p THEN <<q[j]>> ELSE <<>>) \o Go(j + 1)
  IN Go(1)

(* Python dicts as entry sequences keyed by the field `name`               *)
KeySet(d)    == {d[j].name : j \in 1..Len(d)}
HasKey(d, k) == \E j \in 1..Len(d) : d[j].name = k
Lookup(d, k) == d[CHOOSE j \in 1..Len(d) : d[j].name = k]
\* d.update(e): an existing key keeps its position and gets the new value
DictUpdate(d, e) ==
  LET RECURSIVE Go(_, _)
      Go(acc, j) ==
        IF j > Len(e) THEN acc
        ELSE Go(IF HasKey(acc, e[j].name)
                THEN [m \in 1..Len(acc) |-> IF acc[m].name = e[j].name THEN e[j] ELSE acc[m]]
                ELSE Append(acc, e[j]), j + 1)
  IN Go(d, 1)
(* example dicts: entries [id, pay]                                        *)
IdSet(xs) == {xs[j].id : j \in 1..Len(xs)}
\* {**xs, **ys}
ExUnion(xs, ys) ==
  LET RECURSIVE Go(_, _)
      Go(acc, j) ==
        IF j > Len(ys) THEN acc
        ELSE Go(IF ys[j].id \in IdSet(acc)
                THEN [m \in 1..Len(acc) |-> IF acc[m].id = ys[j].id THEN ys[j] ELSE acc[m]]
                ELSE Append(acc, ys[j]), j + 1)
  IN Go(xs, 1)

EmptyPart == [ds |-> <<>>, hasal |-> FALSE, al |-> <<>>, extra |-> <<>>]
NamesOf(p) == KeySet(p.ds) \cup KeySet(p.al)

\* outcome of a public call (uniform shape); out = examples as
\* [id, pay, dsn] = (example_id, payload, 'dataset' entry)
OkOut(xs) == [ok |-> TRUE,  out |-> xs,   exc |-> "none"]
ErrOut(c) == [ok |-> FALSE, out |-> <<>>, exc |-> c]
NoOrig    == ErrOut("-")

\* step constructors
Get(nm)     == [op |-> "get",    names |-> <<nm>>, tup |-> FALSE, h |-> 0]
GetL(ns, t) == [op |-> "getl",   names |-> ns,     tup |-> t,     h |-> 0]
GetNone     == [op |-> "none",   names |-> <<>>,   tup |-> FALSE, h |-> 0]
Rel(k)      == [op |-> "rel",    names |-> <<>>,   tup |-> FALSE, h |-> k]
Pickle      == [op |-> "pickle", names |-> <<>>,   tup |-> FALSE, h |-> 0]
IsReq(a)    == a.op \in {"get", "getl", "none"}

-----------------------------------------------------------------------------
(* PART 1.  THE IMPLEMENTATION, transcribed                                *)

MergeRes(ok, exc, val) == [ok |-> ok, exc |-> exc, val |-> val]

(***************************************************************************)
(* _merge_database_dicts(database_dicts..)            database.py:314-355   *)
(*   one dict: returned AS IS (the database then works on the caller's     *)
(*   object); otherwise result = {k1: v1.copy() for k1, v1 in first.items()}*)
(*   - ORIGINAL (S11): `.copy()` of a non-dict value -> AttributeError;    *)
(*   every later part: only 'datasets'/'alias' allowed (assert); its       *)
(*   dataset names must be new w.r.t. datasets + aliases merged so far     *)
(*   (assert); result['datasets'].update(..); if it has 'alias': alias     *)
(*   names new w.r.t. the names BEFORE this part (assert), then            *)
(*   result['alias'].update(..) - ORIGINAL (S11): KeyError when the first  *)
(*   part had no 'alias' section; REPAIRED: result.setdefault('alias', {}).*)
(***************************************************************************)
MergeDatabaseDicts(ps) ==
  IF Len(ps) = 1 THEN MergeRes(TRUE, "none", ps[1])
  ELSE
    LET first == ps[1]
        copyFails == /\ "S11" \in Unfixed
                     /\ \E j \in 1..Len(first.extra) : ~first.extra[j].isdict
        RECURSIVE Go(_, _)
        Go(r, j) ==
          IF j > Len(ps) THEN MergeRes(TRUE, "none", r)
          ELSE
            LET p     == ps[j]
                names == KeySet(r.ds) \cup KeySet(r.al)      \* result.get('alias', {})
            IN
            IF p.extra # <<>> THEN MergeRes(FALSE, "AssertionError", r)
            ELSE IF KeySet(p.ds) \cap names # {} THEN MergeRes(FALSE, "AssertionError", r)
            ELSE
              LET r1 == [r EXCEPT !.ds = DictUpdate(@, p.ds)] IN
              IF ~p.hasal THEN Go(r1, j + 1)
              ELSE IF KeySet(p.al) \cap names # {} THEN MergeRes(FALSE, "AssertionError", r1)
              ELSE IF ~r1.hasal
                THEN IF "S11" \in Unfixed
                     THEN MergeRes(FALSE, "KeyError", r1)      \* result['alias'] is missing
                     ELSE Go([r1 EXCEPT !.hasal = TRUE, !.al = p.al], j + 1)
              ELSE Go([r1 EXCEPT !.al = DictUpdate(@, p.al)], j + 1)
    IN IF copyFails THEN MergeRes(FALSE, "AttributeError", first) ELSE Go(first, 2)

(***************************************************************************)
(* State of one database object and of the world around it:                *)
(*   parts  the pristine description, kind "dict" | "json"                 *)
(*   src    the source dicts as they are NOW (dict kind: the caller's      *)
(*          objects; json kind: the files, which nobody writes)            *)
(*   shared the database's `data` IS src[1] (one dict handed over)         *)
(*   loaded / merged   JsonDatabase._data is None until first use          *)
(*   memo   the WeakValueDictionary: entries [name, tok, out] of datasets  *)
(*          that are still alive;  tok identifies the dataset object       *)
(*   live   handles the user still holds: [h = step, toks, ep]             *)
(*   epoch  number of pickle round trips (each yields a new db object)     *)
(***************************************************************************)
\* the `data` property (JsonDatabase: load + merge on first use; a failed
\* merge leaves _data = None, so every later use fails again)
DataOf(s) ==
  IF s.loaded THEN [ok |-> TRUE, exc |-> "none", s |-> s]
  ELSE LET m == MergeDatabaseDicts(s.src) IN
       IF m.ok THEN [ok |-> TRUE, exc |-> "none",
                     s |-> [s EXCEPT !.loaded = TRUE, !.merged = m.val]]
       ELSE [ok |-> FALSE, exc |-> m.exc, s |-> s]

\* the `alias` property: self.data.setdefault('alias', {}) - writes an empty
\* section into the caller's dict when that dict is used as is
AliasOf(s) ==
  IF s.merged.hasal THEN s
  ELSE [s EXCEPT !.merged.hasal = TRUE,
                 !.src[1].hasal = IF s.shared THEN TRUE ELSE @]

\* get_examples(dataset_name)                          database.py:100-146
GetExamples(m, nm) ==
  LET Raw(ok, exs, exc) == [ok |-> ok, exs |-> exs, exc |-> exc]
      raw ==
        IF HasKey(m.al, nm)
        THEN LET mem == Lookup(m.al, nm).mem
                 RECURSIVE Go(_, _)
                 Go(acc, j) ==
                   IF j > Len(mem) THEN Raw(TRUE, acc, "none")
                   ELSE IF ~HasKey(m.ds, mem[j]) THEN Raw(FALSE, <<>>, "KeyError")
                   ELSE LET new == Lookup(m.ds, mem[j]).exs IN
                        IF IdSet(acc) \cap IdSet(new) # {}
                        THEN Raw(FALSE, <<>>, "AssertionError")
                        ELSE Go(ExUnion(acc, new), j + 1)
             IN Go(<<>>, 1)
        ELSE IF HasKey(m.ds, nm) THEN Raw(TRUE, Lookup(m.ds, nm).exs, "none")
        ELSE Raw(FALSE, <<>>, "KeyError")
  IN IF ~raw.ok THEN ErrOut(raw.exc)
     ELSE IF raw.exs = <<>> THEN ErrOut("RuntimeError")
     \* examples[example_id] = {**examples[example_id], 'example_id':.., 'dataset':..}
     \* (new dicts: the stored examples are not written)
     ELSE OkOut([j \in 1..Len(raw.exs) |->
                   [id |-> raw.exs[j].id, pay |-> raw.exs[j].pay, dsn |-> nm]])

\* _get_dataset(name: str)                             database.py:192-206
GetOne(s, nm, fresh) ==
  LET R(s1, ok, out, exc, tok) == [s |-> s1, ok |-> ok, out |-> out, exc |-> exc, tok |-> tok]
  IN
  IF \E e \in s.memo : e.name = nm
  THEN LET hit == CHOOSE e \in s.memo : e.name = nm IN R(s, TRUE, hit.out, "none", hit.tok)
  ELSE LET d == DataOf(s) IN
       IF ~d.ok THEN R(d.s, FALSE, <<>>, d.exc, 0)
       ELSE LET s1 == AliasOf(d.s)
                r  == GetExamples(s1.merged, nm)
            IN IF ~r.ok THEN R(s1, FALSE, <<>>, r.exc, 0)
               ELSE R([s1 EXCEPT !.memo = @ \cup {[name |-> nm, tok |-> fresh, out |-> r.out]}],
                      TRUE, r.out, "none", fresh)

\* _get_dataset(name)                                  database.py:168-190
\* token of a dataset built at step i for member j: 100 * i + j
GetDataset(s, a, i) ==
  LET Res(s1, res, toks) == [s |-> s1, res |-> res, toks |-> toks] IN
  IF a.op = "none" THEN
    \* raise TypeError(f'.. {self.dataset_names}'): the message reads data and alias
    LET d == DataOf(s) IN
    IF ~d.ok THEN Res(d.s, ErrOut(d.exc), <<>>)
    ELSE Res(AliasOf(d.s), ErrOut("TypeError"), <<>>)
  ELSE IF a.op = "get" THEN
    LET r == GetOne(s, a.names[1], 100 * i + 1) IN
    Res(r.s, [ok |-> r.ok, out |-> r.out, exc |-> r.exc], IF r.ok THEN <<r.tok>> ELSE <<>>)
  ELSE
    \* datasets = [self._get_dataset(n) for n in name]; concatenate(datasets..)
    \* (concatenate of ONE dataset is that dataset; of none: ValueError)
    LET RECURSIVE Go(_, _, _, _)
        Go(sj, j, outs, toks) ==
          IF j > Len(a.names)
          THEN IF j = 1 THEN Res(sj, ErrOut("ValueError"), <<>>)
               ELSE Res(sj, OkOut(outs), toks)
          ELSE LET r == GetOne(sj, a.names[j], 100 * i + j) IN
               IF ~r.ok THEN Res(r.s, ErrOut(r.exc), <<>>)
               ELSE Go(r.s, j + 1, outs \o r.out, Append(toks, r.tok))
    IN Go(s, 1, <<>>, <<>>)

\* weak references: an entry lives as long as some handle holds its dataset
Prune(s) == [s EXCEPT !.memo = {e \in @ : \E lv \in s.live : e.tok \in SeqSet(lv.toks)}]

SrcNorm(ps) == [p \in 1..Len(ps) |-> [ps[p] EXCEPT !.hasal = TRUE]]   \* missing = empty

ObsStep(res, toks, pk, s) ==
  [out |-> res, toks |-> toks, pk |-> pk, orig |-> IF pk THEN res ELSE NoOrig,
   srcn |-> SrcNorm(s.src) = SrcNorm(s.parts), srcs |-> s.src = s.parts,
   dead |-> TRUE, clean |-> TRUE]

\* one step of a history; i = its 1-based position
StepFn(s, a, i) ==
  IF IsReq(a) THEN
    LET r  == GetDataset(s, a, i)
        s1 == IF r.res.ok
              THEN [r.s EXCEPT !.live = @ \cup {[h |-> i, toks |-> r.toks, ep |-> r.s.epoch]}]
              ELSE r.s
        s2 == Prune(s1)
    IN [s |-> s2, ob |-> ObsStep(r.res, r.toks, s.epoch > 0, s2)]
  ELSE IF a.op = "rel" THEN
    LET s1 == Prune([s EXCEPT !.live = {lv \in @ : lv.h # a.h}])
    IN [s |-> s1, ob |-> ObsStep(OkOut(<<>>), <<>>, FALSE, s1)]
  ELSE IF s.kind = "dict" THEN
    \* a DictDatabase holds a WeakValueDictionary: not picklable
    [s |-> s, ob |-> ObsStep(ErrOut("AttributeError"), <<>>, FALSE, s)]
  ELSE
    \* JsonDatabase.__reduce__: `_ = self.data`, then (JsonDatabase, (paths,),
    \* {'_data': ..}) - the copy starts with an empty memo
    LET d == DataOf(s) IN
    IF ~d.ok THEN [s |-> d.s, ob |-> ObsStep(ErrOut(d.exc), <<>>, FALSE, d.s)]
    ELSE LET s1 == [d.s EXCEPT !.memo = {}, !.epoch = @ + 1]
         IN [s |-> s1, ob |-> ObsStep(OkOut(<<>>), <<>>, FALSE, s1)]

\* DictDatabase(parts..) merges in __init__; JsonDatabase(paths..) does nothing
\* yet.  bexc = class raised by the constructor (dict) / by `.data` of a
\* throw-away instance over the same files (json).
InitRec(ps, kd) ==
  LET m  == MergeDatabaseDicts(ps)
      up == kd = "dict" /\ m.ok
  IN [s  |-> [parts |-> ps, kind |-> kd, src |-> ps,
              shared |-> kd = "dict" /\ Len(ps) = 1,
              loaded |-> up, merged |-> IF up THEN m.val ELSE EmptyPart,
              memo |-> {}, live |-> {}, epoch |-> 0],
      ob |-> [bexc |-> m.exc, bsrcn |-> TRUE, bsrcs |-> TRUE, steps |-> <<>>]]

\* the model's prediction for a whole history
Run(ps, kd, h) ==
  LET i0 == InitRec(ps, kd)
      RECURSIVE Go(_, _)
      Go(acc, i) ==
        IF i > Len(h) THEN acc
        ELSE LET r   == StepFn(acc.s, h[i], i)
                 nxt == [s |-> r.s, ob |-> [acc.ob EXCEPT !.steps = Append(@, r.ob)]]
             \* (the test forces `nxt` now: TLC passes arguments lazily, and a
             \*  chain of unevaluated steps overflows the Java stack at the end)
             IN IF Len(nxt.ob.steps) = i THEN Go(nxt, i + 1) ELSE acc
  IN IF kd = "dict" /\ i0.ob.bexc # "none" THEN i0 ELSE Go(i0, 1)

-----------------------------------------------------------------------------
(* PART 2.  THE REFERENCE of the statement of C19                          *)

AllDs(ps) == DbFlat([p \in 1..Len(ps) |-> ps[p].ds])
AllAl(ps) == DbFlat([p \in 1..Len(ps) |-> ps[p].al])
\* "duplicate dataset or alias names across merged descriptions"
CrossDup(ps) == \E i, j \in 1..Len(ps) : i < j /\ NamesOf(ps[i]) \cap NamesOf(ps[j]) # {}
\* Only the first description may carry further top-level keys: the merge
\* refuses others with an explicit, documented assert.  The statement does
\* not say that such a description must merge, so it is outside its domain.
LaterExtra(ps) == \E j \in 2..Len(ps) : ps[j].extra # <<>>

Ref(st, out, clause) == [st |-> st, out |-> out, clause |-> clause]
(***************************************************************************)
(* What get_dataset(nm) must yield.  st =                                  *)
(*   "content"  exactly `out`                                              *)
(*   "empty"    nothing is stored under the name: the library refuses      *)
(*              empty datasets loudly on purpose (RuntimeError, see the    *)
(*              comment in get_examples); a refusal or exactly `out`       *)
(*   "mustfail" overlapping example ids inside an alias                    *)
(*   "any"      the statement is silent: unknown name, an alias member     *)
(*              that is not a stored dataset, a name that is both a        *)
(*              dataset and an alias inside ONE description                *)
(***************************************************************************)
RefName(ps, nm) ==
  LET dss == AllDs(ps)
      als == AllAl(ps)
      Aug(xs) == [j \in 1..Len(xs) |-> [id |-> xs[j].id, pay |-> xs[j].pay, dsn |-> nm]]
  IN
  IF HasKey(dss, nm) /\ HasKey(als, nm) THEN Ref("any", <<>>, "ExamplesExact")
  ELSE IF HasKey(dss, nm) THEN
    LET xs == Lookup(dss, nm).exs IN
    Ref(IF xs = <<>> THEN "empty" ELSE "content", Aug(xs), "ExamplesExact")
  ELSE IF HasKey(als, nm) THEN
    LET mem == Lookup(als, nm).mem IN
    IF \E j \in 1..Len(mem) : ~HasKey(dss, mem[j]) THEN Ref("any", <<>>, "AliasIsConcat")
    ELSE LET ls == [j \in 1..Len(mem) |-> Lookup(dss, mem[j]).exs]
             xs == DbFlat(ls)
         IN IF \E i, j \in 1..Len(mem) : i < j /\ IdSet(ls[i]) \cap IdSet(ls[j]) # {}
            THEN Ref("mustfail", <<>>, "DuplicatesRejected")
            ELSE Ref(IF xs = <<>> THEN "empty" ELSE "content", Aug(xs), "AliasIsConcat")
  ELSE Ref("any", <<>>, "ExamplesExact")

RefReq(ps, a) ==
  IF a.op = "get" THEN RefName(ps, a.names[1])
  ELSE IF a.op = "getl" /\ a.names # <<>> THEN
    LET rs  == [j \in 1..Len(a.names) |-> RefName(ps, a.names[j])]
        sts == {rs[j].st : j \in 1..Len(rs)}
        xs  == DbFlat([j \in 1..Len(rs) |-> rs[j].out])
    IN IF "mustfail" \in sts THEN Ref("mustfail", <<>>, "DuplicatesRejected")
       ELSE IF "any" \in sts THEN Ref("any", <<>>, "ListIsConcat")
       ELSE Ref(IF "empty" \in sts THEN "empty" ELSE "content", xs, "ListIsConcat")
  ELSE Ref("any", <<>>, "ListIsConcat")      \* None, the empty list

-----------------------------------------------------------------------------
(***************************************************************************)
(* PART 3.  VERDICT: clauses of C19 over (description, kind, history,      *)
(* observation).  Observation o = [bexc, bsrcn, bsrcs, steps], one entry   *)
(* of `steps` per EXECUTED step:                                           *)
(*   out    outcome of the call (examples in iteration order / class)      *)
(*   toks   per member of the request the identity of the dataset object   *)
(*          that serves it: 100*i+j if it was first seen at step i,        *)
(*          member j, else the token it got when first seen (`is`)         *)
(*   pk     answered by an unpickled copy;  orig = outcome of the same     *)
(*          request on the never-pickled original at that moment           *)
(*   srcn   source deep-equal to the pristine description, a missing       *)
(*          alias section counting as an empty one;  srcs: strictly equal  *)
(*   dead   (release) every dataset without a holder was collected         *)
(*   clean  every yielded example is a dict with exactly the keys          *)
(*          payload, example_id, dataset                                   *)
(***************************************************************************)

ClauseOrder == <<"MergeTotal", "DuplicatesRejected", "SourceUntouched", "ExamplesExact",
                 "AliasIsConcat", "ListIsConcat", "SharedWhileAlive", "PickledAgrees">>

ReqOkAt(h, o, k) == /\ h[k].op \in {"get", "getl"}
                    /\ o.steps[k].out.ok
                    /\ Len(o.steps[k].toks) = Len(h[k].names)
EpochAt(h, o, k) == Cardinality({p \in 1..(k - 1) : h[p].op = "pickle" /\ o.steps[p].out.ok})
LiveAt(h, o, i) ==
  {k \in 1..(i - 1) : /\ ReqOkAt(h, o, k)
                      /\ ~(\E r \in (k + 1)..(i - 1) : h[r].op = "rel" /\ h[r].h = k)}

(***************************************************************************)
(* SharedWhileAlive at request i: for every member (name nm) - if a handle *)
(* of the SAME database object that is still held serves nm from dataset   *)
(* t, the new result must be served from that very object; if none does,   *)
(* a new object must have been built (the memo is weak: a released         *)
(* dataset is not kept).  Earlier members of the same list count as held.  *)
(***************************************************************************)
ShareBad(h, o, i) ==
  /\ ReqOkAt(h, o, i)
  /\ LET tk == o.steps[i].toks
         nm == h[i].names
         ep == EpochAt(h, o, i)
         lv == {k \in LiveAt(h, o, i) : EpochAt(h, o, k) = ep}
         Holders(j) ==
           UNION {{o.steps[k].toks[m] : m \in {m2 \in 1..Len(h[k].names) : h[k].names[m2] = nm[j]}}
                  : k \in lv}
           \cup {tk[m] : m \in {m2 \in 1..(j - 1) : nm[m2] = nm[j]}}
         Seen(j) == UNION {SeqSet(o.steps[k].toks) : k \in 1..(i - 1)}
                    \cup {tk[m] : m \in 1..(j - 1)}
     IN \E j \in 1..Len(tk) :
          LET H == Holders(j) IN IF H # {} THEN tk[j] \notin H ELSE tk[j] \in Seen(j)

SameOut(x, y) == x.ok = y.ok /\ x.out = y.out /\ x.exc = y.exc

StepFails(ps, kd, h, o, i) ==
  LET a  == h[i]
      ob == o.steps[i]
  IN
  IF IsReq(a) THEN
    LET ref  == RefReq(ps, a)
        good == ob.out.ok /\ ob.out.out = ref.out /\ ob.clean
    IN (IF \/ ref.st = "content" /\ ~good
           \/ ref.st = "empty" /\ ob.out.ok /\ ~good
        THEN {ref.clause} ELSE {})
       \cup (IF ref.st = "mustfail" /\ ob.out.ok THEN {"DuplicatesRejected"} ELSE {})
       \cup (IF ShareBad(h, o, i) THEN {"SharedWhileAlive"} ELSE {})
       \cup (IF ob.pk /\ ~SameOut(ob.out, ob.orig) THEN {"PickledAgrees"} ELSE {})
  ELSE IF a.op = "pickle" /\ kd = "json" /\ ~ob.out.ok THEN {"PickledAgrees"}
  ELSE {}

NSteps(h, o) == DbMin(Len(h), Len(o.steps))

FailSet(ps, kd, h, o) ==
  LET dup   == CrossDup(ps)
      lex   == LaterExtra(ps)
      built == o.bexc = "none"
      n     == NSteps(h, o)
  IN (IF ~dup /\ ~lex /\ ~built THEN {"MergeTotal"} ELSE {})
     \cup (IF dup /\ built THEN {"DuplicatesRejected"} ELSE {})
     \cup (IF ~o.bsrcn \/ \E i \in 1..n : ~o.steps[i].srcn THEN {"SourceUntouched"} ELSE {})
     \cup (IF built /\ ~dup /\ ~lex
           THEN UNION {StepFails(ps, kd, h, o, i) : i \in 1..n} ELSE {})

FailSeq(ps, kd, h, o) ==
  LET f == FailSet(ps, kd, h, o) IN SelectSeq(ClauseOrder, LAMBDA c : c \in f)

\* something of the statement was really exercised
Applied(ps, kd, h, o) ==
  \/ CrossDup(ps)
  \/ Len(ps) > 1
  \/ \E i \in 1..NSteps(h, o) :
       \/ IsReq(h[i]) /\ RefReq(ps, h[i]).st \in {"content", "mustfail"}
       \/ h[i].op = "pickle"

\* f = FailSeq(ps, kd, h, o)
VerdictOf(ps, kd, h, o, f) ==
  IF f # <<>> THEN <<"viol", f[1]>>
  ELSE IF LaterExtra(ps) /\ ~CrossDup(ps) THEN <<"trivial", "later-part-extra-keys">>
  ELSE IF Applied(ps, kd, h, o) THEN <<"ok", "">>
  ELSE <<"trivial", "nothing-to-check">>
V_C19(ps, kd, h, o) == VerdictOf(ps, kd, h, o, FailSeq(ps, kd, h, o))

(***************************************************************************)
(* Conformance (drift): the real observation is the one the model predicts *)
(***************************************************************************)
ConfWhere(o, m) ==
  IF o.bexc # m.bexc THEN "build"
  ELSE IF o.bsrcn # m.bsrcn \/ o.bsrcs # m.bsrcs THEN "build-source"
  ELSE IF Len(o.steps) # Len(m.steps) THEN "steps"
  ELSE
    LET Diff(x, y) ==
          IF x.out.ok # y.out.ok \/ x.out.out # y.out.out THEN "out"
          ELSE IF x.out.exc # y.out.exc THEN "exc"
          ELSE IF x.toks # y.toks THEN "identity"
          ELSE IF x.pk # y.pk \/ ~SameOut(x.orig, y.orig) THEN "pickled"
          ELSE IF x.srcn # y.srcn \/ x.srcs # y.srcs THEN "source"
          ELSE IF x.dead # y.dead THEN "collected"
          ELSE IF x.clean # y.clean THEN "keys"
          ELSE ""
        bad == {i \in 1..Len(o.steps) : Diff(o.steps[i], m.steps[i]) # ""}
    IN IF bad = {} THEN "conforms"
       ELSE LET i == CHOOSE i \in bad : \A k \in bad : i <= k
            IN Diff(o.steps[i], m.steps[i]) \o "@" \o ToString(i)

-----------------------------------------------------------------------------
(* PART 4.  SMALL DESCRIPTIONS                                             *)

IdName == <<"e1", "e2", "e3", "e4">>
\* (names have two letters: CPython shares all one-letter strings, which would
\*  hide a memo keyed by object identity)
DsName == <<"aa", "bb", "cc">>
\* dataset k with the example ids of `shape`; every stored example has its
\* own payload
MkDs(k, shape) ==
  [name |-> DsName[k],
   exs  |-> [j \in 1..Len(shape) |-> [id |-> IdName[shape[j]], pay |-> 10 * k + j]]]
Al(nm, mem) == [name |-> nm, mem |-> mem]
XDict == [key |-> "meta", isdict |-> TRUE]         \* 'meta': {'k': 1}
XStr  == [key |-> "version", isdict |-> FALSE]     \* 'version': 'v1'

\* np parts; dataset k goes to part dpart[k], alias k to part apart[k]; the
\* parts in `secs` have an alias section even when they hold no alias;
\* ex1 = further keys of the first part, part exl (> 1) gets a further key
Layout(np, dss, dpart, als, apart, secs, ex1, exl) ==
  [p \in 1..np |->
     [ds    |-> PickAt(dss, dpart, p),
      hasal |-> p \in secs \/ \E k \in 1..Len(als) : apart[k] = p,
      al    |-> PickAt(als, apart, p),
      extra |-> IF p = 1 THEN ex1 ELSE IF p = exl THEN <<XDict>> ELSE <<>>]]
AddDs(ps, q, e) == [ps EXCEPT ![q].ds = Append(@, e)]
AddAl(ps, q, e) == [ps EXCEPT ![q].al = Append(@, e), ![q].hasal = TRUE]

(* family "content": what is stored varies, the layout is one of five      *)
ShapesOf(k) ==
  IF Rich = 1 THEN {<<>>, <<1>>, <<2, 1>>, <<3>>, <<3, 4>>}
  ELSE CASE k = 1 -> {<<>>, <<1>>, <<2, 1>>}
         [] k = 2 -> {<<>>, <<1>>, <<3>>}
         [] OTHER -> {<<>>, <<3, 4>>}
RECURSIVE DsCfgs(_)
DsCfgs(nd) == IF nd = 0 THEN {<<>>}
              ELSE {Append(c, MkDs(nd, sh)) : c \in DsCfgs(nd - 1), sh \in ShapesOf(nd)}
AllDsCfgs(u) == UNION {DsCfgs(nd) : nd \in 0..3}
XMems == IF Rich = 1
         THEN {<<"aa">>, <<"aa", "bb">>, <<"bb", "aa">>, <<"bb", "cc">>, <<"aa", "aa">>, <<>>,
               <<"aa", "zz">>, <<"aa", "bb", "cc">>, <<"cc", "bb", "aa">>}
         ELSE {<<"aa", "bb">>, <<"bb", "aa">>, <<"bb", "cc">>, <<"aa", "aa">>, <<>>, <<"aa", "zz">>}
YMems == IF Rich = 1 THEN {<<"aa", "bb", "cc">>, <<"cc">>, <<"bb">>, <<"xx">>}
         ELSE {<<"aa", "bb", "cc">>, <<"cc">>}
AlCfgs(u) == {<<>>}
          \cup {<<Al("xx", m)>> : m \in XMems}
          \cup {<<Al("xx", m), Al("yy", m2)>> : m \in XMems, m2 \in YMems}
          \cup (IF Rich = 1 THEN {<<Al("bb", <<"aa">>)>>, <<Al("xx", <<"aa">>), Al("bb", <<"aa">>)>>}
                ELSE {})
ContentLayouts ==
  {[np |-> 1, split |-> FALSE, ap |-> 1, secs |-> {}],
   [np |-> 1, split |-> FALSE, ap |-> 1, secs |-> {1}],
   [np |-> 2, split |-> TRUE,  ap |-> 2, secs |-> {}],      \* only the later part has aliases
   [np |-> 2, split |-> TRUE,  ap |-> 2, secs |-> {1}],
   [np |-> 2, split |-> TRUE,  ap |-> 1, secs |-> {}]}
\* (predicates over the chosen description p rather than sets of
\*  descriptions: TLC enumerates the parameters without first building and
\*  normalising a huge set of nested records)
IsContentDesc(p) ==
  \E lay \in ContentLayouts, dss \in AllDsCfgs(0), als \in AlCfgs(0) :
    p = Layout(lay.np, dss, [k \in 1..Len(dss) |-> IF lay.split /\ k > 1 THEN 2 ELSE 1],
               als, [k \in 1..Len(als) |-> lay.ap], lay.secs, <<>>, 0)

(* family "layout": fixed content, every placement over 1..3 parts, alias  *)
(* sections present / missing, further keys, one duplicate                 *)
LDs == IF Rich = 1 THEN <<MkDs(1, <<1>>), MkDs(2, <<3>>), MkDs(3, <<2, 1>>)>>
       ELSE <<MkDs(1, <<1>>), MkDs(2, <<3>>)>>
LAls == {<<>>, <<Al("xx", <<"aa", "bb">>)>>, <<Al("xx", <<"aa", "bb">>), Al("yy", <<"bb">>)>>}
Ex1Opts == {<<>>, <<XDict>>, <<XStr>>, <<XDict, XStr>>}
DupKinds == {"ds-ds", "al-ds", "ds-al", "al-al"}
\* place one name a second time, in part q
WithDup(ps, dk, q) ==
  CASE dk = "ds-ds" -> AddDs(ps, q, [name |-> "aa", exs |-> <<[id |-> "e4", pay |-> 41]>>])
    [] dk = "al-ds" -> AddAl(ps, q, Al("aa", <<"bb">>))
    [] dk = "ds-al" -> AddDs(ps, q, [name |-> "xx", exs |-> <<[id |-> "e4", pay |-> 42]>>])
    [] OTHER        -> AddAl(ps, q, Al("xx", <<"bb">>))
DupOk(ps, dk, q) ==      \* the name exists, and not in part q
  LET nm == IF dk \in {"ds-ds", "al-ds"} THEN "aa" ELSE "xx"
  IN nm \notin NamesOf(ps[q]) /\ \E p \in 1..Len(ps) : nm \in NamesOf(ps[p])
\* <<aliases, part of each alias>>
AlPlacements(np) == UNION {{<<als, ap>> : ap \in [1..Len(als) -> 1..np]} : als \in LAls}
IsBaseLayout(p, np, secsOpts, ex1Opts, exlOpts) ==
  \E dp \in [1..Len(LDs) -> 1..np], z \in AlPlacements(np), secs \in secsOpts,
     ex1 \in ex1Opts, exl \in exlOpts :
    p = Layout(np, LDs, dp, z[1], z[2], secs, ex1, exl)
IsLayoutDesc(p) ==
  \E np \in 1..3 :
    \/ IF Rich = 1 THEN IsBaseLayout(p, np, SUBSET (1..np), Ex1Opts, {0})
       ELSE \/ IsBaseLayout(p, np, SUBSET (1..np), {<<>>}, {0})
            \/ IsBaseLayout(p, np, {{}, 1..np}, Ex1Opts, {0})
    \/ IsBaseLayout(p, np, {{}, 1..np}, {<<>>, <<XStr>>}, 2..np)
    \/ \E dp \in [1..Len(LDs) -> 1..np], z \in AlPlacements(np), secs \in {{}, 1..np},
          dk \in DupKinds, q \in 1..np :
         LET b == Layout(np, LDs, dp, z[1], z[2], secs, <<>>, 0)
         IN DupOk(b, dk, q) /\ p = WithDup(b, dk, q)

(* family "history": a handful of descriptions, every request history      *)
HistDescs(u) ==
  LET a21 == MkDs(1, <<2, 1>>)
      b3  == MkDs(2, <<3>>)
      b1  == MkDs(2, <<1>>)
      P(ds, hasal, al, extra) == [ds |-> ds, hasal |-> hasal, al |-> al, extra |-> extra]
  IN {<<P(<<a21, b3>>, FALSE, <<>>, <<>>)>>,                          \* one part, no alias section
      <<P(<<a21, b3>>, TRUE, <<Al("xx", <<"aa", "bb">>)>>, <<XStr>>)>>,  \* one part with an alias
      <<P(<<a21>>, TRUE, <<Al("xx", <<"aa">>)>>, <<XDict>>),            \* two parts, both with aliases
        P(<<b3>>, TRUE, <<Al("yy", <<"bb", "aa">>)>>, <<>>)>>,
      <<P(<<a21>>, FALSE, <<>>, <<>>),                                \* only the later part has aliases
        P(<<b3>>, TRUE, <<Al("xx", <<"aa", "bb">>)>>, <<>>)>>,
      <<P(<<MkDs(1, <<1>>), b1>>, TRUE, <<Al("xx", <<"aa", "bb">>)>>, <<>>)>>}  \* overlapping ids


(* requests                                                                *)
NameOrder == <<"aa", "bb", "cc", "xx", "yy", "zz">>
AllNames(ps) == UNION {NamesOf(ps[p]) : p \in 1..Len(ps)}
\* the probe history of the families "content" and "layout": every name,
\* the list catalogue, None; json: a pickle round trip and two more requests
ProbeSeq(ps, kd) ==
  LET N     == AllNames(ps) \cup {"zz"}
      names == SelectSeq(NameOrder, LAMBDA x : x \in N)
      lists == IF Family = "content"
               THEN <<GetL(<<"aa">>, FALSE), GetL(<<"aa", "bb">>, FALSE), GetL(<<"bb", "aa">>, TRUE),
                      GetL(<<"aa", "aa">>, FALSE), GetL(<<"xx", "aa">>, FALSE),
                      GetL(<<"aa", "zz">>, TRUE), GetL(<<>>, FALSE),
                      GetL(<<"cc", "bb", "aa">>, FALSE)>>
               ELSE <<GetL(<<"aa", "bb">>, FALSE), GetL(<<"xx", "bb">>, TRUE)>>
      first == IF names = <<>> THEN "zz" ELSE names[1]
  IN [j \in 1..Len(names) |-> Get(names[j])]
     \o SelectSeq(lists, LAMBDA a : SeqSet(a.names) \subseteq N)
     \o <<GetNone>>
     \o (IF kd = "json" THEN <<Pickle, Get(first), GetL(<<"aa", "bb">>, FALSE)>> ELSE <<>>)
\* the request alphabet of the family "history"
HistReqs(ps) ==
  LET N == AllNames(ps) IN
  {Get(nm) : nm \in (N \cap {"aa", "bb", "xx"}) \cup {"zz"}}
  \cup {a \in {GetL(<<"aa", "bb">>, FALSE), GetL(<<"aa">>, FALSE)} : SeqSet(a.names) \subseteq N}
  \cup (IF Rich = 1 THEN {GetNone} \cup {a \in {GetL(<<"xx", "aa">>, TRUE)} : SeqSet(a.names) \subseteq N}
        ELSE {})

-----------------------------------------------------------------------------
(* PART 5.  THE STATE MACHINE over a request history                       *)

VARIABLES parts, kind,      \* the description and the back end (fixed by Init)
          hist,             \* history variable: the steps so far
          todo,             \* families "content" / "layout": the rest of the probe history
          src, loaded, merged, memo, live, epoch,   \* see PART 1
          mobs              \* the model's observation of `hist`
vars == <<parts, kind, hist, todo, src, loaded, merged, memo, live, epoch, mobs>>

Cur == [parts |-> parts, kind |-> kind, src |-> src,
        shared |-> kind = "dict" /\ Len(parts) = 1,
        loaded |-> loaded, merged |-> merged, memo |-> memo, live |-> live, epoch |-> epoch]

Probing == Family \in {"content", "layout"}

Init ==
  /\ CASE Family = "content" -> IsContentDesc(parts)
       [] Family = "layout"  -> IsLayoutDesc(parts)
       [] Family = "history" -> parts \in HistDescs(0)
       [] OTHER              -> FALSE
  /\ kind \in {"dict", "json"}
  /\ hist = <<>>
  /\ todo = IF Probing THEN ProbeSeq(parts, kind) ELSE <<>>
  /\ LET r == InitRec(parts, kind) IN
     /\ src = r.s.src /\ loaded = r.s.loaded /\ merged = r.s.merged
     /\ memo = r.s.memo /\ live = r.s.live /\ epoch = r.s.epoch
     /\ mobs = r.ob

\* a DictDatabase whose constructor raised does not exist
Exists == kind = "json" \/ mobs.bexc = "none"
CanStep == Exists /\ (IF Probing THEN todo # <<>> ELSE Len(hist) < MaxHist)

Do(a) ==
  LET r == StepFn(Cur, a, Len(hist) + 1) IN
  /\ hist' = Append(hist, a)
  /\ src' = r.s.src /\ loaded' = r.s.loaded /\ merged' = r.s.merged
  /\ memo' = r.s.memo /\ live' = r.s.live /\ epoch' = r.s.epoch
  /\ mobs' = [mobs EXCEPT !.steps = Append(@, r.ob)]
  /\ UNCHANGED <<parts, kind>>

\* get_dataset(name | list of names | None)
Request(a) == CanStep /\ IsReq(a) /\ Do(a)
\* del handle; gc.collect()
Release(k) == CanStep /\ (\E lv \in live : lv.h = k) /\ Do(Rel(k))
\* db = pickle.loads(pickle.dumps(db))   (JsonDatabase only)
PickleRoundTrip == CanStep /\ kind = "json" /\ Do(Pickle)

Next ==
  IF Probing
  THEN /\ todo # <<>>
       /\ todo' = Tail(todo)
       /\ IF IsReq(Head(todo)) THEN Request(Head(todo)) ELSE PickleRoundTrip
  ELSE /\ UNCHANGED todo
       /\ \/ \E a \in HistReqs(parts) : Request(a)
          \/ \E k \in 1..Len(hist) : Release(k)
          \/ PickleRoundTrip

Spec == Init /\ [][Next]_vars

-----------------------------------------------------------------------------
(* Properties of the design: every clause of C19 on the model's own        *)
(* observation, in every reachable state.                                  *)
ModelFails == FailSet(parts, kind, hist, mobs)
Inv_MergeTotal         == "MergeTotal" \notin ModelFails
Inv_DuplicatesRejected == "DuplicatesRejected" \notin ModelFails
Inv_SourceUntouched    == "SourceUntouched" \notin ModelFails
Inv_ExamplesExact      == "ExamplesExact" \notin ModelFails
Inv_AliasIsConcat      == "AliasIsConcat" \notin ModelFails
Inv_ListIsConcat       == "ListIsConcat" \notin ModelFails
Inv_SharedWhileAlive   == "SharedWhileAlive" \notin ModelFails
Inv_PickledAgrees      == "PickledAgrees" \notin ModelFails
\* the weak memo holds exactly the datasets some handle still references
Inv_MemoWeak ==
  /\ \A e \in memo : \E lv \in live : e.tok \in SeqSet(lv.toks)
  /\ \A e1, e2 \in memo : e1.name = e2.name => e1 = e2

\* Emission (always true): one line per COMPLETE behaviour - shorter
\* histories are prefixes of emitted ones, their steps are judged there.
EmitBehaviour ==
  CanStep \/
    LET f == FailSeq(parts, kind, hist, mobs) IN
    PrintT(<<"VEC", ToJson([parts |-> parts, kind |-> kind, history |-> hist,
                            mv |-> VerdictOf(parts, kind, hist, mobs, f), mc |-> f])>>)
=============================================================================
