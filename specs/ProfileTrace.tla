----------------------------- MODULE ProfileTrace -----------------------------
(* Trace validation for C20 (see Profile.tla): one record per program.       *)
EXTENDS Profile, IOUtils
TraceLog == ndJsonDeserialize(IOEnv.TRACE_FILE)
NRec == Len(TraceLog)
VARIABLE l
TInit == l = 1 /\ prog = 0 /\ depth = 0
TNext == \E c \in {2 * l, 2 * l + 1} : c <= NRec /\ l' = c /\ UNCHANGED <<prog, depth>>
TSpec == TInit /\ [][TNext]_<<l, prog, depth>>
Judge ==
  l <= NRec =>
    LET r == TraceLog[l] IN
    PrintT(<<"VERDICT", ToJson([id |-> r.id, C20 |-> V_C20(r.prog, r)])>>)
=============================================================================
