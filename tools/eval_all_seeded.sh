#!/bin/bash
# Re-evaluate every kept seeded change (seeded/<id>/) against the checks that
# reported it (meta.json "checks"); results in $1 (default: a scratch directory
# printed at the end), a summary table on stdout.  Takes ~4 h for the 120 changes with 3 in parallel.
out=${1:-$(mktemp -d /tmp/seeded-eval-XXXX)}
mkdir -p "$out"
cd /verif
for d in seeded/C*-[1-6]; do
  id=$(basename $d); prop=${id%-*}
  checks=$(/venv/bin/python -c "import json,sys; m=json.load(open('$d/meta.json')); print(' '.join(c for c,v in m['checks'].items() if 'rc=1' in v))")
  echo "$prop /verif/$d $out/$id.json $checks"
done | xargs -P ${PAR:-3} -L 1 bash -c 'p=$0; d=$1; o=$2; shift 2; timeout 7200 /verif/tools/eval_seeded.py $p $d "$@" > $o 2>$o.err'
/venv/bin/python - "$out" <<'PY'
import json, glob, sys, os
for f in sorted(glob.glob(os.path.join(sys.argv[1], '*.json'))):
    try:
        d = json.load(open(f))
    except Exception as e:
        print(os.path.basename(f), 'UNREADABLE', e); continue
    ch = {k: v['rc'] for k, v in d['checks'].items()}
    ok = d['demo_clean_rc'] == 0 and d['patch_applies'] and d['demo_patched_rc'] != 0 and d['suite_ok']
    print(os.path.basename(f)[:-5], 'valid' if ok else 'INVALID', 'caught' if any(r == 1 for r in ch.values()) else 'MISSED', ch)
PY
echo "results in $out"
