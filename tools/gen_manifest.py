#!/usr/bin/env python3
"""Generate /verif/MANIFEST.json from the table below (single source of truth)."""
import json
import subprocess

CLAIMED = {
 'C01': dict(engine='pipeline', cat='model_checking', ref='DESIGN.md section 6 C01',
   text='TLC enumerates every API program up to depth 2 (one rich + reduced operations, all slice forms at depth 1) as a state machine (Pipeline.tla), checks the implementation-shaped model against the eager reference for each, every enumerated program (quick: all depth-1, a seeded sample of depth-2 plus everything the model flags; thorough: all) is executed on the real library and the recorded observation is judged by TLC (PipelineTrace.tla): iteration = reference, second iteration identical. Deep random programs (depth 3-7) are validated code->spec the same way.',
   note='Trusted: TLC; the Python twins of the user-function catalogue; harness/build.py (term -> API calls). Bounded: sources of 0..4 examples, catalogue of specs/Pipeline.tla.',
   tech='TLA+ state machine over API programs, TLC BFS + trace validation of real observations'),
 'C02': dict(engine='pipeline', cat='model_checking', ref='DESIGN.md section 6 C02',
   text='Same program space as C01; for every program the real len(), ds[i] for ALL i in [-len-2, len+2) as int and numpy.int64, and list(ds) are recorded and TLC evaluates the self-consistency verdict V_C02 on the real observation (and on the model observation for every enumerated program).',
   note='As C01. The verdict uses only the real observation (no model) except that an empty dataset may refuse out-of-range access with any exception.',
   tech='TLA+ state machine over API programs, TLC BFS + trace validation of real observations'),
 'C03': dict(engine='pipeline', cat='model_checking', ref='DESIGN.md section 6 C03',
   text='Same program space as C01 over dict-backed sources (unique keys, duplicate keys across concatenated / tiled parts); keys(), list(items()), ds[k] for present and absent probe keys are recorded and judged by TLC against the reference (which carries keys through every combinator).',
   note='As C01. "raises a lookup error" is checked as "raises, never returns a value"; the exception class is recorded as conformance data only.',
   tech='TLA+ state machine over API programs, TLC BFS + trace validation of real observations'),
}

PENDING_REASON = 'check not built yet in this round (specification planned in DESIGN.md section 6); will be claimed when its check exists'


def main():
    props = [json.loads(l) for l in open('/verif/properties.jsonl')]
    commits = subprocess.run(['git', '-C', '/repo', 'log', '--format=%h %s', '--grep=^verif-hook:'],
                             capture_output=True, text=True).stdout.split('\n')
    checks, na = [], []
    for p in props:
        pid = p['id']
        if pid in CLAIMED:
            c = CLAIMED[pid]
            checks.append({
                'property_id': pid,
                'quick_cmd': f'./check {pid} --tier quick',
                'thorough_cmd': f'./check {pid} --tier thorough',
                'evidence_file': f'/verif/evidence/{pid}.json',
                'replay_cmd_template': f'./check {pid} --replay {{path}}',
                'engine': c['engine'],
                'level_claimed': {'category': c['cat'], 'text': c['text'], 'design_ref': c['ref']},
                'level_note': c['note'],
                'technique': c['tech'],
            })
        else:
            na.append({'property_id': pid, 'reason': PENDING_REASON})
    m = {
        'version': 1,
        'setup_cmd': 'true',
        'hooks': {
            'guard': 'FGNT_LAZY_DATASET_VERIF',
            'enable': 'no source hooks: the harness observes through the public API, module-namespace shims and sys.settrace installed at run time',
            'baseline_off_cmd': '/verif/tools/baseline_off.py',
            'source_commits': [c.split()[0] for c in commits if c.strip()],
            'add_only': True,
        },
        'engines': [
            {'name': 'pipeline', 'path': '/verif/specs/Pipeline.tla',
             'serves_properties': ['C01', 'C02', 'C03'],
             'kind_free_text': 'TLA+ specs Values/Ref/Impl/Obs/Pipeline/PipelineTrace checked with TLC; harness/{build,observe,pipeline}.py bind them to the code in both directions'},
        ],
        'checks': checks,
        'notes': 'All checks run ./check <id> (bash -> /venv/bin/python -m harness.main); they import lazy_dataset from /repo working tree at run time (pure Python, nothing to build). Genuine defects found are in known_findings.json (fixed ones carry their /repo commit).',
        'not_applicable': na,
    }
    json.dump(m, open('/verif/MANIFEST.json', 'w'), indent=1)
    print('checks', len(checks), 'not_applicable', len(na))


main()
