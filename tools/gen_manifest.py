#!/usr/bin/env python3
"""Generate /verif/MANIFEST.json from the table below (single source of truth)."""
import json
import subprocess

CLAIMED = {
 'C01': dict(engine='pipeline', cat='model_checking', ref='DESIGN.md section 6 C01',
   text='TLC enumerates every API program up to depth 2 (one rich + reduced operations, all slice forms at depth 1) as a state machine (Pipeline.tla), checks the implementation-shaped model against the eager reference for each, every enumerated program (quick: all depth-1, a seeded sample of depth-2 plus everything the model flags; thorough: all) is executed on the real library and the recorded observation is judged by TLC (PipelineTrace.tla): iteration = reference, second iteration identical. Deep random programs (depth 3-7, incl. ds.apply(g, lazy)) are validated code->spec the same way. Pipelines consumed through a worker pool (prefetch / parallel map with 2-3 workers on top of random pipelines, 1.5k quick / 40k thorough) are iterated twice under seeded schedules of the REAL threads with every source line of lazy_dataset/core.py a scheduling point (the workers share the dataset object) and judged like any other observation.',
   note='Trusted: TLC; the Python twins of the user-function catalogue; harness/build.py (term -> API calls). Bounded: sources of 0..4 examples, catalogue of specs/Pipeline.tla.',
   tech='TLA+ state machine over API programs, TLC BFS + trace validation of real observations'),
 'C02': dict(engine='pipeline', cat='model_checking', ref='DESIGN.md section 6 C02',
   text='Same program space as C01; for every program the real len(), ds[i] for ALL i in [-len-2, len+2) as int and numpy.int64, and list(ds) are recorded and TLC evaluates the self-consistency verdict V_C02 on the real observation (and on the model observation for every enumerated program).',
   note='As C01. The verdict uses only the real observation (no model) except that an empty dataset may refuse out-of-range access with any exception.',
   tech='TLA+ state machine over API programs, TLC BFS + trace validation of real observations'),
 'C03': dict(engine='pipeline', cat='model_checking', ref='DESIGN.md section 6 C03',
   text='Same program space as C01 over dict-backed sources (unique keys, duplicate keys across concatenated / tiled parts); keys(), list(items()), ds[k] for present and absent probe keys are recorded and judged by TLC against the reference (which carries keys through every combinator).',
   note='As C01. "raises a lookup error" is checked as "raises, never returns a value"; the exception class is recorded as conformance data only.',
   tech='TLA+ state machine over API programs, TLC BFS + trace validation of real observations'),
 'C04': dict(engine='conc', cat='model_checking', ref='DESIGN.md section 6 C04',
   text='TLC explores every interleaving of the implementation-shaped specs SingleThreadPrefetch.tla (worker/consumer, one action per access to the queue, the shutdown flag, exc_info) and PoolMap.tla (generator thread + pool threads, every completion order) for all configurations up to n=3 (thorough 4): order/exactly-once/completeness invariants. Bound to the code both ways: a transition cover of TLC\'s state graphs is replayed on the REAL threads under a controlled scheduler (unmodified parallel_utils, shims + sys.settrace on closure-cell lines) and the real code\'s own schedules are explored by stateless DFS (exhaustive for small configurations) and seeded random schedules; every recorded event log is validated by TLC against the spec actions (field by field) and judged by the property verdicts. Dataset level (ds.prefetch / ds.map(num_workers), catch_filter_exception) likewise under the scheduler; pool workers over STRUCTURED pipelines they share (random API terms, failing functions, catch_filter_exception) with every source line of core.py and parallel_utils.py a scheduling point; the four process back ends are sampled with real OS scheduling.',
   note='Trusted: TLC; harness/detsched.py shim executor as a model of concurrent.futures.ThreadPoolExecutor; scheduling points = shim ops + user code + lines touching shutdown/exc_info (spec-guided replays, DFS) or every source line of parallel_utils.py / core.py (random schedules). Process back ends: sampling only.',
   tech='TLA+ specs of the thread protocols, TLC model checking + transition-cover replay + trace validation under a controlled scheduler'),
 'C05': dict(engine='conc', cat='model_checking', ref='DESIGN.md section 6 C05',
   text='Same machinery as C04. Design level: NoDeadlock invariant, termination under weak fairness, "control is back only after every background thread exited", "nothing pending after terminate()"; vacuity scenario: with the sentinel guard removed TLC must find the documented buffer_size=1 deadlock. Code level: under the controlled scheduler deadlock is exact (no enabled thread), thread liveness and user code after return are read from the event log; every consumer stop point (exhaustion, close after k, throw) x source end/failure.',
   note='As C04. Cancellation cannot be atomic with close(): the checked clause is "a cancelled future never runs and nothing stays pending after terminate()". Real process pools: wall-clock bound 90 s for millisecond workloads.',
   tech='TLA+ specs of the thread protocols, TLC model checking (deadlock, liveness) + controlled-scheduler trace validation'),
 'C06': dict(engine='conc', cat='model_checking', ref='DESIGN.md section 6 C06',
   text='Same machinery as C04 with fault injection: the source raises (Exception / BaseException) at every position in the worker thread; the mapped function raises on every item in a pool task; catch_filter_exception on/off with caught and foreign exception types. Invariants: the failure surfaces after exactly the preceding examples, never a silent truncation; catching omits exactly the failing examples.',
   note='As C04. A source failure in the FOREGROUND of lazy_parallel_map (the consumer\'s own thread) is outside the antecedent "evaluated in the background": only "not swallowed" is demanded there (DESIGN section 6).',
   tech='TLA+ specs of the thread protocols with fault injection, TLC model checking + controlled-scheduler trace validation'),
 'C07': dict(engine='conc', cat='model_checking', ref='DESIGN.md section 6 C07',
   text='Same machinery as C04. State invariants pulled - delivered <= buffer + 2 and started - delivered <= buffer in every state of every schedule (the consumer may pause anywhere); the tightened bounds are REFUTED by TLC (vacuity guard). On real event logs the bound is evaluated at every prefix, with workloads of 4..12 items above the buffer size. Beyond the enumerated constants: TLC checks that SingleThreadPrefetch.tla / PoolMap.tla IMPLEMENT the counting abstractions STPCount.tla / PoolCount.tla (refinement, PROPERTY CountSpec), and Apalache proves their invariant inductive with unbounded integers, i.e. the bound for every dataset length, buffer size and pool size. The worker pools are also run over structured pipelines they share, with every source line of core.py a scheduling point.',
   note='As C04. With catch_filter_exception, examples dropped by the catch count as consumed once finished.',
   tech='TLA+ specs of the thread protocols, TLC invariant checking + refinement to a counting abstraction with an Apalache inductive-invariant proof + controlled-scheduler trace validation'),
 'C14': dict(engine='pipeline', cat='model_checking', ref='DESIGN.md section 6 C14',
   text='Staged fault family of Pipeline.tla: source . failing map (EVERY subset of failing positions x 5 exception classes incl. a subclass of FilterException and a BaseException) . middle stage . every catch form (catch(E) for single type / tuple / Exception / unrelated type, thread and pool prefetch with catch_filter_exception) or an eager operation that must propagate . consumer on top (items, map, batch). TLC checks the implementation-shaped model against the reference (which removes exactly the examples whose evaluation raises a caught class and surfaces any other failure at its position with its class) for all programs; they are executed on the real library (quick: seeded sample + everything the model flags; thorough: all) and TLC judges the recorded value AND key iteration. Exception classes include a user IndexError subclass (which the library itself catches in BatchDataset) and catch(LookupError).',
   note='As C01. catch() over an input whose examples cannot be fetched individually (non-indexable) is outside the quantifier ("indexable upstream pipelines").',
   tech='TLA+ state machine over fault-injected API programs, TLC BFS + trace validation of real observations'),
 'C15': dict(engine='shards', cat='model_checking', ref='DESIGN.md section 6 C15',
   text='Shards.tla: TLC enumerates EVERY (n, k) with 0 <= n <= 40 (thorough 160) and -1 <= k <= n + 2, checks the partition properties on the model of np.array_split; the real split / shard is run for every pair and every shard index on list- and dict-backed datasets and TLC judges the recorded shards: concatenation reproduces the dataset (disjoint, cover, order), sizes differ by at most one, shard(k, i) = split(k)[i] incl. keys, invalid counts rejected. Exhaustive inside N. Every shard index incl. negative and out-of-range ones; split / shard asked again on the same object after the caller modified an earlier result.',
   note='Trusted: TLC. Bounded by N.',
   tech='TLA+ model of array_split, TLC exhaustive enumeration + trace validation of the real shards'),
 'C17': dict(engine='bucket', cat='model_checking', ref='DESIGN.md section 6 C17',
   text='Bucket.tla transcribes DynamicBucketDataset.__iter__ as a state machine (first-fit maybe_append, completion, one-bucket-per-step expiry, overflow loop, final flush; exact rational padding bounds). TLC enumerates all length sequences over a small alphabet x all parameter settings with the design invariants in every state, every enumerated behaviour is executed on the real code with fractions.Fraction rates and compared, and real observations (incl. seeded random longer sequences and float rates) are validated by TLC against the clauses Conservation / NonEmpty / AtMostBatchSize / PaddingBound / TotalSizeBound / ExpiryBound / BufferedBound / DropExact.',
   note='Trusted: TLC. Discard instants with drop_incomplete=True are not observable from outside (earliest possible discard assumed; the exact versions are model invariants). Float rates are judged with 1e-4 slack.',
   tech='TLA+ state machine of the bucketing loop, TLC BFS + replay + trace validation'),
 'C18': dict(engine='pipeline', cat='model_checking', ref='DESIGN.md section 6 C18',
   text='Family sortgroup of Pipeline.tla: dict payloads (incomparable: comparing two examples raises TypeError in the real code), ties, empty and singleton datasets; every sort (keyless / id / neg / mod2 / const x reverse) and groupby (mod2 / const / id x group id) on top of every depth<=1 (thorough 2) pipeline plus random deeper ones. TLC judges the recorded real observation: permutation of the input, sort keys monotone (reverse included), example keys in order for keyless sort, keys attached to their examples, a group = the examples with its id in original order. Custom sort_fn with another total order than sorted().',
   note='As C01. The content of the input is taken from the reference of the input program (tied to the code by C01).',
   tech='TLA+ state machine over API programs, TLC BFS + trace validation of real observations'),
 'C16': dict(engine='pipeline', cat='model_checking', ref='DESIGN.md section 6 C16',
   text='Laws.tla: every law (batch/unbatch identity, concat of split, slice-of-slice composition, map distributing over slicing / one-time shuffle / concatenation / caching / batching (batch_map) / sort, map fusion, lazy ~ eager filter ~ FilterException under catch, filter vs order-preserving selection, tile = r-fold concatenation) is instantiated at EVERY program TLC enumerates from Pipeline.tla (depth <= 1, thorough 2) with all its parameters. Design level: TLC checks that each instance is correctly stated (the two references are equal) and that the implementation-shaped model satisfies it, which also fixes the level of comparison (iteration / + len and indexing / + keys, items, key lookup). Both sides of every instance are executed on the real library and TLC judges the two REAL observations for observational equality - an oracle independent of the reference.',
   note='As C01. The comparison level of an instance is the strongest at which the model satisfies the law (capabilities of the two sides may legitimately differ, e.g. keys() with duplicate keys).',
   tech='TLA+ law operators over TLC-enumerated programs, trace validation of both sides'),
 'C08': dict(engine='demand', cat='model_checking', ref='DESIGN.md section 6 C08',
   text='Demand.tla is the demand-propagation machine of the statement: a request for output positions of a stage (first k results of an iteration / the single result ds[i]) is translated stage by stage (map, lazy and eager filter, slice, batch, unbatch, items, copy, cache, catch, concatenate, thread prefetch) into the exact sequence of inputs every user function must be applied to, with read-ahead only where the statement allows it (prefetch buffer, running into the end). TLC enumerates all chain programs up to depth 3 over sources of up to 3 examples; each is executed on the real library with logging user functions - construction, a fresh iterator for EVERY prefix length k in 0..len+1, ds[i] for every i - and TLC judges the recorded call logs: nothing at construction of lazy stages, exactly the needed examples, once, in request order. Key lookups ds[key], also through lazy filters; worker-pool prefetch stages.',
   note='Property-level specification (not implementation-shaped): conformance is the exact match of call sequences. Trusted: TLC, the logging twins. Key lookup ds[key] is covered through integer access of the same position only.',
   tech='TLA+ demand-propagation machine, TLC enumeration + trace validation of real call logs'),
 'C11': dict(engine='diskcache', cat='model_checking', ref='DESIGN.md section 6 C11',
   text='DiskCache.tla: state machine over LIFECYCLES on one directory (absent / empty / entries / foreign files), wrappers with reuse and clear and a reference count shared by copies, upstream call counters: Open(reuse, clear), Access by int / negative / numpy index, Copy, Release (last release = __del__: close, rmtree iff clear), KillWriter (process death between two stores), Reopen. TLC enumerates all lifecycles (quick: 2 examples, <= 5 actions) and checks the design; every lifecycle is replayed on REAL directories (Release = drop the reference + gc.collect(); KillWriter = a forked child SIGKILLed between two stores, every position) and TLC judges the recorded observations: ValuesExact, ReuseServesStored, NeverMisplaced, RefuseNonEmpty, ClearedIffAsked, CopiesKeepAlive. Accesses by position of either sign, numpy integers and by key.',
   note='One store is atomic in the spec; kills at random instants inside a store (thorough) are sampling below that atomicity and reported as such. Two independent datasets opened on one directory are outside "the last dataset sharing the cache" (sharing = copy()).',
   tech='TLA+ lifecycle state machine, TLC BFS + replay with real directories and SIGKILLed writers + trace validation'),
 'C12': dict(engine='random', cat='model_checking', ref='DESIGN.md section 6 C12',
   text='Random.tla: every rng call is nondeterminism resolved by TLC (shuffle: any permutation, choice(k): any value); ReShuffleDataset with its ONE shared in-place permutation array and iterators holding positions into it, LocalShuffleDataset buffer machine, one-time shuffle, tile(shuffle=True), random_choice. TLC explores all interleavings of the next() calls of 2 (thorough 3) iterators over one dataset object for n <= 3 (4), all rng answers; every behaviour is replayed on the real classes with a scripted rng and the same interleaving, plus real numpy generators and self-zip / self-intersperse compositions; TLC judges IsPermutation, NoRepeatSoFar, Displacement, ChoiceWithoutReplacement on the real outputs. Large sizes (257 .. 70000 examples, nine compositions, real generators, RandomBigTrace.tla) and catch() over a per-epoch reshuffle (every epoch drops exactly the failing examples).',
   note='A generator body runs atomically between two yields (single-threaded CPython). S7 (interleaved iterators over one ReShuffleDataset) is a recorded finding, classified by the verdict exactly when another iterator reshuffled while the violating one was in flight.',
   tech='TLA+ model of the shuffle stages with rng as nondeterminism, TLC BFS over interleavings + scripted-rng replay + trace validation'),
 'C13': dict(engine='random', cat='model_checking', ref='DESIGN.md section 6 C13',
   text='Seeds.tla: generators as explicit streams (seed, position), generator 0 = the global numpy state which an adversary re-seeds between any two steps; twin builds of pipelines with 1-3 random stages (reshuffle, local shuffle, one-time shuffle, lazy apply) wrapped by copy / copy(freeze) / prefetch(1,b) / prefetch(2,b), 3 epochs. TLC enumerates the scenarios and checks the design; each is executed on the real library with RandomState / default_rng generators and adversarial np.random.seed calls and TLC judges TwinsAgree, GlobalIndependent, FrozenFixed, Unordered, CopyAgrees, PrefetchAgrees; CopyKeepsParams compares vars() of every Dataset class with its own copy() against its copy.',
   note='The design-level verdicts use one fixed stream function. S19 (copy un-shares a reshuffle object used twice) is a recorded finding.',
   tech='TLA+ model of generator streams and copy(freeze), TLC enumeration + replay with real numpy generators + trace validation'),
 'C20': dict(engine='demand', cat='model_checking', ref='DESIGN.md section 6 C20',
   text='Profile.tla (on top of Demand.tla): for every chain program TLC enumerates, the number of examples fetched from stage s is the size of the request the demand-propagation machine sends to stage s (the machine that C08 validates against real call logs). Every program is observed plain and under ProfilingDataset on the real library - iteration twice, len, ds[i] for all i incl. errors -, the original object graph is compared before / after wrapping, and the hit counters of every wrapper are read after a full iteration, after taking k results for every k, and after ds[i] for every i; TLC judges transparency, untouched, and hits = fetches (failed fetches apart). Hit counts are read while the iterator is still open (pipelines without background threads) and after closing.',
   note='Chain programs incl. single-thread prefetch; chains with two batch stages are judged for transparency only (index-mode batches over-fetch by probing). Pool prefetch behind the wrapper is not in the family.',
   tech='TLA+ demand machine as fetch-count oracle, TLC enumeration + trace validation'),
 'C19': dict(engine='database', cat='model_checking', ref='DESIGN.md section 6 C19',
   text='Database.tla transcribes _merge_database_dicts, get_examples (alias union, overlap assert, augmentation on copies), _get_dataset (list recursion, weak memo), the alias property and JsonDatabase pickling, next to a statement-level reference; state machine over request histories (name / alias / list / repeat / Release / pickle round trip). TLC enumerates description families (contents, layouts over 1..3 merged parts with and without alias sections and extra keys, duplicates) x histories and checks the design; every behaviour is executed on the real DictDatabase and JsonDatabase (identity via weak references, Release = del + gc.collect(), deep comparison of the source dicts) and TLC judges ExamplesExact, AliasIsConcat, ListIsConcat, SourceUntouched, SharedWhileAlive, DuplicatesRejected, MergeTotal, PickledAgrees on the real observations. Datasets of earlier databases stay alive while later histories run (cross-instance isolation).',
   note='A missing alias section is read as equivalent to an empty one (the alias property adds an empty section to the source dict). Empty datasets / unknown names / asserts on later parts are documented refusals, outside the statement.',
   tech='TLA+ model of the database layer, TLC enumeration + replay + trace validation'),
 'C09': dict(engine='cache', cat='model_checking', ref='DESIGN.md section 6 C09',
   text='Isolation.tla: a heap model (objects with top-level and nested content, so deep and shallow copies differ) with stores holding BYTES or a REFERENCE exactly as each storage mode does (pickle, copy, wu, memory cache with pickle / copy warranty on first and later access, disk cache); histories of Access by index / key / slice / iteration / items / through a copy, MutateTop / MutateNested of any handed-out object, MutateOriginal. TLC enumerates all histories (quick <= 5 steps, 2 keys) and checks the design; each is replayed on real nested examples with deep in-place mutation, all read paths compared with the pristine snapshot and identities with `is`; TLC judges ReadsPristine and NoAlias on the real observations. Example shapes: nested dict / list, tuple holding mutables, and numpy arrays written in place.',
   note='pickle round-trip fidelity is trusted. In copy mode the statement makes no promise about the ORIGINAL container (stored by reference): exempt after MutateOriginal.',
   tech='TLA+ heap/aliasing model, TLC BFS over histories + replay + trace validation'),
 'C10': dict(engine='cache', cat='model_checking', ref='DESIGN.md section 6 C10',
   text='Cache.tla transcribes CacheDataset.__getitem__ / check() / copy (shared _cache, per-instance latch) with the upstream value of example i at its k-th computation = <<i, k>> ("freshly random per call"): histories of access by index of either sign, key, slice, iteration, items, copy, thread-prefetch worker, monotone MemDrop, eager snapshot. TLC enumerates all histories (quick: 3 examples, <= 4 steps) and checks the design; each is replayed on the real library (psutil.virtual_memory patched, call counters per example) plus seeded random long histories; TLC judges Transparent, FirstValue, ComputeOnce, NoCachingAfterDrop, FrozenBeforeDrop, AlwaysProduced, EagerSnapshot on the real observations.',
   note='Memory is monotone (once low, stays low) as the quantifier states; the per-instance latch is therefore unobservable. Thread-prefetch access is sequentialised in Cache.tla (copy(freeze) + ordered access); pool workers that request one example twice (tile(2).prefetch, [[0,0,1,1,..]].prefetch) are additionally model checked at the granularity of the code in CacheRace.tla (lookup / compute / store; Atomic = FALSE is refuted: open finding S21) and executed on the real library under seeded line-level schedules of harness/detsched.py (sampling of interleavings, not all of them).',
   tech='TLA+ model of the memory cache, TLC BFS over access histories + replay + trace validation'),
}

PENDING_REASON = 'check not built yet in this round (specification planned in DESIGN.md section 6); will be claimed when its check exists'


def main():
    props = [json.loads(l) for l in open('/verif/properties.jsonl')]
    commits = subprocess.run(['git', '-C', '/repo', 'log', '--format=%h %s', '--grep=^verif-hook:'],
                             capture_output=True, text=True).stdout.split('\n')
    checks, na = [], []
    for p in props:
        pid = p['id']
        if pid in CLAIMED:
            c = CLAIMED[pid]
            checks.append({
                'property_id': pid,
                'quick_cmd': f'./check {pid} --tier quick',
                'thorough_cmd': f'./check {pid} --tier thorough',
                'evidence_file': f'/verif/evidence/{pid}.json',
                'replay_cmd_template': f'./check {pid} --replay {{path}}',
                'engine': c['engine'],
                'level_claimed': {'category': c['cat'], 'text': c['text'], 'design_ref': c['ref']},
                'level_note': c['note'],
                'technique': c['tech'],
            })
        else:
            na.append({'property_id': pid, 'reason': PENDING_REASON})
    m = {
        'version': 1,
        'setup_cmd': 'true',
        'hooks': {
            'guard': 'FGNT_LAZY_DATASET_VERIF',
            'enable': 'no source hooks: the harness observes through the public API, module-namespace shims and sys.settrace installed at run time',
            'baseline_off_cmd': '/verif/tools/baseline_off.py',
            'source_commits': [c.split()[0] for c in commits if c.strip()],
            'add_only': True,
        },
        'engines': [
            {'name': 'pipeline', 'path': '/verif/specs/Pipeline.tla',
             'serves_properties': ['C01', 'C02', 'C03', 'C14', 'C16', 'C18'],
             'kind_free_text': 'TLA+ specs Values/Ref/Impl/Obs/Pipeline/PipelineTrace checked with TLC; harness/{build,observe,pipeline}.py bind them to the code in both directions'},
            {'name': 'demand', 'path': '/verif/specs/Demand.tla', 'serves_properties': ['C08', 'C20'],
             'kind_free_text': 'Demand.tla / DemandTrace.tla / Profile.tla / ProfileTrace.tla + harness/check_demand.py, check_profile.py'},
            {'name': 'cache', 'path': '/verif/specs/Cache.tla', 'serves_properties': ['C09', 'C10'],
             'kind_free_text': 'Cache.tla / Isolation.tla + trace specs + harness/check_cache.py, check_isolation.py'},
            {'name': 'diskcache', 'path': '/verif/specs/DiskCache.tla', 'serves_properties': ['C11'],
             'kind_free_text': 'DiskCache.tla / DiskCacheTrace.tla + harness/check_diskcache.py'},
            {'name': 'random', 'path': '/verif/specs/Random.tla', 'serves_properties': ['C12', 'C13'],
             'kind_free_text': 'Random.tla / Seeds.tla + trace specs + harness/check_random.py, check_seeds.py'},
            {'name': 'database', 'path': '/verif/specs/Database.tla', 'serves_properties': ['C19'],
             'kind_free_text': 'Database.tla / DatabaseTrace.tla + harness/check_database.py'},
            {'name': 'shards', 'path': '/verif/specs/Shards.tla', 'serves_properties': ['C15'],
             'kind_free_text': 'Shards.tla / ShardsTrace.tla + harness/check_shards.py'},
            {'name': 'bucket', 'path': '/verif/specs/Bucket.tla', 'serves_properties': ['C17'],
             'kind_free_text': 'Bucket.tla / BucketTrace.tla + harness/check_bucket.py'},
            {'name': 'conc', 'path': '/verif/specs/SingleThreadPrefetch.tla',
             'serves_properties': ['C04', 'C05', 'C06', 'C07'],
             'kind_free_text': 'TLA+ specs SingleThreadPrefetch/PoolMap/PrefetchAbs + trace specs STPTrace/LPMTrace/DSTrace; counting abstractions STPCount/PoolCount (TLC refinement + Apalache inductive invariants, harness/apalache.py); harness/detsched.py (controlled scheduler over the real threads, down to source-line granularity), conc.py, schedobs.py, realpool.py, check_conc.py'},
        ],
        'checks': checks,
        'notes': 'All checks run ./check <id> (bash -> /venv/bin/python -m harness.main); they import lazy_dataset from /repo working tree at run time (pure Python, nothing to build). Genuine defects found are in known_findings.json (fixed ones carry their /repo commit).',
        'not_applicable': na,
    }
    json.dump(m, open('/verif/MANIFEST.json', 'w'), indent=1)
    print('checks', len(checks), 'not_applicable', len(na))


main()
