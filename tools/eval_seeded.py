#!/venv/bin/python
"""Evaluate one seeded change:  eval_seeded.py <property> <dir with patch.diff + demo.py> [checks...]

1. scratch worktree of /repo HEAD (outside /repo and /verif), demo must exit 0;
2. apply patch.diff, demo must exit 1;
3. the pinned test suite must still pass exactly the baseline set;
4. run the given checks (default: the property's own) against the patched package
   (PYTHONPATH=<worktree>), report exit code and the first VIOLATION line;
5. remove the worktree.  Prints one JSON object."""
import json
import os
import shutil
import subprocess
import sys
import tempfile
import xml.etree.ElementTree as ET

prop, src = sys.argv[1], os.path.abspath(sys.argv[2])
checks = sys.argv[3:] or [prop]
wt = tempfile.mkdtemp(prefix='seeded-eval-')
os.rmdir(wt)
out = {'property': prop, 'dir': src}
env = dict(os.environ, OMP_NUM_THREADS='1', MKL_NUM_THREADS='1')


def sh(cmd, cwd=None, timeout=900, env=env):
    # output goes to a FILE, not a pipe: a grandchild that outlives the command
    # (a writer blocked on a lock, an orphaned pool worker) must not keep us waiting
    with tempfile.TemporaryFile('w+') as out:
        p = subprocess.run(cmd, cwd=cwd, env=env, shell=isinstance(cmd, str), stdout=out,
                           stderr=subprocess.STDOUT, text=True, timeout=timeout)
        out.seek(0)
        return p.returncode, out.read()


try:
    rc, o = sh(['git', '-C', '/repo', 'worktree', 'add', '-q', '--detach', wt, 'HEAD'])
    assert rc == 0, o
    rel = os.path.join('seeded', 'x')
    os.makedirs(os.path.join(wt, 'seeded'))
    shutil.copytree(src, os.path.join(wt, rel))
    demo = os.path.join(rel, 'demo.py')
    rc, o = sh(['/venv/bin/python', demo], cwd=wt, timeout=300)
    out['demo_clean_rc'] = rc
    rc, o = sh(['git', 'apply', os.path.join(rel, 'patch.diff')], cwd=wt)
    out['patch_applies'] = rc == 0
    if rc != 0:
        out['patch_error'] = o[-400:]
    rc, o = sh(['/venv/bin/python', demo], cwd=wt, timeout=300)
    out['demo_patched_rc'] = rc
    out['demo_patched_tail'] = o[-300:]
    # pinned suite (guard env off); the demo files must not be collected
    shutil.rmtree(os.path.join(wt, 'seeded'), ignore_errors=True)
    tenv = {k: v for k, v in os.environ.items() if k not in ('OMP_NUM_THREADS', 'MKL_NUM_THREADS')}
    xml = os.path.join(wt, 'junit.xml')
    sh(['/venv/bin/python', '-m', 'pytest', '-q', '-p', 'no:cacheprovider', '--timeout=900',
        '--continue-on-collection-errors', f'--junitxml={xml}'], cwd=wt, env=tenv, timeout=1200)
    passed = set()
    for tc in ET.parse(xml).getroot().iter('testcase'):
        if not any(c.tag in ('failure', 'error', 'skipped') for c in tc):
            passed.add(f"{tc.get('classname')}::{tc.get('name')}")
    base = set(json.load(open('/root/.vp/BASELINE.json'))['stable_pass'])
    out['suite_missing'] = sorted(base - passed)[:5]
    out['suite_ok'] = not (base - passed)
    os.remove(xml)
    res = {}
    for c in checks:
        e2 = dict(env, PYTHONPATH=wt, VERIF_EVIDENCE_DIR=os.path.join(wt, '.verif-evidence'))
        rc, o = sh(['/verif/check', c, '--tier', 'quick'], cwd='/verif', env=e2, timeout=3000)
        viol = [l for l in o.splitlines() if l.startswith('VIOLATION')]
        res[c] = {'rc': rc, 'violations': len(viol), 'first': viol[0][:300] if viol else '',
                  'tail': '' if viol else o[-300:]}
    out['checks'] = res
finally:
    subprocess.run(['git', '-C', '/repo', 'worktree', 'remove', '--force', wt], capture_output=True)
    shutil.rmtree(wt, ignore_errors=True)
print(json.dumps(out, indent=1))
