#!/venv/bin/python
"""Run the repository's pinned test suite with the verification guard OFF and
compare the set of passing tests with /root/.vp/BASELINE.json (stable_pass).
Exit 0 iff every baseline test still passes."""
import json
import os
import subprocess
import sys
import tempfile
import xml.etree.ElementTree as ET

env = dict(os.environ)
env.pop('FGNT_LAZY_DATASET_VERIF', None)
env.pop('OMP_NUM_THREADS', None)
env.pop('MKL_NUM_THREADS', None)
with tempfile.TemporaryDirectory() as d:
    xml = os.path.join(d, 'junit.xml')
    subprocess.run(['/venv/bin/python', '-m', 'pytest', '-ra', '-q', '-p', 'no:cacheprovider',
                    '--timeout=900', '--continue-on-collection-errors', f'--junitxml={xml}'],
                   cwd='/repo', env=env, stdout=subprocess.DEVNULL, stderr=subprocess.DEVNULL)
    passed = set()
    for tc in ET.parse(xml).getroot().iter('testcase'):
        if not any(c.tag in ('failure', 'error', 'skipped') for c in tc):
            passed.add(f"{tc.get('classname')}::{tc.get('name')}")
base = set(json.load(open('/root/.vp/BASELINE.json'))['stable_pass'])
missing = sorted(base - passed)
print(f'baseline {len(base)} passing now {len(passed)} missing {len(missing)}')
for m in missing[:20]:
    print('  MISSING', m)
sys.exit(1 if missing else 0)
